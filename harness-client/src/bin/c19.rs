//! C19 harness: the real `CardanoDatabaseClient::download_unpack` on honest and hostile archives
//! (tar + zstd files served through `file://` locations), manifests and pre-existing target directories.
//!  K: Ok/Err and the canonical recursive listing of the case directory afterwards vs the Lean model
//!     `Restore.Full.run`.
//!  S (evaluated here on the real listing): every file or link that is new (or changed) after the call is
//!     a bootstrap marker, an immutable trio file of the requested range, or a path listed - with the hash
//!     of the content READ THROUGH the restored path - in a manifest whose signature verifies under the
//!     configured key; nothing stays of the temporary ancillary directory.
use hclient::{name_ok, sha256_hex, Ids, Scratch};
use hutil::{Args, Rng, Sink};
use mithril_cardano_node_internal_database::entities::AncillaryFilesManifest;
use mithril_client::cardano_database_client::{DownloadUnpackOptions, ImmutableFileRange};
use mithril_client::feedback::FeedbackSender;
use mithril_client::file_downloader::{FileDownloadRetryPolicy, HttpFileDownloader, RetryDownloader};
use mithril_client::{CardanoDatabaseSnapshot, Client, ClientBuilder};
use mithril_common::crypto_helper::{ManifestSigner, ManifestVerifier};
use mithril_common::entities::{
    AncillaryLocation, CardanoDbBeacon, CompressionAlgorithm, ImmutablesLocation, MultiFilesUri, TemplateUri,
};
use mithril_common::messages::{AncillaryMessagePart, ImmutablesMessagePart};
use mithril_common::test::double::{fake_keys, Dummy};
use std::collections::{BTreeMap, BTreeSet};
use std::path::{Path, PathBuf};

const EXTS: [&str; 3] = ["chunk", "primary", "secondary"];
const MANIFEST: &str = "ancillary_manifest.json";

fn trio_name(n: u64, e: usize) -> String {
    format!("{:05}.{}", n, EXTS[e])
}

#[derive(Clone, Debug)]
enum R {
    Full,
    From(u64),
    Range(u64, u64),
    UpTo(u64),
}

impl R {
    fn real(&self) -> ImmutableFileRange {
        match self {
            R::Full => ImmutableFileRange::Full,
            R::From(a) => ImmutableFileRange::From(*a),
            R::Range(a, b) => ImmutableFileRange::Range(*a, *b),
            R::UpTo(b) => ImmutableFileRange::UpTo(*b),
        }
    }
    fn show(&self) -> String {
        match self {
            R::Full => "(full)".into(),
            R::From(a) => format!("(from,{})", a),
            R::Range(a, b) => format!("(range,{},{})", a, b),
            R::UpTo(b) => format!("(upto,{})", b),
        }
    }
    /// the range as the property reads it
    fn bounds(&self, last: u64) -> Option<(u64, u64)> {
        match *self {
            R::Full => Some((0, last)),
            R::From(a) if a <= last => Some((a, last)),
            R::Range(a, b) if a <= b && b <= last => Some((a, b)),
            R::UpTo(b) if b <= last => Some((0, b)),
            _ => None,
        }
    }
}

#[derive(Clone, Debug)]
enum EK {
    File(Vec<u8>),
    Dir,
    Symlink(String),
    Hardlink(String),
}

#[derive(Clone, Debug)]
struct Ent {
    path: String, // raw bytes written into the header
    kind: EK,
}

#[derive(Clone, Debug)]
struct Loc {
    present: bool,
    intact: bool,
    entries: Vec<Ent>,
}

#[derive(Clone, Debug)]
enum Pre {
    Dir(String),
    File(String, Vec<u8>),
    Link(String, String),
}

#[derive(Clone, Debug)]
struct Case {
    pre: Vec<Pre>, // paths relative to the case root (`db/...`, `out/...`)
    range: R,
    last: u64,
    allow_override: bool,
    include_ancillary: bool,
    verifier_set: bool,
    network: String,
    imm: BTreeMap<u64, Vec<Loc>>,
    anc: Vec<Loc>,
    parallel: usize,
}

fn file(p: &str, c: &[u8]) -> Ent {
    Ent { path: p.to_string(), kind: EK::File(c.to_vec()) }
}
fn symlink(p: &str, t: &str) -> Ent {
    Ent { path: p.to_string(), kind: EK::Symlink(t.to_string()) }
}
fn hardlink(p: &str, t: &str) -> Ent {
    Ent { path: p.to_string(), kind: EK::Hardlink(t.to_string()) }
}
fn dir(p: &str) -> Ent {
    Ent { path: p.to_string(), kind: EK::Dir }
}

/// writes the header bytes itself: `tar::Builder::append_data` refuses `..` and absolute paths
fn write_archive(path: &Path, loc: &Loc) {
    let f = std::fs::File::create(path).unwrap();
    let enc = zstd::Encoder::new(f, 1).unwrap();
    let mut b = tar::Builder::new(enc);
    for e in &loc.entries {
        let mut h = tar::Header::new_gnu();
        {
            let g = h.as_gnu_mut().unwrap();
            let pb = e.path.as_bytes();
            assert!(pb.len() < 100, "path too long");
            g.name[..pb.len()].copy_from_slice(pb);
            if let EK::Symlink(t) | EK::Hardlink(t) = &e.kind {
                let tb = t.as_bytes();
                assert!(tb.len() < 100);
                g.linkname[..tb.len()].copy_from_slice(tb);
            }
        }
        h.set_mtime(1_700_000_000);
        h.set_uid(0);
        h.set_gid(0);
        let data: &[u8] = match &e.kind {
            EK::File(c) => {
                h.set_entry_type(tar::EntryType::Regular);
                h.set_mode(0o644);
                h.set_size(c.len() as u64);
                c
            }
            EK::Dir => {
                h.set_entry_type(tar::EntryType::Directory);
                h.set_mode(0o755);
                h.set_size(0);
                &[]
            }
            EK::Symlink(_) => {
                h.set_entry_type(tar::EntryType::Symlink);
                h.set_mode(0o777);
                h.set_size(0);
                &[]
            }
            EK::Hardlink(_) => {
                h.set_entry_type(tar::EntryType::Link);
                h.set_mode(0o644);
                h.set_size(0);
                &[]
            }
        };
        h.set_cksum();
        b.append(&h, data).unwrap();
    }
    if !loc.intact {
        // a block that is no header, before the end-of-archive marker: the tar stream breaks here,
        // the zstd stream stays valid
        use std::io::Write;
        b.get_mut().write_all(&[0xffu8; 512]).unwrap();
        b.get_mut().write_all(&[0x41u8; 512]).unwrap();
    }
    let enc = b.into_inner().unwrap_or_else(|_| panic!("tar"));
    enc.finish().unwrap();
}

/// canonical text of a link target / path: empty and `.` components dropped
fn norm_text(s: &str) -> String {
    let abs = s.starts_with('/');
    let parts: Vec<&str> = s.split('/').filter(|c| !c.is_empty() && *c != ".").collect();
    format!("{}{}", if abs { "/" } else { "" }, parts.join("/"))
}

#[derive(Clone, Debug, PartialEq)]
enum Node {
    Dir,
    File(String), // sha256 of the content
    Link(String), // target text
}

/// recursive listing of `root` (relative paths with `/`), `ancillary-*` directly under `db` renamed
fn listing(root: &Path) -> BTreeMap<String, Node> {
    fn walk(d: &Path, rel: &str, out: &mut BTreeMap<String, Node>) {
        let mut names: Vec<_> = match std::fs::read_dir(d) {
            Ok(rd) => rd.flatten().map(|e| e.file_name().to_string_lossy().to_string()).collect(),
            Err(_) => return,
        };
        names.sort();
        for n in names {
            let p = d.join(&n);
            let shown = if rel == "db" && n.starts_with("ancillary-") { "ancillary-TMP".to_string() } else { n.clone() };
            let r = if rel.is_empty() { shown } else { format!("{}/{}", rel, shown) };
            let md = std::fs::symlink_metadata(&p).unwrap();
            if md.file_type().is_symlink() {
                out.insert(r, Node::Link(norm_text(&std::fs::read_link(&p).unwrap().to_string_lossy())));
            } else if md.is_dir() {
                out.insert(r.clone(), Node::Dir);
                walk(&p, &r, out);
            } else {
                out.insert(r, Node::File(sha256_hex(&std::fs::read(&p).unwrap())));
            }
        }
    }
    let mut out = BTreeMap::new();
    walk(root, "", &mut out);
    out
}

fn show_listing(l: &BTreeMap<String, Node>, ids: &mut Ids) -> String {
    let mut v = vec![];
    for (p, n) in l {
        assert!(name_ok(p), "{}", p);
        v.push(match n {
            Node::Dir => format!("({},d)", p),
            Node::File(h) => format!("({},f,{})", p, ids.id(h)),
            Node::Link(t) => format!("({},l,{})", p, t),
        });
    }
    format!("[{}]", v.join(","))
}

fn show_loc(l: &Loc, ids: &mut Ids) -> String {
    if !l.present {
        return "(0)".into();
    }
    // rank of the raw path among the directory entries (tar applies directories by descending path bytes)
    let mut dir_paths: Vec<&[u8]> = l.entries.iter().filter(|e| matches!(e.kind, EK::Dir)).map(|e| e.path.as_bytes()).collect();
    dir_paths.sort();
    dir_paths.dedup();
    let mut v = vec![];
    for e in &l.entries {
        assert!(name_ok(&e.path), "{}", e.path);
        v.push(match &e.kind {
            EK::File(c) => format!("({},f,{})", e.path, ids.id(&sha256_hex(c))),
            EK::Dir => format!("({},d,{})", e.path, dir_paths.iter().position(|p| *p == e.path.as_bytes()).unwrap()),
            EK::Symlink(t) => format!("({},s,{})", e.path, t),
            EK::Hardlink(t) => format!("({},h,{})", e.path, t),
        });
    }
    format!("(1,{},[{}])", l.intact as u8, v.join(","))
}

struct Keys {
    genuine: ManifestSigner,
    other: ManifestSigner,
}

#[derive(Clone, Debug)]
enum SigKind {
    Genuine,
    OtherKey,
    Altered,
    Missing,
}

fn manifest_json(keys: &Keys, entries: &[(String, String)], sig: SigKind) -> Vec<u8> {
    let data: BTreeMap<PathBuf, String> = entries.iter().map(|(p, h)| (PathBuf::from(p), h.clone())).collect();
    let mut m = AncillaryFilesManifest::new_without_signature(data);
    match sig {
        SigKind::Genuine => m.set_signature(keys.genuine.sign(&m.compute_hash())),
        SigKind::OtherKey => m.set_signature(keys.other.sign(&m.compute_hash())),
        SigKind::Altered => {
            let mut h = m.compute_hash();
            h[0] ^= 1;
            m.set_signature(keys.genuine.sign(&h))
        }
        SigKind::Missing => {}
    }
    serde_json::to_vec(&m).unwrap()
}

/// what the model is told about a file content that may be read as a manifest: parsed with the real
/// type, signature checked with the real verifier (crypto is an oracle for the model)
fn manifest_table(keys: &Keys, case: &Case, pre_files: &[Vec<u8>], ids: &mut Ids) -> (String, Vec<(BTreeMap<String, String>, bool)>) {
    let verifier = ManifestVerifier::from_verification_key(keys.genuine.verification_key());
    let mut seen = BTreeSet::new();
    let mut rows = vec![];
    let mut parsed = vec![];
    let mut contents: Vec<&Vec<u8>> = vec![];
    for l in case.anc.iter().chain(case.imm.values().flatten()) {
        for e in &l.entries {
            if let EK::File(c) = &e.kind {
                contents.push(c);
            }
        }
    }
    contents.extend(pre_files.iter());
    for c in contents {
        if c.first() != Some(&b'{') {
            continue;
        }
        let h = sha256_hex(c);
        if !seen.insert(h.clone()) {
            continue;
        }
        match serde_json::from_slice::<AncillaryFilesManifest>(c) {
            Err(_) => rows.push(format!("({},bad)", ids.id(&h))),
            Ok(m) => {
                let sig = match m.signature() {
                    None => "nosig",
                    Some(s) => {
                        if verifier.verify(&m.compute_hash(), &s).is_ok() {
                            "ok"
                        } else {
                            "badsig"
                        }
                    }
                };
                let es: Vec<String> = m
                    .signable_manifest
                    .data
                    .iter()
                    .map(|(p, v)| {
                        let ps = p.to_string_lossy().to_string();
                        assert!(name_ok(&ps));
                        format!("({},{})", ps, ids.id(v))
                    })
                    .collect();
                rows.push(format!("({},{},[{}])", ids.id(&h), sig, es.join(",")));
                parsed.push((
                    m.signable_manifest.data.iter().map(|(p, v)| (norm_text(&p.to_string_lossy()), v.clone())).collect(),
                    sig == "ok",
                ));
            }
        }
    }
    (format!("[{}]", rows.join(",")), parsed)
}

struct Ctx {
    rt: tokio::runtime::Runtime,
    with_key: Client,
    without_key: Client,
    scratch: Scratch,
    keys: Keys,
}

fn magic_of(network: &str) -> Option<&'static str> {
    match network {
        "mainnet" => Some("764824073"),
        "preview" => Some("2"),
        "preprod" => Some("1"),
        "devnet" => Some("42"),
        _ => None,
    }
}

struct Outcome {
    ok: bool,
    pre: BTreeMap<String, Node>,
    post: BTreeMap<String, Node>,
    sfails: Vec<(String, String)>,
    req: String,
}

fn materialise(root: &Path, pre: &[Pre]) {
    for p in pre {
        match p {
            Pre::Dir(d) => std::fs::create_dir_all(root.join(d)).unwrap(),
            Pre::File(f, c) => {
                let q = root.join(f);
                std::fs::create_dir_all(q.parent().unwrap()).unwrap();
                std::fs::write(q, c).unwrap();
            }
            Pre::Link(l, t) => {
                let q = root.join(l);
                std::fs::create_dir_all(q.parent().unwrap()).unwrap();
                std::os::unix::fs::symlink(t, q).unwrap();
            }
        }
    }
}

/// tar's view of an entry path: None = skipped (`..`), else the components below the destination
fn tar_norm(p: &str) -> Option<Vec<String>> {
    let mut out = vec![];
    for c in p.split('/') {
        match c {
            "" | "." => {}
            ".." => return None,
            x => out.push(x.to_string()),
        }
    }
    Some(out)
}

fn is_trio_name(n: &str) -> Option<u64> {
    let (stem, ext) = n.split_once('.')?;
    if stem.len() == 5 && stem.bytes().all(|b| b.is_ascii_digit()) && EXTS.contains(&ext) {
        stem.parse().ok()
    } else {
        None
    }
}

/// the specification, evaluated on the real listings
fn spec(case: &Case, ok: bool, pre: &BTreeMap<String, Node>, post: &BTreeMap<String, Node>, root: &Path, manifests: &[(BTreeMap<String, String>, bool)]) -> Vec<(String, String)> {
    let mut fails = vec![];
    let bounds = case.range.bounds(case.last);
    // immutable-archive entries as tar places them (lexically)
    let mut imm_entries: Vec<(Vec<String>, &EK)> = vec![];
    for l in case.imm.values().flatten() {
        for e in &l.entries {
            if let Some(c) = tar_norm(&e.path) {
                if !c.is_empty() {
                    imm_entries.push((c, &e.kind));
                }
            }
        }
    }
    let foreign = |c: &Vec<String>, k: &EK| c[0] != "immutable" || (c.len() == 1 && !matches!(k, EK::Dir));
    let has_foreign = imm_entries.iter().any(|(c, k)| foreign(c, k));
    let foreign_link_prefix = |rel: &str| {
        imm_entries.iter().any(|(c, k)| {
            foreign(c, k) && matches!(k, EK::Symlink(_)) && {
                let pre = c.join("/");
                rel == pre || rel.starts_with(&format!("{}/", pre))
            }
        })
    };
    let mut anc_entries: Vec<(String, &EK)> = vec![];
    for l in &case.anc {
        for e in &l.entries {
            if let Some(c) = tar_norm(&e.path) {
                anc_entries.push((c.join("/"), &e.kind));
            }
        }
    }
    // vouched paths: listed in a manifest whose signature verifies under the configured key
    let mut vouched: BTreeMap<String, BTreeSet<String>> = BTreeMap::new();
    if case.include_ancillary && case.verifier_set {
        for (m, sig_ok) in manifests {
            if *sig_ok {
                for (p, h) in m {
                    vouched.entry(p.clone()).or_default().insert(h.clone());
                }
            }
        }
    }
    // a legitimate path may resolve elsewhere through links that were there BEFORE the call (the user's
    // own layout): the node it resolves to is then as legitimate as the path
    let root_canon = std::fs::canonicalize(root).unwrap();
    let through_pre_links = |logical: &str| -> Option<String> {
        // every link met on the way must be a pre-existing one
        let mut cur = String::new();
        for c in logical.split('/') {
            cur = if cur.is_empty() { c.to_string() } else { format!("{}/{}", cur, c) };
            if let Some(Node::Link(_)) = post.get(&cur) {
                if pre.get(&cur) != post.get(&cur) {
                    return None;
                }
                break; // below a link the listing uses the resolved place
            }
        }
        let canon = std::fs::canonicalize(root.join(logical)).ok()?;
        canon.strip_prefix(&root_canon).ok().map(|r| r.to_string_lossy().to_string())
    };
    let mut allowed_elsewhere: BTreeSet<String> = BTreeSet::new();
    if let Some((lo, hi)) = bounds {
        for n in lo..=hi {
            for e in 0..3 {
                if let Some(r) = through_pre_links(&format!("db/immutable/{}", trio_name(n, e))) {
                    allowed_elsewhere.insert(r);
                }
            }
        }
    }
    for (v, hs) in &vouched {
        let logical = format!("db/{}", v);
        if let (Some(r), Ok(c)) = (through_pre_links(&logical), std::fs::read(root.join(&logical))) {
            if hs.contains(&sha256_hex(&c)) {
                allowed_elsewhere.insert(r);
            }
        }
    }
    for m in ["db/clean", "db/protocolMagicId"] {
        if let Some(r) = through_pre_links(m) {
            if r != m {
                allowed_elsewhere.insert(r);
            }
        }
    }
    for (p, node) in post {
        if matches!(node, Node::Dir) || pre.get(p) == Some(node) {
            continue;
        }
        if matches!(node, Node::File(_)) && !p.starts_with("db/immutable/") && !p.starts_with("db/ledger") && !p.starts_with("db/volatile") && p != "db/clean" && p != "db/protocolMagicId" && allowed_elsewhere.contains(p) {
            continue;
        }
        let abs = root.join(p);
        // (a) bootstrap markers
        if p == "db/clean" && *node == Node::File(sha256_hex(b"")) {
            continue;
        }
        if p == "db/protocolMagicId" {
            if let (Some(m), Node::File(h)) = (magic_of(&case.network), node) {
                if *h == sha256_hex(m.as_bytes()) {
                    continue;
                }
            }
        }
        // after a SUCCESSFUL call the two markers are the client's own, whatever an archive carried under these names
        // (a regular file: a LINK planted under a marker's name stays a link, the client writing through it — that is the
        // known foreign-entry finding)
        if ok && matches!(node, Node::File(_)) && (p == "db/clean" || (p == "db/protocolMagicId" && magic_of(&case.network).is_some())) {
            fails.push(("bootstrap-marker".to_string(), format!("{} is {:?} after a successful call: not the marker the client writes", p, node)));
            continue;
        }
        let rel = p.strip_prefix("db/").map(|s| s.to_string());
        // (b) immutable trio files of the requested range
        if let (Some(rel), Some((lo, hi)), Node::File(_)) = (&rel, bounds, node) {
            if let Some(name) = rel.strip_prefix("immutable/") {
                if let Some(n) = is_trio_name(name) {
                    if lo <= n && n <= hi {
                        continue;
                    }
                }
            }
        }
        // (c) vouched ancillary files, judged on the content read through the restored path
        if let Some(rel) = &rel {
            if let Some(hs) = vouched.get(rel) {
                let read = std::fs::read(&abs).map(|c| sha256_hex(&c));
                // the node itself may have been put there by an immutable archive (same path, same
                // content): then it is judged as such below, not as an ancillary file
                let from_imm = imm_entries.iter().any(|(c, k)| c.join("/") == *rel && match (k, node) {
                    (EK::File(c), Node::File(h)) => sha256_hex(c) == *h,
                    (EK::Symlink(t), Node::Link(l)) => norm_text(t) == *l,
                    (EK::Hardlink(_), Node::File(_)) => true,
                    _ => false,
                });
                match read {
                    Ok(h) if hs.contains(&h) => continue,
                    other if !from_imm => {
                        let class = if foreign_link_prefix(rel) { "foreign-entry" } else { "vouched-content-mismatch" };
                        fails.push((class.to_string(), format!("{} is listed in a verified manifest but what is read through the restored path is {:?} ({:?})", p, other.ok(), node)));
                        continue;
                    }
                    _ => {}
                }
            }
        }
        // not allowed: classify
        let class: &str = if p.starts_with("db/ancillary-TMP") {
            "ancillary-tmp-left"
        } else if let Some(rest) = rel.as_ref().and_then(|r| r.strip_prefix("immutable/")) {
            let first = rest.split('/').next().unwrap();
            // (since 3360edee4 the clean-up expects the trios of the REQUESTED range, +1 with the ancillary files)
            let (lower, upper) = match bounds { Some((lo, hi)) => (lo, if case.include_ancillary { hi + 1 } else { hi }), None => (1, 0) };
            let expected_name = is_trio_name(first).map(|n| lower <= n && n <= upper).unwrap_or(false)
                || pre.contains_key(&format!("db/immutable/{}", first));
            if !expected_name {
                "cleanup-missed"
            } else if rest.contains('/') || !matches!(node, Node::File(_)) {
                "immutable-entry-kept-by-name"
            } else if case.include_ancillary && bounds.map(|(_, hi)| is_trio_name(first) == Some(hi + 1)).unwrap_or(false) {
                // the one trio the clean-up still expects beyond the requested range: the next one, which the
                // ANCILLARY archive legitimately carries — here it came from somewhere else and nothing vouches for it
                "next-trio-not-from-ancillary"
            } else if is_trio_name(first).map(|n| n < lower || n > upper).unwrap_or(false) {
                // a name outside the requested range that was there BEFORE the call (that is why it is expected): an
                // archive replaced what it held — kept by its name only
                "immutable-entry-kept-by-name"
            } else if is_trio_name(first).is_some() {
                "trio-outside-range"
            } else {
                "immutable-entry-kept-by-name"
            }
        } else {
            // outside `immutable/` (possibly outside the target directory)
            let from_anc = rel.as_ref().map(|r| {
                anc_entries.iter().any(|(c, k)| c == r && match (k, node) {
                    (EK::File(c), Node::File(h)) => sha256_hex(c) == *h,
                    (EK::Symlink(t), Node::Link(l)) => norm_text(t) == *l,
                    (EK::Hardlink(_), _) => true,
                    _ => false,
                }) && !imm_entries.iter().any(|(c, _)| c.join("/") == *r)
            }).unwrap_or(false);
            if from_anc {
                "ancillary-kept-unvouched"
            } else if has_foreign {
                "foreign-entry"
            } else {
                "unexplained-new-file"
            }
        };
        fails.push((class.to_string(), format!("{} ({:?}) is new after the call (result {}) and is neither a marker, nor a trio file of {:?}, nor vouched", p, node, if ok { "Ok" } else { "Err" }, case.range)));
    }
    fails
}

fn execute(ctx: &Ctx, case: &Case, idx: usize) -> Outcome {
    let case_dir = ctx.scratch.case_dir(idx);
    let root = case_dir.join("root");
    let arch = case_dir.join("arch");
    std::fs::create_dir_all(root.join("db")).unwrap();
    std::fs::create_dir_all(root.join("out")).unwrap();
    std::fs::create_dir_all(&arch).unwrap();
    materialise(&root, &case.pre);
    // archives: location k of immutable n = arch/loc{k}/{n:05}.tar.zst
    let max_locs = case.imm.values().map(|v| v.len()).max().unwrap_or(0);
    for k in 0..max_locs.max(1) {
        std::fs::create_dir_all(arch.join(format!("loc{}", k))).unwrap();
    }
    for (n, locs) in &case.imm {
        for (k, l) in locs.iter().enumerate() {
            if l.present {
                write_archive(&arch.join(format!("loc{}/{:05}.tar.zst", k, n)), l);
            }
        }
    }
    for (k, l) in case.anc.iter().enumerate() {
        if l.present {
            write_archive(&arch.join(format!("ancillary{}.tar.zst", k)), l);
        }
    }
    let mut snap = CardanoDatabaseSnapshot::dummy();
    snap.beacon = CardanoDbBeacon::new(1, case.last);
    snap.network = case.network.clone();
    // `sanitized_locations` + sort: the order of trial is the order of the URIs as text; loc0 < loc1 < …
    snap.immutables = ImmutablesMessagePart {
        average_size_uncompressed: 10,
        locations: (0..max_locs.max(1))
            .map(|k| ImmutablesLocation::CloudStorage {
                uri: MultiFilesUri::Template(TemplateUri(format!("file://{}/loc{}/{{immutable_file_number}}.tar.zst", arch.display(), k))),
                compression_algorithm: Some(CompressionAlgorithm::Zstandard),
            })
            .collect(),
    };
    snap.ancillary = AncillaryMessagePart {
        size_uncompressed: 10,
        locations: (0..case.anc.len().max(1))
            .map(|k| AncillaryLocation::CloudStorage {
                uri: format!("file://{}/ancillary{}.tar.zst", arch.display(), k),
                compression_algorithm: Some(CompressionAlgorithm::Zstandard),
            })
            .collect(),
    };
    let pre = listing(&root);
    let pre_files: Vec<Vec<u8>> = case.pre.iter().filter_map(|p| if let Pre::File(_, c) = p { Some(c.clone()) } else { None }).collect();
    let client = if case.verifier_set { &ctx.with_key } else { &ctx.without_key };
    let dbc = client.cardano_database_v2();
    let opts = DownloadUnpackOptions { allow_override: case.allow_override, include_ancillary: case.include_ancillary, max_parallel_downloads: case.parallel };
    let res = ctx.rt.block_on(dbc.download_unpack(&snap, &case.range.real(), &root.join("db"), opts));
    let ok = res.is_ok();
    let post = listing(&root);
    // request line
    let mut ids = Ids::default();
    let empty = ids.id(&sha256_hex(b""));
    let magic = magic_of(&case.network).map(|m| ids.id(&sha256_hex(m.as_bytes()))).unwrap_or_else(|| "none".into());
    let (mans, parsed) = manifest_table(&ctx.keys, case, &pre_files, &mut ids);
    let imm_s: Vec<String> = case.imm.iter().map(|(n, locs)| format!("({},[{}])", n, locs.iter().map(|l| show_loc(l, &mut ids)).collect::<Vec<_>>().join(","))).collect();
    let anc_s: Vec<String> = case.anc.iter().map(|l| show_loc(l, &mut ids)).collect();
    let req = format!(
        "c19.run pre={} range={} last={} override={} anc={} verifier={} fixed=1 imm=[{}] ancl=[{}] manifests={} empty={} magic={}",
        show_listing(&pre, &mut ids),
        case.range.show(),
        case.last,
        case.allow_override as u8,
        case.include_ancillary as u8,
        case.verifier_set as u8,
        imm_s.join(","),
        anc_s.join(","),
        mans,
        empty,
        magic
    );
    let imp = format!("{} {}", if ok { "ok" } else { "err" }, show_listing(&post, &mut ids));
    let sfails = spec(case, ok, &pre, &post, &root, &parsed);
    let _ = hclient::remove_all(&case_dir);
    Outcome { ok, pre, post, sfails, req: format!("{}\t{}", req, imp) }
}

fn emit(ctx: &Ctx, sink: &mut Sink, tag: &str, case: &Case) -> Option<Outcome> {
    if !sink.wanted() {
        sink.skip();
        return None;
    }
    let o = execute(ctx, case, sink.next_index());
    let (req, imp) = o.req.split_once('\t').unwrap();
    let i = sink.case(tag, req, imp);
    for (c, w) in &o.sfails {
        sink.sfail(i, c, w, &format!("{} case={:?}", req, short_case(case)));
    }
    Some(o)
}

fn short_case(c: &Case) -> String {
    let mut s = format!("{:?}", c);
    if s.len() > 3000 {
        s.truncate(3000);
    }
    s
}

// ---------------------------------------------------------------- generators

fn small(rng: &mut Rng) -> Vec<u8> {
    let n = rng.range(0, 40) as usize;
    rng.bytes(n)
}

fn honest_imm(rng: &mut Rng, n: u64) -> Loc {
    let mut entries: Vec<Ent> = (0..3).map(|e| file(&format!("immutable/{}", trio_name(n, e)), &small(rng))).collect();
    if rng.chance(1, 4) {
        entries.insert(0, dir("immutable"));
    }
    if rng.chance(1, 4) {
        rng.shuffle(&mut entries);
    }
    Loc { present: true, intact: true, entries }
}

/// an honest ancillary archive: files + manifest (entries (path, hex hash))
fn honest_anc(rng: &mut Rng, keys: &Keys, last: u64) -> (Loc, Vec<(String, String)>) {
    let slot = 100 + rng.below(900);
    let mut files: Vec<(String, Vec<u8>)> = vec![];
    if rng.bool() {
        files.push((format!("ledger/{}", slot), small(rng)));
    } else {
        files.push((format!("ledger/{}/meta", slot), small(rng)));
        files.push((format!("ledger/{}/state", slot), small(rng)));
        files.push((format!("ledger/{}/tables/tvar", slot), small(rng)));
    }
    if rng.chance(2, 3) {
        files.push(("volatile/blocks-0.dat".to_string(), small(rng)));
    }
    if rng.chance(2, 3) {
        for e in 0..3 {
            files.push((format!("immutable/{}", trio_name(last + 1, e)), small(rng)));
        }
    }
    let man: Vec<(String, String)> = files.iter().map(|(p, c)| (p.clone(), sha256_hex(c))).collect();
    let mut entries = vec![file(MANIFEST, &manifest_json(keys, &man, SigKind::Genuine))];
    for (p, c) in &files {
        entries.push(file(p, c));
    }
    if rng.chance(1, 3) {
        rng.shuffle(&mut entries);
    }
    (Loc { present: true, intact: true, entries }, man)
}

fn gen_range(rng: &mut Rng, last: u64, anc: bool) -> R {
    if anc && rng.chance(5, 6) {
        // with ancillary the range has to end at the beacon
        return match rng.below(4) {
            0 => R::Full,
            1 => R::From(rng.range(0, last)),
            2 => R::Range(rng.range(0, last), last),
            _ => R::UpTo(last),
        };
    }
    match rng.below(10) {
        0 => R::Full,
        1 | 2 => R::From(rng.range(0, last)),
        3 | 4 => {
            let a = rng.range(0, last);
            R::Range(a, rng.range(a, last))
        }
        5 | 6 => R::UpTo(rng.range(0, last)),
        7 => R::From(last + 1),
        8 => R::Range(rng.range(0, last), last + 1),
        _ => R::UpTo(last + 1 + rng.below(2)),
    }
}

fn gen_pre(rng: &mut Rng, last: u64) -> Vec<Pre> {
    let mut pre = vec![];
    match rng.below(10) {
        0..=3 => {}
        4 | 5 => {
            // an older database
            for n in 0..rng.range(0, last) {
                for e in 0..3 {
                    pre.push(Pre::File(format!("db/immutable/{}", trio_name(n, e)), small(rng)));
                }
            }
            if rng.bool() {
                pre.push(Pre::File("db/immutable/user-notes.txt".into(), b"mine".to_vec()));
            }
            if rng.bool() {
                pre.push(Pre::File("db/immutable/userdir/keep".into(), b"mine too".to_vec()));
            }
            if rng.bool() {
                pre.push(Pre::File("db/ledger/77".into(), small(rng)));
            }
            if rng.bool() {
                pre.push(Pre::File("db/clean".into(), b"old".to_vec()));
            }
        }
        6 => pre.push(Pre::Dir("db/immutable".into())),
        7 => pre.push(Pre::File("db/my-own-file".into(), b"keep me".to_vec())),
        8 => {
            pre.push(Pre::Dir("db/volatile".into()));
            pre.push(Pre::File("db/ledger/55".into(), small(rng)));
        }
        _ => pre.push(Pre::Link("db/volatile".into(), "../out".into())),
    }
    pre
}

/// pre-existing shapes that make a step fail
fn gen_fault(rng: &mut Rng, man: &[(String, String)]) -> Vec<Pre> {
    let mut pre = vec![];
    match rng.below(9) {
        0 => {
            if let Some((p, _)) = man.first() {
                pre.push(Pre::File(format!("db/{}/blocker", p), b"x".to_vec())); // destination is a non-empty directory
            }
        }
        1 => {
            if let Some((p, _)) = man.last() {
                pre.push(Pre::Dir(format!("db/{}", p))); // destination is an empty directory
            }
        }
        2 => pre.push(Pre::File("db/ledger".into(), b"not a directory".to_vec())),
        3 => pre.push(Pre::File("db/immutable".into(), b"not a directory".to_vec())),
        4 => pre.push(Pre::Dir("db/clean".into())),
        5 => pre.push(Pre::Dir("db/protocolMagicId".into())),
        6 => pre.push(Pre::Link("db/ledger".into(), "nowhere".into())), // dangling
        7 => pre.push(Pre::Dir("db/immutable/00001.chunk".into())),   // a file entry lands on a directory
        _ => pre.push(Pre::Link("db/immutable".into(), "../out".into())),
    }
    pre
}

fn hostile_imm_entries(rng: &mut Rng, lo: u64, hi: u64, last: u64) -> Vec<Ent> {
    let c = small(rng);
    match rng.below(26) {
        0 => vec![file("ledger/123456", &c)],
        1 => vec![file("volatile/blocks-0.dat", &c), file("ledger/9/state", &c)],
        2 => vec![file("clean", b"not empty")],
        3 => vec![file("protocolMagicId", b"666")],
        4 => vec![file("payload/state", b"HOSTILE")],
        5 => vec![file("immutable/sub/deep/evil.bin", &c)],
        6 => vec![file(&format!("immutable/{}/evil.bin", trio_name(*rng.pick(&[0, lo, hi, last + 1]), 0)), &c)],
        7 => vec![file(&format!("immutable/{}", trio_name(lo.saturating_sub(1), 1)), &c)],
        8 => vec![file(&format!("immutable/{}", trio_name(hi + 1, 2)), &c)],
        9 => vec![file(&format!("immutable/{}", trio_name(last + 1 + rng.below(2), 0)), &c)],
        10 => vec![file(&format!("immutable/{}", trio_name(0, 0)), &c)],
        11 => vec![file("immutable/junk", &c), file(&format!("immutable/{}.bak", trio_name(lo, 0)), &c)],
        12 => vec![file("/abs/evil", &c)],
        13 => vec![file("../escape", &c), file("immutable/../../escape2", &c)],
        14 => vec![file(&format!("./immutable/./{}", trio_name(hi, 0)), &c)],
        15 => vec![symlink("ledger", "../out")],
        16 => vec![symlink("clean", "ledger/evil")],
        17 => vec![symlink(&format!("immutable/{}", trio_name(*rng.pick(&[lo, hi, 0]), 0)), "../../out/x"), file("ignored", b"")],
        18 => vec![symlink("esc", "../out"), file("esc/x", &c)], // tar refuses to write through it
        19 => vec![symlink("immutable/lnk", "."), file("immutable/lnk/viaself", &c)],
        20 => vec![hardlink("immutable/copy.chunk", &format!("immutable/{}", trio_name(lo, 0)))],
        21 => vec![hardlink("ledger/hl", &format!("immutable/{}", trio_name(lo, 0)))],
        22 => vec![dir("volatile"), dir("immutable/emptydir"), dir("ledger/1/2")],
        23 => vec![file(&format!("immutable/{}", trio_name(lo, 0)), b"second version")], // same path twice
        24 => vec![symlink("protocolMagicId", "/verif-no-such-dir/x")],
        _ => vec![symlink("ledger/123456", &format!("../immutable/{}", trio_name(lo, 0)))],
    }
}

/// hostile changes to an honest ancillary archive; returns the new location
fn hostile_anc(rng: &mut Rng, keys: &Keys, honest: &Loc, man: &[(String, String)], last: u64) -> Loc {
    let mut l = honest.clone();
    let victim = rng.pick(man).0.clone();
    let vcontent = honest.entries.iter().find_map(|e| match (&e.kind, e.path == victim) {
        (EK::File(c), true) => Some(c.clone()),
        _ => None,
    }).unwrap_or_default();
    let replace_manifest = |l: &mut Loc, bytes: Vec<u8>| {
        for e in l.entries.iter_mut() {
            if e.path == MANIFEST {
                e.kind = EK::File(bytes.clone());
            }
        }
    };
    match rng.below(22) {
        0 => {
            // content changed
            for e in l.entries.iter_mut() {
                if e.path == victim {
                    e.kind = EK::File(b"CHANGED".to_vec());
                }
            }
        }
        1 => {
            // manifest lists a file that is not there
            let mut m = man.to_vec();
            m.push(("ledger/ghost".into(), sha256_hex(b"ghost")));
            replace_manifest(&mut l, manifest_json(keys, &m, SigKind::Genuine));
        }
        2 => {
            // a file the (genuine) manifest does not list
            l.entries.push(file("ledger/unlisted", b"UNLISTED"));
            l.entries.push(file("unlisted-top", b"UNLISTED"));
        }
        3 => replace_manifest(&mut l, manifest_json(keys, man, SigKind::Altered)),
        4 => replace_manifest(&mut l, manifest_json(keys, man, SigKind::Missing)),
        5 => replace_manifest(&mut l, manifest_json(keys, man, SigKind::OtherKey)),
        6 => {
            // mirror's own manifest for its own files, signed with its own key
            let mut m = man.to_vec();
            m.push(("ledger/evil".into(), sha256_hex(b"EVIL")));
            l.entries.push(file("ledger/evil", b"EVIL"));
            replace_manifest(&mut l, manifest_json(keys, &m, SigKind::OtherKey));
        }
        7 => replace_manifest(&mut l, b"{ not json".to_vec()),
        8 => l.entries.retain(|e| e.path != MANIFEST),
        9 => {
            // symbolic link under a vouched path, the genuine content parked elsewhere in the archive
            l.entries.retain(|e| e.path != victim);
            l.entries.push(file("parked/genuine", &vcontent));
            let ups = "../".repeat(victim.matches('/').count());
            l.entries.push(symlink(&victim, &format!("{}parked/genuine", ups)));
        }
        10 => {
            // the same, parked where the target directory has a certified file of its own
            l.entries.retain(|e| e.path != victim);
            let park = format!("immutable/{}", trio_name(last, 0));
            l.entries.push(file(&park, &vcontent));
            let ups = "../".repeat(victim.matches('/').count());
            l.entries.push(symlink(&victim, &format!("{}{}", ups, park)));
        }
        11 => {
            // hard link under a vouched path
            l.entries.retain(|e| e.path != victim);
            l.entries.push(file("parked/genuine", &vcontent));
            l.entries.push(hardlink(&victim, "parked/genuine"));
        }
        12 => {
            // the parent directory of the vouched paths is a symbolic link
            let top = victim.split('/').next().unwrap().to_string();
            let mut moved = vec![];
            for e in l.entries.iter_mut() {
                if e.path.starts_with(&format!("{}/", top)) {
                    e.path = format!("real-{}", e.path);
                    moved.push(());
                }
            }
            l.entries.push(symlink(&top, &format!("real-{}", top)));
        }
        13 => {
            // dangling link under a vouched path
            l.entries.retain(|e| e.path != victim);
            l.entries.push(symlink(&victim, "/verif-no-such-dir/x"));
        }
        14 => {
            // the manifest itself is a link to a parked copy
            let mbytes = manifest_json(keys, man, SigKind::Genuine);
            l.entries.retain(|e| e.path != MANIFEST);
            l.entries.push(file("parked/manifest", &mbytes));
            l.entries.push(symlink(MANIFEST, "parked/manifest"));
        }
        15 => l.entries.push(file("../escape-anc", b"x")),
        16 => l.entries.push(symlink("esc", "../..")),
        17 => {
            l.entries.push(symlink("esc", "../../out"));
            l.entries.push(file("esc/from-anc", b"x"));
        }
        18 => l.intact = false,
        19 => {
            // vouched path is a directory in the archive
            l.entries.retain(|e| e.path != victim);
            l.entries.push(file(&format!("{}/inner", victim), b"x"));
        }
        20 => {
            // entries added to and removed from the signed manifest without re-signing
            let mut m = man.to_vec();
            m.remove(0);
            m.push(("ledger/added".into(), sha256_hex(b"ADDED")));
            l.entries.push(file("ledger/added", b"ADDED"));
            let data: BTreeMap<PathBuf, String> = man.iter().map(|(p, h)| (PathBuf::from(p), h.clone())).collect();
            let mut signed = AncillaryFilesManifest::new_without_signature(data);
            let sig = keys.genuine.sign(&signed.compute_hash());
            let data2: BTreeMap<PathBuf, String> = m.iter().map(|(p, h)| (PathBuf::from(p), h.clone())).collect();
            signed = AncillaryFilesManifest::new(data2, sig);
            replace_manifest(&mut l, serde_json::to_vec(&signed).unwrap());
        }
        _ => {
            // duplicate entry for the vouched path: the later one wins
            l.entries.push(file(&victim, b"LATER VERSION"));
        }
    }
    l
}

fn base_case(rng: &mut Rng, keys: &Keys) -> (Case, Vec<(String, String)>) {
    let last = rng.range(1, 5);
    let anc = rng.chance(1, 2);
    let range = gen_range(rng, last, anc);
    let mut imm = BTreeMap::new();
    if let Some((lo, hi)) = range.bounds(last) {
        for n in lo..=hi {
            imm.insert(n, vec![honest_imm(rng, n)]);
        }
    }
    let (anc_loc, man) = honest_anc(rng, keys, last);
    let case = Case {
        pre: vec![],
        range,
        last,
        allow_override: true,
        include_ancillary: anc,
        verifier_set: true,
        network: rng.pick(&["preview", "mainnet", "preprod", "devnet", "private", "testnet"]).to_string(),
        imm,
        anc: if anc { vec![anc_loc] } else { vec![] },
        parallel: 1,
    };
    (case, man)
}

fn main() {
    let args = Args::parse();
    let mut sink = Sink::new(&args);
    let mut rng = Rng::new(args.seed ^ 0xC19);
    hutil::quiet_panics();
    let scratch = Scratch::new("verif-c19");
    let rt = tokio::runtime::Builder::new_multi_thread().worker_threads(2).enable_all().build().unwrap();
    let keys = Keys { genuine: ManifestSigner::create_deterministic_signer(), other: ManifestSigner::create_non_deterministic_signer() };
    let gvk = fake_keys::genesis_verification_key()[0];
    // the client's own composition (RetryDownloader over HttpFileDownloader, 3 attempts) with the delay
    // between attempts (5 s by default) set to zero
    let downloader = || -> std::sync::Arc<dyn mithril_client::file_downloader::FileDownloader> {
        let logger = slog::Logger::root(slog::Discard, slog::o!());
        std::sync::Arc::new(RetryDownloader::new(
            std::sync::Arc::new(HttpFileDownloader::new(FeedbackSender::new(&[]), logger).unwrap()),
            FileDownloadRetryPolicy { attempts: 3, delay_between_attempts: std::time::Duration::from_secs(0) },
        ))
    };
    #[allow(deprecated)]
    let with_key = ClientBuilder::aggregator("http://127.0.0.1:9/", gvk)
        .set_ancillary_verification_key(keys.genuine.verification_key().to_json_hex().unwrap())
        .with_http_file_downloader(downloader())
        .build()
        .unwrap();
    #[allow(deprecated)]
    let without_key = ClientBuilder::aggregator("http://127.0.0.1:9/", gvk).with_http_file_downloader(downloader()).build().unwrap();
    let ctx = Ctx { rt, with_key, without_key, scratch, keys };
    let keys = &ctx.keys;

    // ---------------- corpus: witnesses ----------------
    let genuine: &[u8] = b"GENUINE LEDGER STATE";
    let man = vec![("ledger/123456".to_string(), sha256_hex(genuine))];
    let trio = |n: u64, c: &[u8]| -> Vec<Ent> { (0..3).map(|e| file(&format!("immutable/{}", trio_name(n, e)), c)).collect() };
    let imm3 = |extra2: Vec<Ent>| -> BTreeMap<u64, Vec<Loc>> {
        (1..=3u64)
            .map(|n| {
                let mut es = trio(n, format!("chunk {}", n).as_bytes());
                if n == 2 {
                    es.extend(extra2.clone());
                }
                (n, vec![Loc { present: true, intact: true, entries: es }])
            })
            .collect()
    };
    let mk = |imm: BTreeMap<u64, Vec<Loc>>, anc: Vec<Loc>, range: R, include: bool| Case {
        pre: vec![],
        range,
        last: 3,
        allow_override: true,
        include_ancillary: include,
        verifier_set: true,
        network: "preview".into(),
        imm,
        anc,
        parallel: 1,
    };
    // (1) FIXED: the vouched path is a symbolic link; genuine content parked in the archive, hostile content
    //     placed at the same relative place of the target by an immutable archive of the same mirror
    let anc1 = Loc { present: true, intact: true, entries: vec![
        file(MANIFEST, &manifest_json(keys, &man, SigKind::Genuine)),
        file("payload/state", genuine),
        symlink("ledger/123456", "../payload/state"),
    ] };
    let c1 = mk(imm3(vec![file("payload/state", b"HOSTILE LEDGER STATE")]), vec![anc1], R::Range(1, 3), true);
    if let Some(o) = emit(&ctx, &mut sink, "corpus.symlink", &c1) {
        let rep = o.ok && o.post.get("db/ledger/123456").map(|n| matches!(n, Node::Link(_))).unwrap_or(false);
        sink.witness("C19-symlink-vouched-path", rep, &format!("genuine signed manifest, ledger/123456 -> ../payload/state, hostile payload/state from immutable archive 2: {} ledger/123456={:?}", if o.ok { "Ok" } else { "Err" }, o.post.get("db/ledger/123456")));
    }
    // (1b) the same without any foreign entry: the link resolves, in the target, to a certified immutable file
    let anc1b = Loc { present: true, intact: true, entries: vec![
        file(MANIFEST, &manifest_json(keys, &man, SigKind::Genuine)),
        file("immutable/00002.chunk", genuine),
        symlink("ledger/123456", "../immutable/00002.chunk"),
    ] };
    let c1b = mk(imm3(vec![]), vec![anc1b], R::Range(1, 3), true);
    if let Some(o) = emit(&ctx, &mut sink, "corpus.symlink2", &c1b) {
        let rep = o.sfails.iter().any(|(c, _)| c == "vouched-content-mismatch");
        sink.witness("C19-symlink-vouched-path-2", rep, &format!("ledger/123456 -> ../immutable/00002.chunk with the genuine content parked at immutable/00002.chunk of the ancillary archive: {} ledger/123456={:?}", if o.ok { "Ok" } else { "Err" }, o.post.get("db/ledger/123456")));
    }
    // (2) KNOWN: immutable archive entries outside `immutable/`
    let c2 = mk(imm3(vec![file("ledger/123456", b"HOSTILE"), file("volatile/blocks-0.dat", b"HOSTILE"), file("clean", b"x")]), vec![], R::Range(1, 3), false);
    if let Some(o) = emit(&ctx, &mut sink, "corpus.foreign", &c2) {
        let rep = o.post.contains_key("db/ledger/123456") && o.post.contains_key("db/volatile/blocks-0.dat");
        sink.witness("C19-foreign-entry", rep, &format!("immutable archive 2 also carries ledger/123456 and volatile/blocks-0.dat, Range(1,3), no ancillary: {} and both files are in the target", if o.ok { "Ok" } else { "Err" }));
    }
    // (3) FIXED (3360edee4), witness kept: trio numbers outside the requested range
    let mut c3 = mk(imm3(vec![file("immutable/00000.chunk", b"OLD"), file("immutable/00003.primary", b"NEXT")]), vec![], R::Range(1, 2), false);
    c3.imm.remove(&3);
    if let Some(o) = emit(&ctx, &mut sink, "corpus.range", &c3) {
        let rep = o.post.contains_key("db/immutable/00000.chunk") && o.post.contains_key("db/immutable/00003.primary");
        sink.witness("C19-trio-outside-range", rep, &format!("Range(1,2) of a database ending at 3, immutable archive 2 also carries immutable/00000.chunk and immutable/00003.primary: {} and both are in the target", if o.ok { "Ok" } else { "Err" }));
    }
    // (3b) KNOWN (what is left of it): with the ancillary files the clean-up expects the NEXT trio too, wherever it came from
    {
        let anc = Loc { present: true, intact: true, entries: vec![file("ledger/1", b"L"), file("ancillary_manifest.json", b"{}")] };
        let c3b = mk(imm3(vec![]), vec![anc], R::Range(1, 3), true);
        let mut c3b = c3b;
        c3b.imm.get_mut(&3).unwrap()[0].entries.push(file("immutable/00004.chunk", b"NEXT"));
        if let Some(o) = emit(&ctx, &mut sink, "corpus.nexttrio", &c3b) {
            let rep = o.post.contains_key("db/immutable/00004.chunk");
            sink.witness("C19-next-trio-not-from-ancillary", rep, &format!("Range(1,3) of a database ending at 3 with the ancillary files (whose verification fails here), immutable archive 3 also carries immutable/00004.chunk: {}, immutable/00004.chunk in the target afterwards: {}", if o.ok { "Ok" } else { "Err" }, rep));
        }
    }
    // (4) KNOWN: entries of `immutable/` are kept by name only (names of the requested range: since 3360edee4 every
    //     other name is removed)
    let mut c4 = mk(imm3(vec![]), vec![], R::Range(1, 2), false);
    c4.imm.remove(&3);
    c4.imm.insert(1, vec![Loc { present: true, intact: true, entries: vec![file("immutable/00001.secondary", b"chunk 1"), file("immutable/00001.primary/evil.bin", b"NESTED"), symlink("immutable/00001.chunk", "../../out/x")] }]);
    if let Some(o) = emit(&ctx, &mut sink, "corpus.byname", &c4) {
        let rep = o.post.contains_key("db/immutable/00001.primary/evil.bin") && matches!(o.post.get("db/immutable/00001.chunk"), Some(Node::Link(_)));
        sink.witness("C19-immutable-entry-kept-by-name", rep, &format!("immutable archive 1 carries immutable/00001.primary/evil.bin and a symbolic link immutable/00001.chunk instead of the two files: {} and both are in the target", if o.ok { "Ok" } else { "Err" }));
    }

    // ---------------- generated ----------------
    let n = if args.thorough() { 6000 } else { 900 };
    for k in 0..n {
        let (mut case, man) = base_case(&mut rng, keys);
        let bounds = case.range.bounds(case.last);
        let (lo, hi) = bounds.unwrap_or((0, case.last));
        let mut tag = "honest".to_string();
        case.pre = gen_pre(&mut rng, case.last);
        if case.pre.iter().any(|p| matches!(p, Pre::File(f, _) | Pre::Dir(f) if f.starts_with("db/immutable"))) && rng.chance(1, 3) {
            case.allow_override = false;
        } else if rng.chance(1, 8) {
            case.allow_override = false;
        }
        match k % 6 {
            0 => {}
            1 | 2 => {
                // hostile immutable archives
                tag = "hostile-immutable".into();
                for _ in 0..rng.range(1, 2) {
                    let extra = hostile_imm_entries(&mut rng, lo, hi, case.last);
                    if let Some(n) = case.imm.keys().nth(rng.below(case.imm.len().max(1) as u64) as usize).cloned() {
                        let l = &mut case.imm.get_mut(&n).unwrap()[0];
                        if rng.bool() {
                            l.entries.extend(extra);
                        } else {
                            let mut e2 = extra;
                            e2.extend(l.entries.clone());
                            l.entries = e2;
                        }
                    }
                }
            }
            3 => {
                // hostile ancillary
                tag = "hostile-ancillary".into();
                if !case.include_ancillary {
                    case.include_ancillary = true;
                    let (l, _) = honest_anc(&mut rng, keys, case.last);
                    case.anc = vec![l];
                    case.range = gen_range(&mut rng, case.last, true);
                    case.imm.clear();
                    if let Some((lo, hi)) = case.range.bounds(case.last) {
                        for n in lo..=hi {
                            case.imm.insert(n, vec![honest_imm(&mut rng, n)]);
                        }
                    }
                }
                let honest = case.anc[0].clone();
                let man2: Vec<(String, String)> = {
                    // re-derive the manifest entries of this archive
                    let m: AncillaryFilesManifest = serde_json::from_slice(honest.entries.iter().find_map(|e| match (&e.kind, e.path == MANIFEST) {
                        (EK::File(c), true) => Some(c.as_slice()),
                        _ => None,
                    }).unwrap()).unwrap();
                    m.signable_manifest.data.iter().map(|(p, h)| (p.to_string_lossy().to_string(), h.clone())).collect()
                };
                case.anc = vec![hostile_anc(&mut rng, keys, &honest, &man2, case.last)];
                if rng.chance(1, 5) {
                    // with a hostile immutable archive as accomplice
                    let extra = hostile_imm_entries(&mut rng, lo, hi, case.last);
                    if let Some(l) = case.imm.values_mut().next() {
                        l[0].entries.extend(extra);
                    }
                }
            }
            4 => {
                // faults: pre-existing shapes, broken or missing archives, fallback locations, missing key
                tag = "fault".into();
                match rng.below(7) {
                    0 | 1 => case.pre.extend(gen_fault(&mut rng, &man)),
                    2 => {
                        if let Some(l) = case.imm.values_mut().last() {
                            l[0].intact = false;
                        }
                    }
                    3 => {
                        if let Some(l) = case.imm.values_mut().next() {
                            l[0].present = false;
                        }
                    }
                    4 => {
                        // first location breaks after a hostile entry, second is honest
                        if let Some((n, l)) = case.imm.iter_mut().next() {
                            let mut broken = l[0].clone();
                            broken.entries.truncate(2);
                            broken.entries.insert(0, file("ledger/from-broken-archive", b"x"));
                            broken.intact = false;
                            let good = honest_imm(&mut rng, *n);
                            *l = vec![broken, good];
                        }
                    }
                    5 => case.verifier_set = false,
                    _ => {
                        if !case.anc.is_empty() {
                            let good = case.anc[0].clone();
                            let mut bad = good.clone();
                            bad.intact = false;
                            bad.entries.push(file("ledger/from-broken-ancillary", b"x"));
                            case.anc = vec![bad, good];
                        }
                    }
                }
                // stale pre-existing pieces must not clash with the generated tree shape
                let mut seen = BTreeSet::new();
                case.pre.retain(|p| {
                    let k = match p {
                        Pre::Dir(d) => d.clone(),
                        Pre::File(f, _) => f.clone(),
                        Pre::Link(l, _) => l.clone(),
                    };
                    seen.insert(k)
                });
            }
            _ => {
                // both
                tag = "hostile-both".into();
                let extra = hostile_imm_entries(&mut rng, lo, hi, case.last);
                if let Some(l) = case.imm.values_mut().last() {
                    l[0].entries.extend(extra);
                }
                if case.include_ancillary {
                    let honest = case.anc[0].clone();
                    case.anc = vec![hostile_anc(&mut rng, keys, &honest, &man, case.last)];
                }
            }
        }
        if !pre_consistent(&case.pre) {
            case.pre.clear();
        }
        emit(&ctx, &mut sink, &tag, &case);
    }
    sink.note("parallelism", "max_parallel_downloads = 1 in every compared case (the order of the archives is then fixed)");
    sink.note("user", &format!("uid {}", unsafe_uid()));
    let Ctx { scratch, .. } = ctx;
    drop(scratch);
    sink.finish();
}

fn unsafe_uid() -> String {
    std::fs::read_to_string("/proc/self/status")
        .ok()
        .and_then(|s| s.lines().find(|l| l.starts_with("Uid:")).map(|l| l.split_whitespace().nth(1).unwrap_or("?").to_string()))
        .unwrap_or_else(|| "?".into())
}

/// no pre-existing path may need another one to be both a file/link and a directory
fn pre_consistent(pre: &[Pre]) -> bool {
    let mut nondirs = BTreeSet::new();
    let mut all = BTreeSet::new();
    for p in pre {
        match p {
            Pre::Dir(d) => {
                all.insert(d.clone());
            }
            Pre::File(f, _) | Pre::Link(f, _) => {
                if !all.insert(f.clone()) {
                    return false;
                }
                nondirs.insert(f.clone());
            }
        }
    }
    for p in &all {
        for nd in &nondirs {
            if p != nd && p.starts_with(&format!("{}/", nd)) {
                return false;
            }
        }
    }
    for p in pre {
        if let Pre::Dir(d) = p {
            if nondirs.contains(d) {
                return false;
            }
        }
    }
    true
}
