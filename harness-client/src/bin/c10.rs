//! C10 harness: the real `CardanoDatabaseClient::{download_and_verify_digests, verify_cardano_database}`
//! on generated databases, tampered directories and tampered digest lists.
//!  K: verdict and reported lists vs the Lean model `Db.verify` / `Db.verifyDigests`.
//!  S (evaluated here, on the real file system and the real verdict): accepted => every name of the
//!     range is present (unless gaps are allowed) and what can be read under that name hashes to the
//!     digest the honest (signed) list assigns to that very name, and no foreign immutable file of the
//!     range exists; rejected => every offending name is in the reported lists.
use hclient::{name_ok, sha256_hex, Ids, Scratch};
use hutil::{Args, Rng, Sink};
use mithril_cardano_node_internal_database::digesters::{CardanoImmutableDigester, ImmutableDigester};
use mithril_cardano_node_internal_database::test::DummyCardanoDbBuilder;
use mithril_client::cardano_database_client::{
    CardanoDatabaseVerificationError, ImmutableFileRange, VerifiedDigests,
};
use mithril_client::{CardanoDatabaseSnapshot, ClientBuilder, MithrilCertificate};
use mithril_common::crypto_helper::{MKTree, MKTreeStoreInMemory};
use mithril_common::entities::{
    CardanoDbBeacon, DigestLocation, Epoch, ProtocolMessage, ProtocolMessagePartKey,
};
use mithril_common::messages::{CardanoDatabaseDigestListItemMessage, DigestsMessagePart};
use mithril_common::test::double::{fake_keys, Dummy};
use std::collections::{BTreeMap, BTreeSet};
use std::path::{Path, PathBuf};

const EXTS: [&str; 3] = ["chunk", "primary", "secondary"];

fn trio_name(n: u64, e: usize) -> String {
    format!("{:05}.{}", n, EXTS[e])
}

#[derive(Clone, Debug)]
enum R {
    Full,
    From(u64),
    Range(u64, u64),
    UpTo(u64),
}

impl R {
    fn real(&self) -> ImmutableFileRange {
        match self {
            R::Full => ImmutableFileRange::Full,
            R::From(a) => ImmutableFileRange::From(*a),
            R::Range(a, b) => ImmutableFileRange::Range(*a, *b),
            R::UpTo(b) => ImmutableFileRange::UpTo(*b),
        }
    }
    fn show(&self) -> String {
        match self {
            R::Full => "(full)".into(),
            R::From(a) => format!("(from,{})", a),
            R::Range(a, b) => format!("(range,{},{})", a, b),
            R::UpTo(b) => format!("(upto,{})", b),
        }
    }
    /// the range as the PROPERTY reads it (independent of the code): None = not a range of this database
    fn bounds(&self, last: u64) -> Option<(u64, u64)> {
        match *self {
            R::Full => Some((0, last)),
            R::From(a) if a <= last => Some((a, last)),
            R::Range(a, b) if a <= b && b <= last => Some((a, b)),
            R::UpTo(b) if b <= last => Some((0, b)),
            _ => None,
        }
    }
}

#[derive(Clone, Debug)]
enum Tamper {
    Flip(String),
    Truncate(String),
    Extend(String),
    Empty(String),
    Delete(String),
    Swap(String, String),
    CopyOver(String, String), // content of .0 written over .1
    Extra(String, Option<String>), // new file; content random or a copy of the named file
    DirAt(String),            // the name becomes a directory holding one file
    LinkAt(String, String),   // the name becomes a symbolic link with this target text
    NoImmutableDir,
}

struct Db {
    case_dir: PathBuf,
    db_dir: PathBuf,
    imm: PathBuf,
    top: u64,
    beacon: u64,
    /// honest name -> digest for every file written (before tampering)
    honest_all: BTreeMap<String, String>,
}

fn random_content(rng: &mut Rng, pool: &mut Vec<Vec<u8>>) -> Vec<u8> {
    if !pool.is_empty() && rng.chance(1, 12) {
        return rng.pick(pool).clone(); // two names with the same content
    }
    let size = match rng.below(10) {
        0 => 0,
        1 => 1,
        2..=4 => rng.range(2, 64),
        5..=7 => rng.range(65, 1024),
        _ => rng.range(1025, 4096),
    } as usize;
    let c = rng.bytes(size);
    pool.push(c.clone());
    c
}

fn build_db(rng: &mut Rng, scratch: &Scratch, idx: usize, trios: u64, beacon: u64, extra_trio: bool) -> Db {
    let case_dir = scratch.case_dir(idx);
    let name = format!("c10_{}_{}", std::process::id(), idx);
    let mut b = DummyCardanoDbBuilder::new(&name);
    let numbers: Vec<u64> = (0..trios).collect();
    b.with_immutables(&numbers);
    if extra_trio {
        b.append_immutable_trio();
    }
    let db = b.build();
    let db_dir = db.get_dir().to_path_buf();
    let imm = db_dir.join("immutable");
    let mut honest_all = BTreeMap::new();
    let mut pool = vec![];
    let top = if extra_trio { trios } else { trios - 1 };
    for n in 0..=top {
        for e in 0..3 {
            let nm = trio_name(n, e);
            let c = random_content(rng, &mut pool);
            std::fs::write(imm.join(&nm), &c).unwrap();
            honest_all.insert(nm, sha256_hex(&c));
        }
    }
    Db { case_dir, db_dir, imm, top, beacon, honest_all }
}

impl Db {
    fn honest_certified(&self) -> BTreeMap<String, String> {
        self.honest_all
            .iter()
            .filter(|(n, _)| n[..5].parse::<u64>().unwrap() <= self.beacon)
            .map(|(a, b)| (a.clone(), b.clone()))
            .collect()
    }
    fn cleanup(&self) {
        let _ = hclient::remove_all(&self.db_dir);
        let _ = hclient::remove_all(&self.case_dir);
    }
}

fn apply(t: &Tamper, db: &Db, rng: &mut Rng) {
    let p = |n: &String| db.imm.join(n);
    match t {
        Tamper::Flip(n) => {
            if let Ok(mut c) = std::fs::read(p(n)) {
                if !c.is_empty() {
                    let i = rng.below(c.len() as u64) as usize;
                    c[i] ^= 1 << rng.below(8);
                    std::fs::write(p(n), c).unwrap();
                }
            }
        }
        Tamper::Truncate(n) => {
            if let Ok(c) = std::fs::read(p(n)) {
                if !c.is_empty() {
                    let k = rng.below(c.len() as u64) as usize;
                    std::fs::write(p(n), &c[..k]).unwrap();
                }
            }
        }
        Tamper::Extend(n) => {
            if let Ok(mut c) = std::fs::read(p(n)) {
                c.push(rng.u64() as u8);
                std::fs::write(p(n), c).unwrap();
            }
        }
        Tamper::Empty(n) => {
            if p(n).is_file() {
                std::fs::write(p(n), b"").unwrap();
            }
        }
        Tamper::Delete(n) => {
            let _ = std::fs::remove_file(p(n));
        }
        Tamper::Swap(a, b) => {
            if let (Ok(ca), Ok(cb)) = (std::fs::read(p(a)), std::fs::read(p(b))) {
                std::fs::write(p(a), cb).unwrap();
                std::fs::write(p(b), ca).unwrap();
            }
        }
        Tamper::CopyOver(a, b) => {
            if let Ok(ca) = std::fs::read(p(a)) {
                if p(b).is_file() {
                    std::fs::write(p(b), ca).unwrap();
                }
            }
        }
        Tamper::Extra(n, src) => {
            if std::fs::symlink_metadata(p(n)).is_err() && db.imm.is_dir() {
                let c = match src {
                    Some(s) => std::fs::read(p(s)).unwrap_or_default(),
                    None => {
                        let k = rng.range(0, 200) as usize;
                        rng.bytes(k)
                    }
                };
                std::fs::write(p(n), c).unwrap();
            }
        }
        Tamper::DirAt(n) => {
            if db.imm.is_dir() {
                let _ = std::fs::remove_file(p(n));
                if std::fs::create_dir(p(n)).is_ok() {
                    std::fs::write(p(n).join("inner.chunk"), b"nested").unwrap();
                }
            }
        }
        Tamper::LinkAt(n, target) => {
            if db.imm.is_dir() {
                let _ = std::fs::remove_file(p(n));
                let _ = std::os::unix::fs::symlink(target, p(n));
            }
        }
        Tamper::NoImmutableDir => {
            let _ = std::fs::remove_dir_all(&db.imm);
        }
    }
}

/// what is in `immutable/` now, in protocol form
fn observe_dir(imm: &Path, ids: &mut Ids) -> String {
    if !imm.is_dir() {
        return "none".into();
    }
    let mut out = vec![];
    let mut names: Vec<_> = std::fs::read_dir(imm).unwrap().flatten().map(|e| e.file_name().to_string_lossy().to_string()).collect();
    names.sort();
    for n in names {
        assert!(name_ok(&n));
        let p = imm.join(&n);
        let md = std::fs::symlink_metadata(&p).unwrap();
        if md.file_type().is_symlink() {
            out.push(format!("(@{},l,{})", n, if p.exists() { 1 } else { 0 }));
        } else if md.is_dir() {
            out.push(format!("(@{},d)", n));
        } else {
            let d = sha256_hex(&std::fs::read(&p).unwrap());
            out.push(format!("(@{},f,{})", n, ids.id(&d)));
        }
    }
    format!("[{}]", out.join(","))
}

fn show_names(v: &[String]) -> String {
    format!("[{}]", v.iter().map(|n| format!("@{}", n)).collect::<Vec<_>>().join(","))
}

enum Verdict {
    Accepted,
    Rejected { missing: Vec<String>, tampered: Vec<String>, nonver: Vec<String> },
    Err(&'static str),
}

impl Verdict {
    fn show(&self) -> String {
        match self {
            Verdict::Accepted => "accepted".into(),
            Verdict::Rejected { missing, tampered, nonver } => format!(
                "rejected missing={} tampered={} nonver={}",
                show_names(missing),
                show_names(tampered),
                show_names(nonver)
            ),
            Verdict::Err(k) => format!("err {}", k),
        }
    }
}

#[derive(Debug, PartialEq, Clone, Copy)]
enum Off {
    Missing,
    Tampered,      // regular file under a range name whose content is not the certified one
    Foreign,       // regular immutable file of the range under a name that is not a range name
    NonRegular,    // symbolic link or directory under a range name (content, if any, not the certified one)
}

/// the property's view of the directory: which names offend (independent of the code under test)
fn offenders(imm: &Path, bounds: (u64, u64), honest: &BTreeMap<String, String>) -> Vec<(String, Off)> {
    let (lo, hi) = bounds;
    let mut out = vec![];
    let mut range_names = BTreeSet::new();
    for n in lo..=hi {
        for e in 0..3 {
            let nm = trio_name(n, e);
            range_names.insert(nm.clone());
            let p = imm.join(&nm);
            let lmd = std::fs::symlink_metadata(&p);
            match std::fs::read(&p) {
                Err(_) => {
                    if lmd.is_ok() && p.exists() {
                        out.push((nm, Off::NonRegular)); // a directory (or something unreadable) under the name
                    } else {
                        out.push((nm, Off::Missing)); // nothing there (a dangling link is nothing)
                    }
                }
                Ok(c) => {
                    let regular = lmd.map(|m| m.is_file()).unwrap_or(false);
                    let good = honest.get(&nm).map(|d| *d == sha256_hex(&c)).unwrap_or(false);
                    if !good {
                        out.push((nm, if regular { Off::Tampered } else { Off::NonRegular }));
                    }
                }
            }
        }
    }
    if let Ok(rd) = std::fs::read_dir(imm) {
        for e in rd.flatten() {
            let nm = e.file_name().to_string_lossy().to_string();
            if range_names.contains(&nm) {
                continue;
            }
            let p = e.path();
            let regular = std::fs::symlink_metadata(&p).map(|m| m.is_file()).unwrap_or(false);
            let ext_ok = p.extension().map(|x| EXTS.contains(&x.to_string_lossy().as_ref())).unwrap_or(false);
            let num = p.file_stem().and_then(|s| s.to_str()).and_then(|s| s.parse::<u64>().ok());
            if regular && ext_ok {
                if let Some(k) = num {
                    if lo <= k && k <= hi {
                        out.push((nm, Off::Foreign));
                    }
                }
            }
        }
    }
    out
}

struct Ctx {
    rt: tokio::runtime::Runtime,
    client: mithril_client::Client,
    scratch: Scratch,
    logger: slog::Logger,
}

fn certificate_for(root_hex: &str, consistent: bool) -> MithrilCertificate {
    let mut pm = ProtocolMessage::new();
    pm.set_message_part(ProtocolMessagePartKey::CardanoDatabaseMerkleRoot, root_hex.to_string());
    let signed = if consistent { pm.compute_hash() } else { sha256_hex(b"another signed message") };
    MithrilCertificate { protocol_message: pm, signed_message: signed, ..MithrilCertificate::dummy() }
}

fn snapshot_for(beacon: u64, digests_uri: Option<String>) -> CardanoDatabaseSnapshot {
    let mut s = CardanoDatabaseSnapshot::dummy();
    s.beacon = CardanoDbBeacon { epoch: Epoch(123), immutable_file_number: beacon };
    if let Some(uri) = digests_uri {
        s.digests = DigestsMessagePart {
            size_uncompressed: 1024,
            locations: vec![DigestLocation::CloudStorage { uri, compression_algorithm: None }],
        };
    }
    s
}

fn tree_of(values: &[String]) -> MKTree<MKTreeStoreInMemory> {
    MKTree::new(values).unwrap()
}

/// run the real verifier and canonicalise its answer
fn real_verify(ctx: &Ctx, cert: &MithrilCertificate, snap: &CardanoDatabaseSnapshot, range: &R, allow: bool, db_dir: &Path, vd: &VerifiedDigests) -> Verdict {
    let dbc = ctx.client.cardano_database_v2();
    let r = ctx.rt.block_on(dbc.verify_cardano_database(cert, snap, &range.real(), allow, db_dir, vd));
    match r {
        Ok(proof) => {
            // the returned proof must verify, and be one the certificate can be matched with (the root
            // test every caller performs: MessageBuilder::compute_cardano_database_message + match_message)
            let msg = ctx.rt.block_on(mithril_client::MessageBuilder::new().compute_cardano_database_message(cert, &proof));
            let matches = msg.map(|m| cert.match_message(&m)).unwrap_or(false);
            if proof.verify().is_err() || !matches {
                Verdict::Err("unmatched-proof")
            } else {
                Verdict::Accepted
            }
        }
        Err(CardanoDatabaseVerificationError::ImmutableFilesVerification(l)) => Verdict::Rejected {
            missing: l.missing.clone(),
            tampered: l.tampered.clone(),
            nonver: l.non_verifiable.clone(),
        },
        Err(CardanoDatabaseVerificationError::DigestsComputation(_)) => Verdict::Err("digester"),
        Err(CardanoDatabaseVerificationError::MerkleProofVerification(_)) => Verdict::Err("proof"),
        Err(CardanoDatabaseVerificationError::ImmutableFilesRangeCreation(_)) => Verdict::Err("range"),
    }
}

/// S on one verification; returns (class, what) failures
#[allow(clippy::too_many_arguments)]
fn spec_verify(
    v: &Verdict,
    db: &Db,
    range: &R,
    allow: bool,
    honest: &BTreeMap<String, String>,
    used: &BTreeMap<String, String>,
) -> Vec<(String, String)> {
    let mut fails = vec![];
    let bounds = match range.bounds(db.beacon) {
        Some(b) => b,
        None => {
            if matches!(v, Verdict::Accepted) {
                fails.push(("accepted-invalid-range".to_string(), format!("range {:?} is not a range of a database ending at {}", range, db.beacon)));
            }
            return fails;
        }
    };
    let offs: Vec<(String, Off)> = offenders(&db.imm, bounds, honest)
        .into_iter()
        .filter(|(_, o)| !(allow && *o == Off::Missing))
        .collect();
    // class of an offence: narrow predicates for the recorded findings, anything else is new
    let class_of = |name: &String, o: Off| -> String {
        match o {
            Off::NonRegular => "non-regular-entry-skipped".to_string(),
            Off::Tampered => {
                // the digest list that was USED (served by the mirror and accepted against the signed
                // root) assigns this content to this name, the honest list does not
                let actual = std::fs::read(db.imm.join(name)).map(|c| sha256_hex(&c)).unwrap_or_default();
                if used.get(name) == Some(&actual) && honest.get(name) != Some(&actual) {
                    "digest-names-unbound".to_string()
                } else {
                    "accepted-or-unreported-tampered".to_string()
                }
            }
            Off::Missing => "accepted-or-unreported-missing".to_string(),
            Off::Foreign => "accepted-or-unreported-foreign".to_string(),
        }
    };
    match v {
        Verdict::Accepted => {
            for (n, o) in &offs {
                fails.push((class_of(n, *o), format!("accepted although {} is {:?} (range {:?}, beacon {}, allow_missing {})", n, o, range, db.beacon, allow)));
            }
        }
        Verdict::Rejected { missing, tampered, nonver } => {
            for (n, o) in &offs {
                let reported = match o {
                    Off::Missing => missing.contains(n),
                    Off::Tampered | Off::Foreign => tampered.contains(n) || nonver.contains(n),
                    Off::NonRegular => missing.contains(n) || tampered.contains(n) || nonver.contains(n),
                };
                if !reported {
                    fails.push((class_of(n, *o), format!("rejected, but the offending name {} ({:?}) is in none of the reported lists", n, o)));
                }
            }
        }
        Verdict::Err(_) => {}
    }
    fails
}

fn pick_number(rng: &mut Rng, db: &Db, bounds: Option<(u64, u64)>) -> u64 {
    let (lo, hi) = bounds.unwrap_or((0, db.beacon));
    let mut cands = vec![lo, hi, lo.saturating_sub(1), hi + 1, lo + 1, hi.saturating_sub(1), db.beacon, db.beacon + 1, 0, db.top];
    cands.retain(|n| *n <= db.top);
    if rng.chance(1, 3) {
        rng.range(0, db.top)
    } else {
        *rng.pick(&cands)
    }
}

fn gen_tamper(rng: &mut Rng, db: &Db, bounds: Option<(u64, u64)>) -> Tamper {
    let mut name = |rng: &mut Rng| trio_name(pick_number(rng, db, bounds), rng.below(3) as usize);
    match rng.below(20) {
        0 | 1 => Tamper::Flip(name(rng)),
        2 => Tamper::Truncate(name(rng)),
        3 => Tamper::Extend(name(rng)),
        4 => Tamper::Empty(name(rng)),
        5 | 6 => Tamper::Delete(name(rng)),
        7..=9 => {
            let a = name(rng);
            let b = name(rng);
            Tamper::Swap(a, b)
        }
        10 | 11 => {
            let a = name(rng);
            let b = name(rng);
            Tamper::CopyOver(a, b)
        }
        12..=14 => {
            let n = pick_number(rng, db, bounds);
            let e = EXTS[rng.below(3) as usize];
            let nm = match rng.below(9) {
                0 => format!("{}.{}", n, e),          // no padding
                1 => format!("{:06}.{}", n, e),       // other padding
                2 => format!("+{}.{}", n, e),         // parses as the same number
                3 => format!("{:05}.tmp", n),         // other extension: ignored
                4 => "lock".to_string(),
                5 => format!("{:05}.{}.bak", n, e),
                6 => format!("{:05}.{}", db.top + 1 + rng.below(3), e), // beyond everything
                7 => format!("{:05}", n),             // no extension
                _ => format!("{:03}.{}", n, e),
            };
            let src = if rng.bool() { Some(name(rng)) } else { None };
            Tamper::Extra(nm, src)
        }
        15 => Tamper::Extra(format!("{}.{}", rng.pick(&["abc", "0x1", "1e3", "-1", "١"]), EXTS[rng.below(3) as usize]), None),
        16 => Tamper::DirAt(name(rng)),
        17 | 18 => {
            let n = name(rng);
            let t = match rng.below(4) {
                0 => name(rng),                                 // another file of the directory
                1 => "../evil.bin".to_string(),                 // a file outside `immutable/`
                2 => "nowhere".to_string(),                     // dangling
                _ => format!("../{}", "immutable"),             // a directory
            };
            Tamper::LinkAt(n, t)
        }
        _ => Tamper::NoImmutableDir,
    }
}

fn gen_range(rng: &mut Rng, beacon: u64) -> R {
    let b = beacon;
    match rng.below(16) {
        0..=2 => R::Full,
        3 => R::From(0),
        4 => R::From(b),
        5 => R::From(rng.range(0, b)),
        6 => R::From(b + 1), // invalid
        7 => R::UpTo(b),
        8 => R::UpTo(0),
        9 => R::UpTo(rng.range(0, b)),
        10 => R::UpTo(b + 1), // invalid
        11 | 12 => {
            let a = rng.range(0, b);
            R::Range(a, rng.range(a, b))
        }
        13 => {
            let a = rng.range(0, b);
            R::Range(a, a)
        }
        14 => R::Range(rng.range(0, b), b + 1), // invalid
        _ => {
            let a = rng.range(0, b);
            if a == 0 { R::Range(0, b) } else { R::Range(a, a - 1) } // inverted: invalid
        }
    }
}

/// one direct case: VerifiedDigests built from the honest list, directory tampered
#[allow(clippy::too_many_arguments)]
fn direct_case(ctx: &Ctx, sink: &mut Sink, rng: &mut Rng, tag: &str, trios: u64, beacon: u64, extra: bool, range: R, allow: bool, tampers: Option<Vec<Tamper>>, ntamper: usize) -> Option<(Verdict, Vec<(String, String)>)> {
    if !sink.wanted() {
        sink.skip();
        return None;
    }
    let idx = sink.next_index();
    let db = build_db(rng, &ctx.scratch, idx, trios, beacon, extra);
    std::fs::write(db.db_dir.join("evil.bin"), b"HOSTILE CHUNK").unwrap();
    let honest = db.honest_certified();
    // the aggregator's side: the real digester over the honest database
    let digester = CardanoImmutableDigester::new(None, ctx.logger.clone());
    let agg_tree = ctx
        .rt
        .block_on(digester.compute_merkle_tree(&db.db_dir, &CardanoDbBeacon { epoch: Epoch(123), immutable_file_number: beacon }))
        .unwrap();
    let agg_root = agg_tree.compute_root().unwrap().to_hex();
    let values: Vec<String> = honest.values().cloned().collect();
    let vd = VerifiedDigests { digests: honest.clone(), merkle_tree: tree_of(&values) };
    let mut extra_fail = vec![];
    if vd.merkle_tree.compute_root().unwrap().to_hex() != agg_root {
        extra_fail.push(("client-aggregator-order".to_string(), "tree over the list in name order differs from the aggregator's tree".to_string()));
    }
    let cert = certificate_for(&agg_root, true);
    let snap = snapshot_for(beacon, None);
    let bounds = range.bounds(beacon);
    let tampers = tampers.unwrap_or_else(|| (0..ntamper).map(|_| gen_tamper(rng, &db, bounds)).collect());
    for t in &tampers {
        apply(t, &db, rng);
    }
    let mut ids = Ids::default();
    let cert_s = format!("[{}]", honest.iter().map(|(n, d)| format!("(@{},{})", n, ids.id(d))).collect::<Vec<_>>().join(","));
    let dir_s = observe_dir(&db.imm, &mut ids);
    let v = real_verify(ctx, &cert, &snap, &range, allow, &db.db_dir, &vd);
    let req = format!("c10.verify cert={} dir={} range={} last={} allow={}", cert_s, dir_s, range.show(), beacon, allow as u8);
    let i = sink.case(tag, &req, &v.show());
    let mut fails = spec_verify(&v, &db, &range, allow, &honest, &honest);
    fails.extend(extra_fail);
    let case = format!("{} tampers={:?}", req, tampers);
    for (c, w) in &fails {
        sink.sfail(i, c, w, &case);
    }
    db.cleanup();
    Some((v, fails))
}

#[derive(Clone, Debug)]
enum ListTamper {
    Shuffle,
    Rename(String, String),
    Drop(String),
    Add(String, Option<String>), // digest: random or that of the named entry
    ChangeDigest(String),
    SwapDigests(String, String),
    Duplicate(String, bool), // a second entry for the name with another digest, after (true) or before the original
    /// insert a name just before `from` and drop `dropped`: every name in between moves to the next digest
    Shift { fake: String, from: String, dropped: String },
    CertInconsistent,
    OtherRoot,
}

/// pipeline case: served list (possibly tampered) through the real `download_and_verify_digests`,
/// then, if accepted, the directory (possibly arranged to match the served list) through `verify_cardano_database`
#[allow(clippy::too_many_arguments)]
fn pipeline_case(ctx: &Ctx, sink: &mut Sink, rng: &mut Rng, tag: &str, trios: u64, beacon: u64, lt: Vec<ListTamper>, range: R, allow: bool, follow_list: bool, ntamper: usize) -> Option<Vec<(String, String)>> {
    if !sink.wanted() {
        sink.skip();
        return None;
    }
    let idx = sink.next_index();
    let db = build_db(rng, &ctx.scratch, idx, trios, beacon, false);
    let honest = db.honest_certified();
    let digester = CardanoImmutableDigester::new(None, ctx.logger.clone());
    let agg_tree = ctx
        .rt
        .block_on(digester.compute_merkle_tree(&db.db_dir, &CardanoDbBeacon { epoch: Epoch(123), immutable_file_number: beacon }))
        .unwrap();
    // the leaves the aggregator signed, in its order ((number, path)); `MKTree::leaves()` cannot be used:
    // it collapses equal digests
    let mut signed_leaves: Vec<String> = vec![];
    for n in 0..=beacon {
        for e in 0..3 {
            signed_leaves.push(honest[&trio_name(n, e)].clone());
        }
    }
    let mut root = agg_tree.compute_root().unwrap().to_hex();
    let order_ok = tree_of(&signed_leaves).compute_root().unwrap().to_hex() == root;
    let mut cert_ok = true;
    // the served list: everything the aggregator knows (also beyond the beacon)
    let mut served: Vec<(String, String)> = db.honest_all.iter().map(|(a, b)| (a.clone(), b.clone())).collect();
    for t in &lt {
        match t {
            ListTamper::Shuffle => rng.shuffle(&mut served),
            ListTamper::Rename(a, b) => {
                for e in served.iter_mut() {
                    if e.0 == *a {
                        e.0 = b.clone();
                    }
                }
            }
            ListTamper::Drop(a) => served.retain(|e| e.0 != *a),
            ListTamper::Add(n, src) => {
                let d = match src {
                    Some(s) => served.iter().find(|e| e.0 == *s).map(|e| e.1.clone()).unwrap_or_else(|| sha256_hex(b"x")),
                    None => sha256_hex(&rng.bytes(8)),
                };
                let at = rng.below(served.len() as u64 + 1) as usize;
                served.insert(at, (n.clone(), d));
            }
            ListTamper::ChangeDigest(a) => {
                for e in served.iter_mut() {
                    if e.0 == *a {
                        e.1 = sha256_hex(e.1.as_bytes());
                    }
                }
            }
            ListTamper::SwapDigests(a, b) => {
                let da = served.iter().find(|e| e.0 == *a).map(|e| e.1.clone());
                let dbb = served.iter().find(|e| e.0 == *b).map(|e| e.1.clone());
                if let (Some(da), Some(dbb)) = (da, dbb) {
                    for e in served.iter_mut() {
                        if e.0 == *a {
                            e.1 = dbb.clone();
                        } else if e.0 == *b {
                            e.1 = da.clone();
                        }
                    }
                }
            }
            ListTamper::Duplicate(a, after) => {
                if let Some(pos) = served.iter().position(|e| e.0 == *a) {
                    let other = (a.clone(), sha256_hex(b"other"));
                    if *after {
                        served.push(other);
                    } else {
                        let orig = served.remove(pos);
                        served.insert(0, other);
                        served.push(orig);
                    }
                }
            }
            ListTamper::Shift { fake, from, dropped } => {
                // names sorted; digests of [from ..= dropped] move one name down
                served.sort();
                let i0 = served.iter().position(|e| e.0 == *from);
                let i1 = served.iter().position(|e| e.0 == *dropped);
                if let (Some(i0), Some(i1)) = (i0, i1) {
                    if i0 <= i1 {
                        let digs: Vec<String> = served[i0..=i1].iter().map(|e| e.1.clone()).collect();
                        let mut names: Vec<String> = vec![fake.clone()];
                        names.extend(served[i0..i1].iter().map(|e| e.0.clone()));
                        let repl: Vec<(String, String)> = names.into_iter().zip(digs).collect();
                        served.splice(i0..=i1, repl);
                    }
                }
            }
            ListTamper::CertInconsistent => cert_ok = false,
            ListTamper::OtherRoot => {
                let mut v = signed_leaves.clone();
                v.reverse();
                v.push(sha256_hex(b"one more"));
                root = tree_of(&v).compute_root().unwrap().to_hex();
            }
        }
    }
    let other_root = lt.iter().any(|t| matches!(t, ListTamper::OtherRoot));
    for (n, _) in &served {
        assert!(name_ok(n), "{}", n);
    }
    let list_path = db.case_dir.join("digests.json");
    let msg: Vec<CardanoDatabaseDigestListItemMessage> = served
        .iter()
        .map(|(n, d)| CardanoDatabaseDigestListItemMessage { immutable_file_name: n.clone(), digest: d.clone() })
        .collect();
    std::fs::write(&list_path, serde_json::to_vec(&msg).unwrap()).unwrap();
    let cert = certificate_for(&root, cert_ok);
    let snap = snapshot_for(beacon, Some(format!("file://{}", list_path.display())));
    let dbc = ctx.client.cardano_database_v2();
    let r = ctx.rt.block_on(dbc.download_and_verify_digests(&cert, &snap));
    let mut ids = Ids::default();
    let served_s = format!("[{}]", served.iter().map(|(n, d)| format!("(@{},{})", n, ids.id(d))).collect::<Vec<_>>().join(","));
    // when the certificate signs another root the model is given that other leaf list: nothing served matches it
    let signed_s = if other_root {
        "[other]".to_string()
    } else {
        format!("[{}]", signed_leaves.iter().map(|d| ids.id(d)).collect::<Vec<_>>().join(","))
    };
    let head = format!("served={} last={} signed={} certok={}", served_s, beacon, signed_s, cert_ok as u8);
    let mut fails: Vec<(String, String)> = vec![];
    let (req, imp, case) = match r {
        Err(_) => (format!("c10.digests {}", head), "err".to_string(), format!("{} list_tampers={:?}", head, lt)),
        Ok(vd) => {
            let imp1 = format!("ok [{}]", vd.digests.iter().map(|(n, d)| format!("(@{},{})", n, ids.id(d))).collect::<Vec<_>>().join(","));
            // S: an accepted list reproduces the signed root: its digests, in order, are the signed leaves,
            // and it binds every name to the digest the aggregator signed for it
            let vals: Vec<String> = vd.digests.values().cloned().collect();
            if other_root || !cert_ok || vals != signed_leaves {
                fails.push(("digest-list-accepted-against-other-root".into(), "accepted list does not reproduce the signed leaf list".into()));
            }
            if vd.digests != honest {
                fails.push(("digest-names-unbound".into(), format!("the accepted list assigns digests to other names than the signed database does (first differing name: {:?})",
                    vd.digests.iter().zip(honest.iter()).find(|(a, b)| a != b).map(|(a, _)| a.0.clone()))));
            }
            // the directory: honest, or arranged by the mirror to match the list it served
            if follow_list {
                let contents: BTreeMap<String, Vec<u8>> = db
                    .honest_all
                    .keys()
                    .filter_map(|n| std::fs::read(db.imm.join(n)).ok().map(|c| (sha256_hex(&c), c)))
                    .collect();
                for (n, d) in &vd.digests {
                    if let (true, Some(c)) = (db.imm.join(n).is_file(), contents.get(d)) {
                        std::fs::write(db.imm.join(n), c).unwrap();
                    }
                }
            }
            let bounds = range.bounds(beacon);
            let tampers: Vec<Tamper> = (0..ntamper).map(|_| gen_tamper(rng, &db, bounds)).collect();
            for t in &tampers {
                apply(t, &db, rng);
            }
            let dir_s = observe_dir(&db.imm, &mut ids);
            let v = real_verify(ctx, &cert, &snap, &range, allow, &db.db_dir, &vd);
            fails.extend(spec_verify(&v, &db, &range, allow, &honest, &vd.digests));
            (
                format!("c10.pipeline {} dir={} range={} allow={}", head, dir_s, range.show(), allow as u8),
                format!("{} | {}", imp1, v.show()),
                format!("{} dir={} range={} allow={} list_tampers={:?} tampers={:?}", head, dir_s, range.show(), allow as u8, lt, tampers),
            )
        }
    };
    if !order_ok {
        fails.push(("client-aggregator-order".to_string(), "the aggregator's tree is not the tree over the digests in (number, extension) order".to_string()));
    }
    let i = sink.case(tag, &req, &imp);
    for (c, w) in &fails {
        sink.sfail(i, c, w, &case);
    }
    db.cleanup();
    Some(fails)
}

fn gen_list_tamper(rng: &mut Rng, trios: u64, beacon: u64) -> ListTamper {
    let top = trios - 1;
    let any = |rng: &mut Rng| trio_name(rng.range(0, top), rng.below(3) as usize);
    let certified = |rng: &mut Rng| {
        let r = rng.range(0, beacon);
        trio_name(*rng.pick(&[0, beacon, r]), rng.below(3) as usize)
    };
    match rng.below(14) {
        0 => ListTamper::Shuffle,
        1 => {
            let a = certified(rng);
            let n: u64 = a[..5].parse().unwrap();
            let e = &a[6..];
            let b = match rng.below(5) {
                0 => format!("{}.{}", n, e),
                1 => format!("{:06}.{}", n, e),
                2 => format!("{:05}.{}x", n, e),
                3 => format!("{:05}.{}", top + 5, e),
                _ => format!("x{:05}.{}", n, e),
            };
            ListTamper::Rename(a, b)
        }
        2 => ListTamper::Drop(certified(rng)),
        3 => ListTamper::Drop(any(rng)),
        4 => ListTamper::Add(format!("{:05}.chunk", top + 1 + rng.below(4)), None), // beyond the beacon: filtered
        5 => ListTamper::Add(format!("{}.ledger", rng.pick(&["abc", "state", "1e3"])), None), // no number: filtered
        6 => ListTamper::Add(format!("{:05}.extra", rng.range(0, beacon)), None), // counted: another root
        7 => ListTamper::Add(format!("dir/{:05}.chunk", rng.range(0, beacon)), Some(certified(rng))),
        8 => ListTamper::ChangeDigest(certified(rng)),
        9 => {
            let a = certified(rng);
            let b = certified(rng);
            ListTamper::SwapDigests(a, b)
        }
        10 => ListTamper::Duplicate(certified(rng), rng.bool()),
        11 => ListTamper::CertInconsistent,
        12 => ListTamper::OtherRoot,
        _ => ListTamper::ChangeDigest(any(rng)),
    }
}

fn main() {
    let args = Args::parse();
    let mut sink = Sink::new(&args);
    let mut rng = Rng::new(args.seed ^ 0xC10);
    hutil::quiet_panics();
    let scratch = Scratch::new("verif-c10");
    let rt = tokio::runtime::Builder::new_multi_thread().worker_threads(2).enable_all().build().unwrap();
    let client = ClientBuilder::aggregator("http://127.0.0.1:9/", fake_keys::genesis_verification_key()[0]).build().unwrap();
    let logger = slog::Logger::root(slog::Discard, slog::o!());
    let ctx = Ctx { rt, client, scratch, logger };

    // ---- corpus: witnesses of the repaired defects and of the recorded findings, replayed first ----
    // (a) contents of two certified names exchanged; (b) one certified content copied over another
    let w = direct_case(&ctx, &mut sink, &mut rng.fork(), "corpus.swap", 3, 2, false, R::From(1), false,
        Some(vec![Tamper::Swap("00001.chunk".into(), "00002.chunk".into())]), 0);
    if let Some((v, _)) = w {
        let rep = matches!(v, Verdict::Accepted);
        sink.witness("C10-content-swap", rep, &format!("contents of 00001.chunk and 00002.chunk exchanged, From(1): {}", v.show()));
    }
    let w = direct_case(&ctx, &mut sink, &mut rng.fork(), "corpus.copy", 3, 2, false, R::Full, false,
        Some(vec![Tamper::CopyOver("00000.primary".into(), "00002.primary".into())]), 0);
    if let Some((v, _)) = w {
        let rep = matches!(v, Verdict::Accepted);
        sink.witness("C10-content-copy", rep, &format!("content of 00000.primary written over 00002.primary, Full: {}", v.show()));
    }
    let w = direct_case(&ctx, &mut sink, &mut rng.fork(), "corpus.padding", 3, 2, false, R::Full, false,
        Some(vec![Tamper::Extra("1.chunk".into(), Some("00002.chunk".into()))]), 0);
    if let Some((v, _)) = w {
        let rep = matches!(v, Verdict::Accepted);
        sink.witness("C10-foreign-name", rep, &format!("extra file 1.chunk holding the content of 00002.chunk, Full: {}", v.show()));
    }
    // a symbolic link under a certified name is skipped by the digester and counts as present
    let w = direct_case(&ctx, &mut sink, &mut rng.fork(), "corpus.symlink", 3, 2, false, R::Full, false,
        Some(vec![Tamper::LinkAt("00001.chunk".into(), "../evil.bin".into())]), 0);
    if let Some((v, f)) = w {
        let rep = matches!(v, Verdict::Accepted) && f.iter().any(|(c, _)| c == "non-regular-entry-skipped");
        sink.witness("C10-symlink-skipped", rep, &format!("immutable/00001.chunk replaced by a symbolic link to ../evil.bin, Full, allow_missing=false: {}", v.show()));
    }
    let w = direct_case(&ctx, &mut sink, &mut rng.fork(), "corpus.dir", 3, 2, false, R::Full, false,
        Some(vec![Tamper::DirAt("00001.primary".into())]), 0);
    if let Some((v, f)) = w {
        let rep = matches!(v, Verdict::Accepted) && f.iter().any(|(c, _)| c == "non-regular-entry-skipped");
        sink.witness("C10-directory-skipped", rep, &format!("immutable/00001.primary replaced by a directory, Full, allow_missing=false: {}", v.show()));
    }
    // the signed root binds the ordered digests, not the names: insert a name, drop the last one
    let w = pipeline_case(&ctx, &mut sink, &mut rng.fork(), "corpus.shift", 4, 3,
        vec![ListTamper::Shift { fake: "00001.chun".into(), from: "00001.chunk".into(), dropped: "00003.secondary".into() }],
        R::Range(1, 2), false, true, 0);
    if let Some(f) = w {
        let rep = f.iter().any(|(c, w)| c == "digest-names-unbound" && w.starts_with("accepted although"));
        sink.witness("C10-digest-names-unbound", rep, "served list with `00001.chun` inserted and `00003.secondary` dropped (every name from 00001.chunk on carries the digest of its successor), directory arranged accordingly, Range(1,2): list accepted against the signed root and database accepted");
    }

    // ---- generated cases ----
    let n_direct = if args.thorough() { 6000 } else { 1000 };
    let n_pipe = if args.thorough() { 2500 } else { 400 };
    for k in 0..n_direct {
        let mut rng = rng.fork(); // everything of one case derives from this: `--only` replays the same case
        let trios = match k % 10 {
            0 => 1,
            1 => 2,
            2 => 30,
            _ => rng.range(1, 30),
        };
        let extra = rng.chance(1, 4);
        let beacon = if rng.chance(2, 3) { trios - 1 } else { rng.range(0, trios - 1) };
        let range = gen_range(&mut rng, beacon);
        let allow = rng.chance(1, 3);
        let nt = match rng.below(8) {
            0 | 1 => 0,
            2..=5 => 1,
            6 => 2,
            _ => 3,
        };
        let tag = if nt == 0 { "honest" } else { "tampered" };
        direct_case(&ctx, &mut sink, &mut rng.fork(), tag, trios, beacon, extra, range, allow, None, nt);
    }
    for k in 0..n_pipe {
        let mut rng = rng.fork();
        let trios = if k % 7 == 0 { 30 } else { rng.range(1, 12) };
        let beacon = if rng.chance(1, 2) { trios - 1 } else { rng.range(0, trios - 1) };
        let nl = match rng.below(6) {
            0 => 0,
            1..=3 => 1,
            _ => 2,
        };
        let mut lt: Vec<ListTamper> = (0..nl).map(|_| gen_list_tamper(&mut rng, trios, beacon)).collect();
        let mut follow = false;
        if rng.chance(1, 6) && beacon >= 1 {
            // the shift attack with a random window
            let names: Vec<String> = (0..=beacon).flat_map(|n| (0..3).map(move |e| trio_name(n, e))).collect();
            let i0 = rng.below(names.len() as u64 - 1) as usize;
            let i1 = rng.range(i0 as u64, names.len() as u64 - 1) as usize;
            let from = names[i0].clone();
            let fake = from[..from.len() - 1].to_string(); // a proper prefix sorts just before
            lt = vec![ListTamper::Shift { fake, from, dropped: names[i1].clone() }];
            follow = rng.chance(3, 4);
        }
        let mut range = gen_range(&mut rng, beacon);
        if rng.chance(1, 6) && beacon >= 1 {
            // one entry renamed to a PATH whose last component is the name of another certified file of a lower number
            // (`00004.chunk` -> `00004.chunk/00003.chunk`): it keeps its place in the list, so the signed root is
            // reproduced; the mirror arranges the directory to match (the renamed entry's content over the other file)
            // and the verified range leaves the renamed entry's own number out
            let na = rng.range(1, beacon);
            let no = rng.below(na);
            let (a, other) = (trio_name(na, rng.below(3) as usize), trio_name(no, rng.below(3) as usize));
            lt = vec![ListTamper::Rename(a.clone(), format!("{}/{}", a, other))];
            follow = true;
            range = match rng.below(3) { 0 => R::UpTo(no), 1 => R::Range(no, na - 1), _ => R::Range(0, na - 1) };
        }
        let allow = rng.chance(1, 3);
        let nt = if rng.chance(1, 3) { 1 } else { 0 };
        let tag = if lt.is_empty() { "pipeline.honest" } else { "pipeline.tampered" };
        pipeline_case(&ctx, &mut sink, &mut rng.fork(), tag, trios, beacon, lt, range, allow, follow, nt);
    }
    sink.note("numbers", "immutable numbers stay below 100000: client (name order) and aggregator ((number, path) order) agree there");
    let Ctx { scratch, .. } = ctx;
    drop(scratch);
    sink.finish();
}
