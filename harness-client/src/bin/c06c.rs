//! C06 harness, client layer: `MessageBuilder::compute_mithril_stake_distribution_message(certificate, msd)` of
//! mithril-client — the path by which a client RE-COMPUTES the aggregate verification key of a stake-distribution
//! message — versus the Lean model (`RegPaths.build` + the JSON-hex encoding of the key, Blake2b-256 in Lean).
//!
//! Sets of 1..10 KES-certified signers (fixtures of mithril-common, different party seeds), stakes all equal / random /
//! with zeros / with the total at the 2^64 boundary; every set in several orders of `signers_with_stake`, passed through
//! the JSON text of the message type, through `serde_json::Value`, or handed over directly. Error cases: empty list,
//! a signer listed twice, total stake overflow, total stake zero, a party id that is not the certified pool id, two
//! party ids swapped (each entry then registers with the stake listed under the other name).
//!
//! K: outcome class and the literal `NextAggregateVerificationKey` part (hex of the JSON of the key), bit for bit.
//! S (real versus real): the part equals the key the aggregator-side `SignerBuilder` computes for the canonical list,
//! equals the key raw mithril-stm computes from the (key, stake) pairs (no mithril-common code), is the same for
//! every order / encoding of one set, differs between distinct sets; the other parts of the certificate's protocol
//! message are untouched.
use std::collections::BTreeMap;

use hutil::{hex, Args, Rng, Sink};
use mithril_client::common::{ProtocolMessagePartKey, ProtocolParameters};
use mithril_client::{MessageBuilder, MithrilCertificate, MithrilSigner, MithrilStakeDistribution};
use mithril_common::crypto_helper::ProtocolKey;
use mithril_common::entities::{Epoch, SignerWithStake};
use mithril_common::protocol::SignerBuilder;
use mithril_common::test::builder::{MithrilFixtureBuilder, StakeDistributionGenerationMethod};
use mithril_common::test::double::Dummy;
use mithril_stm::{Clerk, KeyRegistration, MithrilMembershipDigest, Parameters, RegisterError, RegistrationEntry};

type D = MithrilMembershipDigest;

fn class_of(e: &anyhow::Error) -> String {
    for c in e.chain() {
        if let Some(r) = c.downcast_ref::<RegisterError>() {
            return match r {
                RegisterError::EntryAlreadyRegistered(_) => "dupKey".into(),
                RegisterError::TotalStakeOverflow { .. } => "overflow".into(),
                RegisterError::ZeroTotalStake => "zero".into(),
                other => format!("other:{}", other),
            };
        }
        if let Some(mithril_common::protocol::SignerBuilderError::EmptySigners) = c.downcast_ref::<mithril_common::protocol::SignerBuilderError>() {
            return "empty".into();
        }
        if let Some(w) = c.downcast_ref::<mithril_common::crypto_helper::ProtocolRegistrationErrorWrapper>() {
            return match w {
                mithril_common::crypto_helper::ProtocolRegistrationErrorWrapper::PartyIdNonExisting => "unknownParty".into(),
                other => format!("registration:{}", other).chars().take(60).collect(),
            };
        }
    }
    format!("other:{:?}", e).chars().take(100).collect()
}

/// the key raw mithril-stm computes from the (key, stake) pairs, in the JSON-hex encoding of the message part
fn stm_key(entries: &[SignerWithStake], params: &Parameters) -> Result<String, String> {
    let mut reg = KeyRegistration::initialize();
    for s in entries {
        let e = RegistrationEntry::new(*s.verification_key_for_concatenation, s.stake).map_err(|e| e.to_string())?;
        reg.register_by_entry(&e).map_err(|e| e.to_string())?;
    }
    let closed = reg.close_registration(params).map_err(|e| e.to_string())?;
    let avk = Clerk::<D>::new_clerk_from_closed_key_registration(params, &closed).compute_aggregate_verification_key();
    ProtocolKey::new(avk.to_concatenation_aggregate_verification_key().to_owned()).to_json_hex().map_err(|e| e.to_string())
}

fn builder_key(entries: &[SignerWithStake], pp: &ProtocolParameters) -> Result<String, String> {
    let b = SignerBuilder::new(entries, pp).map_err(|e| class_of(&e))?;
    ProtocolKey::new(b.compute_aggregate_verification_key().to_concatenation_aggregate_verification_key().to_owned())
        .to_json_hex()
        .map_err(|e| e.to_string())
}

#[derive(Clone, Copy, PartialEq, Debug)]
enum Enc {
    Direct,
    JsonText,
    JsonValue,
}

/// the fixture builder of mithril-common prints to stdout: keep the run quiet
fn silence_stdout() {
    use std::os::fd::AsRawFd;
    if let Ok(f) = std::fs::OpenOptions::new().write(true).open("/dev/null") {
        unsafe { libc::dup2(f.as_raw_fd(), 1); }
        std::mem::forget(f);
    }
}

fn main() {
    silence_stdout();
    let args = Args::parse();
    let mut rng = Rng::new(args.seed);
    let mut sink = Sink::new(&args);
    hutil::quiet_panics();
    let pp = ProtocolParameters { k: 5, m: 20, phi_f: 0.65 };
    let stm_params: Parameters = pp.clone().into();
    let certificate: MithrilCertificate = MithrilCertificate::dummy();
    let builder = MessageBuilder::new();
    let mut ids: BTreeMap<String, usize> = BTreeMap::new();
    let mut id = |s: &str| -> usize { let n = ids.len() + 1; *ids.entry(s.to_string()).or_insert(n) };
    // distinct sets must give distinct keys: key -> canonical description of the set that produced it
    let mut seen_keys: BTreeMap<String, String> = BTreeMap::new();

    let nsets = if args.thorough() { 220 } else { 44 };
    for si in 0..nsets {
        let n = 1 + (si % 10) as usize;
        let mut seed = [0u8; 32];
        seed[0] = (si / 10) as u8;
        seed[1] = (args.seed % 7) as u8;
        let fixture = MithrilFixtureBuilder::default()
            .with_signers(n)
            .with_protocol_parameters(pp.clone())
            .with_party_id_seed(seed)
            .with_stake_distribution(StakeDistributionGenerationMethod::Uniform(10))
            .build();
        let mut base: Vec<SignerWithStake> = fixture.signers_with_stake();
        // the stake is not covered by the KES signature: any stake can be listed
        let mode = si % 6;
        for (i, s) in base.iter_mut().enumerate() {
            s.stake = match mode {
                0 => 7,                                                  // all equal: the order is decided by the key bytes
                1 => if i % 2 == 0 { 7 } else { 8 },
                2 => rng.range(0, 3),                                    // zeros, perhaps all zero
                3 => rng.range(1, 1_000_000_000),
                4 => if i == 0 { (u64::MAX - n as u64).saturating_add(rng.range(0, 2)) } else { 1 }, // total = 2^64 - 2 .. 2^64
                _ => rng.range(1, 50),
            };
        }
        let canon = |l: &[SignerWithStake]| -> String {
            let mut v: Vec<String> = l.iter().map(|s| format!("{}:{}", hex(&s.verification_key_for_concatenation.vk.to_bytes()), s.stake)).collect();
            v.sort();
            v.join(",")
        };
        let set_text = canon(&base);
        let expect_builder = builder_key(&base, &pp);
        let expect_stm = stm_key(&base, &stm_params);

        // ---- the lists derived from the set: (tag, list, is it the honest set in another order?)
        let mut cases: Vec<(&'static str, Vec<SignerWithStake>, bool)> = vec![];
        cases.push(("order-as-built", base.clone(), true));
        let mut rev = base.clone();
        rev.reverse();
        cases.push(("order-reversed", rev, true));
        let mut by_party = base.clone();
        by_party.sort_by(|a, b| a.party_id.cmp(&b.party_id));
        cases.push(("order-by-party", by_party, true));
        let mut by_stake = base.clone();
        by_stake.sort_by(|a, b| b.stake.cmp(&a.stake));
        cases.push(("order-by-stake-desc", by_stake, true));
        for _ in 0..(if args.thorough() { 6 } else { 3 }) {
            let mut p = base.clone();
            rng.shuffle(&mut p);
            cases.push(("order-shuffled", p, true));
        }
        if si % 4 == 0 {
            cases.push(("err-empty", vec![], false));
        }
        {
            let mut p = base.clone();
            let dup = p[rng.below(n as u64) as usize].clone();
            p.insert(rng.below(n as u64 + 1) as usize, dup);
            cases.push(("err-signer-listed-twice", p, false));
        }
        if n >= 2 {
            let mut p = base.clone();
            rng.shuffle(&mut p);
            let (a, b) = (p[0].party_id.clone(), p[1].party_id.clone());
            p[0].party_id = b;
            p[1].party_id = a;
            cases.push(("party-ids-swapped", p, false));
        }
        {
            let mut p = base.clone();
            let i = rng.below(n as u64) as usize;
            p[i].party_id = format!("pool1unknown{}", si);
            cases.push(("err-party-id-not-the-pool", p, false));
        }
        {
            let mut p = base.clone();
            for s in p.iter_mut() { s.stake = 0; }
            cases.push(("err-total-zero", p, false));
        }
        {
            let mut p = base.clone();
            p[0].stake = u64::MAX;
            if n >= 2 { p[1].stake = 1 + rng.range(0, 5); } else { p[0].stake = u64::MAX; }
            cases.push((if n >= 2 { "err-total-overflow" } else { "total-max" }, p, false));
        }
        {
            // one signer less / one stake changed: another set, another key
            if n >= 2 {
                let mut p = base.clone();
                p.remove(rng.below(n as u64) as usize);
                cases.push(("other-set-one-signer-less", p, false));
            }
            let mut p = base.clone();
            let i = rng.below(n as u64) as usize;
            p[i].stake = p[i].stake.wrapping_add(1).max(1);
            cases.push(("other-set-one-stake-changed", p, false));
        }

        for (ci, (tag, list, honest_order)) in cases.into_iter().enumerate() {
            if !sink.wanted() { sink.skip(); continue; }
            let enc = match (si + ci) % 3 { 0 => Enc::JsonText, 1 => Enc::Direct, _ => Enc::JsonValue };
            let msd = MithrilStakeDistribution {
                epoch: Epoch(7),
                signers_with_stake: MithrilSigner::from_signers(list.clone()),
                hash: format!("hash-{}", si),
                certificate_hash: certificate.hash.clone(),
                created_at: Default::default(),
                protocol_parameters: pp.clone(),
            };
            let msd: MithrilStakeDistribution = match enc {
                Enc::Direct => msd,
                Enc::JsonText => serde_json::from_str(&serde_json::to_string(&msd).unwrap()).unwrap(),
                Enc::JsonValue => serde_json::from_value(serde_json::to_value(&msd).unwrap()).unwrap(),
            };
            let res = hutil::catch(std::panic::AssertUnwindSafe(|| builder.compute_mithril_stake_distribution_message(&certificate, &msd)));
            let (out, part) = match &res {
                Err(_) => ("panic".to_string(), None),
                Ok(Err(e)) => (format!("err {}", class_of(e)), None),
                Ok(Ok(m)) => match m.get_message_part(&ProtocolMessagePartKey::NextAggregateVerificationKey) {
                    Some(p) => (format!("ok {}", p), Some(p.clone())),
                    None => ("ok no-part".to_string(), None),
                },
            };
            // request: (party id, identity the registration derives = the certified pool id, key, stake)
            let req = format!(
                "c06.message entries=[{}]",
                list.iter()
                    .map(|s| {
                        let pool = s.operational_certificate.as_ref().and_then(|o| o.compute_protocol_party_id().ok()).unwrap_or_else(|| s.party_id.clone());
                        format!("({},{},{},{})", id(&s.party_id), id(&pool), hex(&s.verification_key_for_concatenation.vk.to_bytes()), s.stake)
                    })
                    .collect::<Vec<_>>()
                    .join(",")
            );
            let i = sink.case(tag, &req, &out);

            // ---- S
            let what_enc = format!("{:?}", enc);
            if honest_order {
                match (&part, &expect_builder, &expect_stm) {
                    (Some(p), Ok(b), Ok(s)) => {
                        if p != b { sink.sfail(i, "path-dependent-key", &format!("client key differs from the key the aggregator-side SignerBuilder computes for the same set ({}, {})", tag, what_enc), &req); }
                        if p != s { sink.sfail(i, "path-dependent-key", &format!("client key differs from the key raw mithril-stm computes from the same (key, stake) pairs ({}, {})", tag, what_enc), &req); }
                    }
                    (None, Err(_), Err(_)) => {}
                    _ => sink.sfail(i, "path-dependent-outcome", &format!("client outcome '{}' but SignerBuilder: {:?}, mithril-stm: {:?} ({}, {})", out.chars().take(40).collect::<String>(), expect_builder.as_ref().map(|_| "ok"), expect_stm.as_ref().map(|_| "ok"), tag, what_enc), &req),
                }
            } else if let Some(p) = &part {
                // any accepted list: the key is the key of the (key, stake) pairs the list registers — for the swapped
                // party ids these are the pairs with the stakes exchanged
                let mut effective = list.clone();
                if tag == "party-ids-swapped" {
                    let by_name: BTreeMap<String, u64> = list.iter().map(|s| (s.party_id.clone(), s.stake)).collect();
                    for s in effective.iter_mut() {
                        let pool = s.operational_certificate.as_ref().and_then(|o| o.compute_protocol_party_id().ok()).unwrap_or_default();
                        if let Some(st) = by_name.get(&pool) { s.stake = *st; }
                    }
                }
                match stm_key(&effective, &stm_params) {
                    Ok(s) if s == *p => {}
                    other => sink.sfail(i, "path-dependent-key", &format!("client key differs from the key raw mithril-stm computes from the pairs the list registers ({}, {}): {:?}", tag, what_enc, other.map(|_| "other key")), &req),
                }
                if tag.starts_with("err-") { sink.sfail(i, "accepted-bad-list", &format!("the client computed a key for a list that must be refused ({})", tag), &req); }
            }
            if let (Some(p), Ok(Ok(m))) = (&part, &res) {
                // distinct sets, distinct keys
                let mut eff = list.clone();
                if tag == "party-ids-swapped" {
                    let by_name: BTreeMap<String, u64> = list.iter().map(|s| (s.party_id.clone(), s.stake)).collect();
                    for s in eff.iter_mut() {
                        let pool = s.operational_certificate.as_ref().and_then(|o| o.compute_protocol_party_id().ok()).unwrap_or_default();
                        if let Some(st) = by_name.get(&pool) { s.stake = *st; }
                    }
                }
                let text = canon(&eff);
                match seen_keys.get(p) {
                    Some(prev) if *prev != text => sink.sfail(i, "key-collision", "two distinct registration sets yield the same aggregate key", &req),
                    Some(_) => {}
                    None => { seen_keys.insert(p.clone(), text.clone()); }
                }
                if honest_order && text != set_text { sink.sfail(i, "harness", "internal: canonical text of a permutation differs", &req); }
                // the other parts of the certificate's message are untouched
                for (k, v) in certificate.protocol_message.message_parts.iter() {
                    if *k != ProtocolMessagePartKey::NextAggregateVerificationKey && m.get_message_part(k) != Some(v) {
                        sink.sfail(i, "message-part-lost", &format!("message part {:?} of the certificate is not carried over", k), &req);
                    }
                }
            }
        }
        // every order / encoding of one set: one key
        // (implied by the comparison with expect_builder / expect_stm above, which are computed once per set)
    }
    sink.finish();
}
