//! C03 harness, client part: the real `mithril_client` certificate verifier (two loops + verifier
//! cache, feature `unstable`) over an aggregator controlled by the harness, with cold / warm / partially
//! warm caches, versus the Lean model `Chain.clientVerify … true`. Oracle bits as in `c03`.
//! S: accepted ⇒ the served certificates form a valid chain, or every step skipped through the cache is a
//! pair the cache learnt from a certificate that was validated earlier (cache invariant).
use async_trait::async_trait;
use hutil::{Args, Rng, Sink};
use mithril_client::certificate_client::{CertificateAggregatorRequest, CertificateVerifier, CertificateVerifierCache, MemoryCertificateVerifierCache, MithrilCertificateVerifier};
use mithril_client::feedback::FeedbackSender;
use mithril_client::{MithrilCertificate, MithrilCertificateListItem, MithrilResult};
use mithril_common::certificate_chain::{CertificateRetrieverError, CertificateVerifierError};
use mithril_common::crypto_helper::{GenesisVerifier, ProtocolAggregateVerificationKeyForConcatenation};
use mithril_common::entities::{Certificate, CertificateSignature, Epoch, ProtocolMessagePartKey};
use mithril_common::test::builder::{CertificateChainBuilder, CertificateChainingMethod};
use std::collections::{BTreeMap, HashMap};
use std::sync::Arc;

struct Agg(HashMap<String, Certificate>);
#[async_trait]
impl CertificateAggregatorRequest for Agg {
    async fn list_latest(&self) -> MithrilResult<Vec<MithrilCertificateListItem>> { Ok(vec![]) }
    async fn get_by_hash(&self, hash: &str) -> MithrilResult<Option<MithrilCertificate>> {
        Ok(match self.0.get(hash) { Some(c) => Some(c.clone().try_into()?), None => None })
    }
}

/// one aggregator for several calls IN FLIGHT at the same time: per hash a list of answers given in turn (the last one
/// repeats), and one request (the `stall_nth`-th for `stall_on`) that is held until `release`
struct ScriptedAgg {
    answers: HashMap<String, Vec<Certificate>>,
    asked: std::sync::Mutex<HashMap<String, usize>>,
    stall_on: String,
    reached: Arc<tokio::sync::Notify>,
    release: Arc<tokio::sync::Notify>,
}
#[async_trait]
impl CertificateAggregatorRequest for ScriptedAgg {
    async fn list_latest(&self) -> MithrilResult<Vec<MithrilCertificateListItem>> { Ok(vec![]) }
    async fn get_by_hash(&self, hash: &str) -> MithrilResult<Option<MithrilCertificate>> {
        let nth = { let mut a = self.asked.lock().unwrap(); let n = a.entry(hash.to_string()).or_insert(0); *n += 1; *n - 1 };
        if hash == self.stall_on && nth == 0 {
            self.reached.notify_one();
            self.release.notified().await;
        }
        Ok(match self.answers.get(hash) { Some(l) if !l.is_empty() => Some(l[nth.min(l.len() - 1)].clone().try_into()?), _ => None })
    }
}

struct Ids(BTreeMap<String, usize>);
impl Ids {
    fn id(&mut self, s: &str) -> usize {
        let n = self.0.len() + 1;
        *self.0.entry(s.to_string()).or_insert(n)
    }
}

struct Bits { content: bool, signed: bool, epoch_part: bool, multisig: bool, genesis: bool }

fn bits(c: &Certificate, gv: &GenesisVerifier) -> Bits {
    let content = c.try_compute_hash().map(|h| h == c.hash).unwrap_or(false);
    let signed = c.protocol_message.compute_hash() == c.signed_message;
    let epoch_part = c.protocol_message.get_message_part(&ProtocolMessagePartKey::CurrentEpoch).map(|e| *e == c.epoch.to_string()).unwrap_or(false);
    let (multisig, genesis) = match &c.signature {
        CertificateSignature::MultiSignature(_, sig) => (
            sig.verify(c.signed_message.as_bytes(), &c.create_aggregate_verification_key(), &c.metadata.protocol_parameters.clone().into(), None, None).is_ok(),
            false,
        ),
        CertificateSignature::GenesisSignature(sig) => (false, gv.to_ed25519_verification_key().verify(c.signed_message.as_bytes(), sig).is_ok()),
    };
    Bits { content, signed, epoch_part, multisig, genesis }
}

fn rec(c: &Certificate, ids: &mut Ids, gv: &GenesisVerifier) -> String {
    let b = bits(c, gv);
    let next_avk = c.protocol_message.get_message_part(&ProtocolMessagePartKey::NextAggregateVerificationKey)
        .and_then(|s| ProtocolAggregateVerificationKeyForConcatenation::try_from(s.as_str()).ok())
        .map(|k| ids.id(&format!("avk:{}", k.to_json_hex().unwrap())));
    let next_params = c.protocol_message.get_message_part(&ProtocolMessagePartKey::NextProtocolParameters).map(|s| ids.id(&format!("pp:{}", s)));
    let o = |x: Option<usize>| x.map(|v| v.to_string()).unwrap_or("none".into());
    format!(
        "({},{},{},{},{},{},{},{},[{},{},{},{},{}])",
        ids.id(&format!("h:{}", c.hash)), ids.id(&format!("h:{}", c.previous_hash)), c.epoch.0,
        ids.id(&format!("avk:{}", c.aggregate_verification_key.to_json_hex().unwrap())),
        ids.id(&format!("pp:{}", c.metadata.protocol_parameters.compute_hash())),
        o(next_avk), o(next_params), c.is_genesis() as u8,
        b.content as u8, b.signed as u8, b.epoch_part as u8, b.multisig as u8, b.genesis as u8
    )
}

fn class(e: &anyhow::Error) -> &'static str {
    for cause in e.chain() {
        if let Some(v) = cause.downcast_ref::<CertificateVerifierError>() {
            return match v {
                CertificateVerifierError::VerifyMultiSignature(_) => "multiSig",
                CertificateVerifierError::CertificateGenesis(_) => "genesisSig",
                CertificateVerifierError::CertificateHashUnmatch => "hash",
                CertificateVerifierError::CertificateChainPreviousHashUnmatch => "prevHash",
                CertificateVerifierError::CertificateProtocolMessageUnmatch => "signedMsg",
                CertificateVerifierError::CertificateChainAVKUnmatch => "avk",
                CertificateVerifierError::CertificateChainProtocolParametersUnmatch => "params",
                CertificateVerifierError::CertificateEpochUnmatch => "epochPart",
                CertificateVerifierError::CertificateChainMissingEpoch => "missingEpoch",
                CertificateVerifierError::CertificateChainInfiniteLoop => "loop",
                _ => "other",
            };
        }
        if cause.downcast_ref::<CertificateRetrieverError>().is_some() { return "notFound"; }
    }
    let s = format!("{:?}", e);
    if s.contains("Can not retrieve previous certificate") { "notFound" }
    else if s.contains("genesis") { "genesisSig" }
    else { "other" }
}

/// the specification, walked on the served certificates (independent of the verifier)
fn spec_valid(start: &Certificate, served: &HashMap<String, Certificate>, gv: &GenesisVerifier, max: usize) -> Result<(), String> {
    let mut c = start.clone();
    for _ in 0..max {
        let b = bits(&c, gv);
        if !(b.content && b.signed && b.epoch_part) { return Err(format!("integrity of {}", c.hash)); }
        if c.is_genesis() {
            return if b.genesis { Ok(()) } else { Err("genesis signature".into()) };
        }
        if !b.multisig { return Err(format!("multi-signature of {}", c.hash)); }
        let p = served.get(&c.previous_hash).ok_or("missing parent")?;
        if p.hash != c.previous_hash { return Err("parent served under another hash".into()); }
        let same = p.epoch == c.epoch;
        let link = if same {
            same_key(&p.aggregate_verification_key, &c.aggregate_verification_key) && p.metadata.protocol_parameters == c.metadata.protocol_parameters
        } else if p.epoch.0 + 1 == c.epoch.0 {
            p.protocol_message.get_message_part(&ProtocolMessagePartKey::NextAggregateVerificationKey)
                .and_then(|s| ProtocolAggregateVerificationKeyForConcatenation::try_from(s.as_str()).ok())
                .map(|k| same_key(&k, &c.aggregate_verification_key)).unwrap_or(false)
                && p.protocol_message.get_message_part(&ProtocolMessagePartKey::NextProtocolParameters)
                    .map(|s| *s == c.metadata.protocol_parameters.compute_hash()).unwrap_or(false)
        } else { false };
        if !link { return Err(format!("link {} (epoch {}) -> {} (epoch {}) is neither same-epoch/same-key nor previous-epoch/committed-key", c.hash, c.epoch.0, p.hash, p.epoch.0)); }
        c = p.clone();
    }
    Err("no genesis within the step bound".into())
}

/// key identity on the canonical encoding, not through the code's own `PartialEq`
fn same_key(a: &ProtocolAggregateVerificationKeyForConcatenation, b: &ProtocolAggregateVerificationKeyForConcatenation) -> bool {
    match (a.to_json_hex(), b.to_json_hex()) { (Ok(x), Ok(y)) => x == y, _ => false }
}

fn rehash(c: &mut Certificate) { c.hash = c.try_compute_hash().unwrap(); }


fn client_class(e: &anyhow::Error) -> &'static str {
    let c = class(e);
    if c != "other" { return c; }
    let s = format!("{:?}", e);
    if s.contains("content does not match its hash") { "hash" }
    else if s.contains("not exist") || s.contains("not found") || s.contains("Not found") || s.contains("No certificate") { "notFound" }
    else { "other" }
}

fn main() {
    let args = Args::parse();
    let mut rng = Rng::new(args.seed);
    let mut sink = Sink::new(&args);
    let rt = tokio::runtime::Builder::new_multi_thread().worker_threads(2).enable_all().build().unwrap();
    let logger = slog::Logger::root(slog::Discard, slog::o!());
    let nchains = if args.thorough() { 60 } else { 6 };

    for ci in 0..nchains {
        let total = rng.range(5, if args.thorough() { 12 } else { 9 });
        let per_epoch = rng.range(1, 3);
        let f_const = |_e: Epoch| 3usize;
        let f_var = |e: Epoch| 2 + (*e as usize % 3);
        let constant = ci % 2 == 0;
        let method = if rng.bool() { CertificateChainingMethod::ToMasterCertificate } else { CertificateChainingMethod::Sequential };
        let chain = CertificateChainBuilder::new().with_total_certificates(total).with_certificates_per_epoch(per_epoch)
            .with_total_signers_per_epoch_processor(if constant { &f_const } else { &f_var })
            .with_certificate_chaining_method(method).build();
        let gv = chain.genesis_verifier.clone();
        let gvk_hex: String = gv.to_ed25519_verification_key().try_into().unwrap();
        let certs = chain.certificates_chained.clone();
        let honest: HashMap<String, Certificate> = certs.iter().map(|c| (c.hash.clone(), c.clone())).collect();
        let adv_signers = |e: Epoch| 6 + (*e as usize % 2);
        let adv = CertificateChainBuilder::new().with_total_certificates(total).with_certificates_per_epoch(per_epoch)
            .with_total_signers_per_epoch_processor(&adv_signers).build();

        // cache variants: cold, warmed by verifying the honest chain from some certificate
        let warm_from: Vec<Option<usize>> = vec![None, Some(0), Some(certs.len() / 2), Some(1.min(certs.len() - 1))];
        for wf in warm_from {
            let cache = Arc::new(MemoryCertificateVerifierCache::new(chrono::TimeDelta::hours(1)));
            if let Some(i) = wf {
                let v = MithrilCertificateVerifier::new(Arc::new(Agg(honest.clone())), &gvk_hex, FeedbackSender::new(&[]), Some(cache.clone()), logger.clone()).unwrap();
                let mc: MithrilCertificate = certs[i].clone().try_into().unwrap();
                let _ = rt.block_on(v.verify_chain(&mc));
            }
            // the cache as learnt so far, over every hash we may ever ask about
            let mut run = |sink: &mut Sink, tag: &str, start: &Certificate, served: &HashMap<String, Certificate>| {
                if !sink.wanted() { sink.skip(); return; }
                // snapshot the cache (it is extended by the run itself)
                let mut snapshot: Vec<(String, String)> = vec![];
                let mut keys: Vec<String> = served.keys().cloned().collect();
                keys.extend(honest.keys().cloned());
                keys.push(start.hash.clone());
                keys.sort(); keys.dedup();
                for k in &keys { if let Ok(Some(p)) = rt.block_on(cache.get_previous_hash(k)) { snapshot.push((k.clone(), p)); } }
                // run on a COPY of the cache so that one case does not warm the next
                let case_cache = Arc::new(MemoryCertificateVerifierCache::new(chrono::TimeDelta::hours(1)));
                for (k, p) in &snapshot { rt.block_on(case_cache.store_validated_certificate(k, p)).unwrap(); }
                let v = MithrilCertificateVerifier::new(Arc::new(Agg(served.clone())), &gvk_hex, FeedbackSender::new(&[]), Some(case_cache.clone()), logger.clone()).unwrap();
                let mc: MithrilCertificate = match start.clone().try_into() { Ok(m) => m, Err(_) => { sink.skip(); return; } };
                let out = match rt.block_on(v.verify_chain(&mc)) { Ok(()) => "ok".to_string(), Err(e) => format!("err {}", client_class(&e)) };
                let mut ids = Ids(BTreeMap::new());
                let mut skeys: Vec<&String> = served.keys().collect();
                skeys.sort();
                let served_line = skeys.iter().map(|k| format!("({},{})", ids.id(&format!("h:{}", k)), rec(&served[*k], &mut ids, &gv))).collect::<Vec<_>>().join(",");
                let start_line = rec(start, &mut ids, &gv);
                let cache_line = snapshot.iter().map(|(k, p)| format!("({},{})", ids.id(&format!("h:{}", k)), ids.id(&format!("h:{}", p)))).collect::<Vec<_>>().join(",");
                let req = format!("c03.client fuel={} start={} served=[{}] cache=[{}]", 2 * served.len() + 6, start_line, served_line, cache_line);
                let i = sink.case(tag, &req, &out);
                if out == "ok" {
                    // S: valid when the cached pairs are resolved against the honest chain they were learnt from
                    let mut world = served.clone();
                    for (k, _) in &snapshot { if let Some(h) = honest.get(k) { world.insert(k.clone(), h.clone()); } }
                    // … and so are the certificates the pairs point to: each was validated, with everything below it, when its pair was learnt
                    for (_, p) in &snapshot { if let Some(h) = honest.get(p) { world.insert(p.clone(), h.clone()); } }
                    if let Err(why) = spec_valid(start, &world, &gv, 2 * served.len() + 6) {
                        sink.sfail(i, "invalid-chain", &format!("client accepted although the certificates are not a valid chain: {}", why), &req);
                    }
                }
            };
            // honest from several starts
            for c in certs.iter().take(4) { run(&mut sink, "honest", c, &honest); }
            // adversarial answers around every position
            for (pos, c) in certs.iter().enumerate() {
                if c.is_genesis() { continue; }
                // adversary certificate (own AVK) chained to an honest (possibly cached) hash, fake parent served under it
                if let Some(a) = adv.certificates_chained.iter().find(|a| a.epoch == c.epoch && !a.is_genesis()) {
                    if let Some(ap) = adv.certificates_chained.iter().find(|p| p.hash == a.previous_hash) {
                        let mut y = a.clone();
                        y.previous_hash = c.previous_hash.clone();
                        rehash(&mut y);
                        let mut fake = ap.clone();
                        fake.hash = c.previous_hash.clone();
                        let mut s = honest.clone();
                        for ac in &adv.certificates_chained { s.entry(ac.hash.clone()).or_insert(ac.clone()); }
                        s.insert(c.previous_hash.clone(), fake);
                        s.insert(y.hash.clone(), y.clone());
                        run(&mut sink, "adversary-fake-parent", &y, &s);
                        let mut s2 = honest.clone();
                        s2.insert(y.hash.clone(), y.clone());
                        run(&mut sink, "adversary-spliced", &y, &s2);
                    }
                }
                // one field altered without rehash, reachable from the latest certificate
                if pos < 4 || rng.chance(1, 3) {
                    let mut x = c.clone();
                    match rng.below(4) { 0 => x.epoch = Epoch(x.epoch.0 + 1), 1 => x.signed_message.push('0'), 2 => x.metadata.protocol_parameters.k += 1, _ => { x.protocol_message.set_message_part(ProtocolMessagePartKey::SnapshotDigest, "tampered".into()); } }
                    let mut s = honest.clone();
                    s.insert(c.hash.clone(), x);
                    run(&mut sink, "altered-no-rehash", &certs[0], &s);
                }
                // link re-targeted with rehash (the multi-signature does not cover previous_hash)
                let t = &certs[rng.below(certs.len() as u64) as usize];
                if t.hash != c.hash && t.hash != c.previous_hash {
                    let mut y = c.clone();
                    y.previous_hash = t.hash.clone();
                    rehash(&mut y);
                    let mut s = honest.clone();
                    s.insert(y.hash.clone(), y.clone());
                    run(&mut sink, "relinked", &y, &s);
                }
                // parent dropped / wrong certificate for the parent's hash / forged hash field
                let mut s = honest.clone();
                s.remove(&c.previous_hash);
                run(&mut sink, "parent-dropped", &certs[0], &s);
                let other = &certs[rng.below(certs.len() as u64) as usize];
                if other.hash != c.previous_hash {
                    let mut forged = other.clone();
                    forged.hash = c.previous_hash.clone();
                    let mut s = honest.clone();
                    s.insert(c.previous_hash.clone(), forged);
                    run(&mut sink, "forged-hash-field", &certs[0], &s);
                }
            }
            // the certificate downloaded AFTER a cache hit (`ToDownload`) is not compared with the requested hash: the request for
            // the genesis hash (the first one the warm walk makes) is answered with the head of ANOTHER valid chain, served whole
            {
                let mut s = honest.clone();
                for ac in &adv.certificates_chained { s.entry(ac.hash.clone()).or_insert(ac.clone()); }
                s.insert(chain.genesis_certificate().hash.clone(), adv.certificates_chained[0].clone());
                run(&mut sink, "genesis-request-answered-with-other-chain", &certs[0], &s);
            }
            // ======== sessions: several verify_chain calls on ONE client / ONE cache, the provider answering
            // differently each time (K: every result and the cache afterwards; S: every accepted start is a valid
            // chain over the hash-consistent certificates ever served) =========================================
            {
                // material: the first certificate of an epoch whose parent P is in the previous epoch; adversary F
                // (own key) re-linked to P; F2 of the next adversary epoch linked to F; P' = P with the adversary's
                // next key and the hash NOT recomputed
                let mut poison: Option<(Certificate, Certificate, Certificate, Certificate)> = None;
                for c in certs.iter().filter(|c| !c.is_genesis() && certs.iter().any(|p| p.hash == c.previous_hash && p.epoch != c.epoch && !p.is_genesis())) {
                    if poison.is_some() { break; }
                    let p_cert = honest[&c.previous_hash].clone();
                    let advs = &adv.certificates_chained;
                    for a in advs.iter().filter(|a| a.epoch == c.epoch && !a.is_genesis()) {
                        if let Some(a2) = advs.iter().find(|x| x.previous_hash == a.hash && x.epoch != a.epoch) {
                            let mut f = a.clone(); f.previous_hash = p_cert.hash.clone(); rehash(&mut f);
                            let mut f2 = a2.clone(); f2.previous_hash = f.hash.clone(); rehash(&mut f2);
                            let mut p_alt = p_cert.clone();
                            p_alt.protocol_message.set_message_part(ProtocolMessagePartKey::NextAggregateVerificationKey, f.aggregate_verification_key.to_json_hex().unwrap());
                            poison = Some((f, f2, p_alt, p_cert.clone()));
                            break;
                        }
                    }
                }
                type Call = (&'static str, Certificate, HashMap<String, Certificate>);
                let mut sessions: Vec<(&'static str, Vec<Call>, bool)> = vec![]; // (tag, calls, cache entries expire at once)
                if let Some((f, f2, p_alt, p_cert)) = &poison {
                    let mut s1 = honest.clone(); s1.insert(p_cert.hash.clone(), p_alt.clone()); s1.insert(f.hash.clone(), f.clone());
                    let mut s2 = honest.clone(); s2.insert(f.hash.clone(), f.clone()); s2.insert(f2.hash.clone(), f2.clone());
                    sessions.push(("session-poison", vec![("rejected-head", f.clone(), s1.clone()), ("chained-to-head", f2.clone(), s2.clone())], false));
                    sessions.push(("session-poison-then-honest", vec![("rejected-head", f.clone(), s1.clone()), ("honest", certs[0].clone(), honest.clone()), ("chained-to-head", f2.clone(), s2.clone())], false));
                    sessions.push(("session-honest-poison-direct", vec![("honest", certs[0].clone(), honest.clone()), ("rejected-head", f.clone(), s1), ("head-again", f.clone(), s2.clone()), ("chained-to-head", f2.clone(), s2)], false));
                }
                // two calls IN FLIGHT on ONE client: the provider holds back one answer of the call that is going to fail
                // (right after the adversary head has been validated against the altered boundary certificate and
                // recorded), and answers a second call — the adversary certificate chained to that head — meanwhile.
                // Whatever the schedule, an accepted start must be validly chained to genesis.
                if let (Some((f, f2, p_alt, p_cert)), true) = (&poison, ci == 0 && wf.is_none()) {
                    let mut answers: HashMap<String, Vec<Certificate>> = honest.iter().map(|(k, v)| (k.clone(), vec![v.clone()])).collect();
                    answers.insert(p_cert.hash.clone(), vec![p_alt.clone(), p_cert.clone()]); // call 1 gets the altered copy, later requests the genuine one
                    answers.insert(f.hash.clone(), vec![f.clone()]);
                    answers.insert(f2.hash.clone(), vec![f2.clone()]);
                    let reached = Arc::new(tokio::sync::Notify::new());
                    let release = Arc::new(tokio::sync::Notify::new());
                    let agg = ScriptedAgg { answers, asked: std::sync::Mutex::new(HashMap::new()), stall_on: p_alt.previous_hash.clone(), reached: reached.clone(), release: release.clone() };
                    let conc_cache = Arc::new(MemoryCertificateVerifierCache::new(chrono::TimeDelta::hours(1)));
                    let v = Arc::new(MithrilCertificateVerifier::new(Arc::new(agg), &gvk_hex, FeedbackSender::new(&[]), Some(conc_cache.clone()), logger.clone()).unwrap());
                    let m1: MithrilCertificate = f.clone().try_into().unwrap();
                    let m2: MithrilCertificate = f2.clone().try_into().unwrap();
                    let (r1, r2, waited) = rt.block_on(async {
                        let v1 = v.clone();
                        let h1 = tokio::spawn(async move { v1.verify_chain(&m1).await.is_ok() });
                        let got = tokio::time::timeout(std::time::Duration::from_secs(20), reached.notified()).await.is_ok();
                        let v2 = v.clone();
                        let mut h2 = tokio::spawn(async move { v2.verify_chain(&m2).await.is_ok() });
                        // call 2 either finishes while call 1 is held (it ran concurrently) or waits for it: release call 1 after a while
                        let early = tokio::time::timeout(std::time::Duration::from_millis(1500), &mut h2).await;
                        release.notify_one();
                        let r2 = match early { Ok(r) => r.unwrap_or(false), Err(_) => h2.await.unwrap_or(false) };
                        let r1 = h1.await.unwrap_or(false);
                        (r1, r2, got)
                    });
                    let mut world: HashMap<String, Certificate> = honest.clone();
                    world.insert(f.hash.clone(), f.clone());
                    world.insert(f2.hash.clone(), f2.clone());
                    let bad2 = r2 && spec_valid(f2, &world, &gv, 2 * world.len() + 6).is_err();
                    let bad1 = r1 && spec_valid(f, &world, &gv, 2 * world.len() + 6).is_err();
                    sink.witness("C03-client-concurrent-validations", bad1 || bad2, &format!("one client, cold cache; call 1 (adversary head F over an altered copy of the boundary certificate, one aggregator answer held back: reached={}) -> {}; call 2 started meanwhile (adversary certificate chained to F, genuine answers only) -> {}", waited, if r1 { "ACCEPTED" } else { "rejected" }, if r2 { "ACCEPTED" } else { "rejected" }));
                    if bad1 || bad2 {
                        let i = sink.next_index();
                        sink.sfail(i, "invalid-chain-concurrent", &format!("two verify_chain calls in flight on one client: call {} accepted a certificate that is not validly chained to genesis", if bad2 { 2 } else { 1 }), "concurrent session: F over P' (answer for P'.previous held back) || F2 chained to F");
                    }
                }
                // expiry: after an honest validation, the same chain with the certificate just above the genesis one withheld. A live
                // cache skips it (accepted); a cache whose entries expire at once has to download it (rejected).
                {
                    let mut s = honest.clone();
                    s.remove(&certs[certs.len() - 2].hash);
                    let calls: Vec<Call> = vec![("honest", certs[0].clone(), honest.clone()), ("withheld-below-the-cache", certs[0].clone(), s)];
                    sessions.push(("session-live-cache", calls.clone(), false));
                    sessions.push(("session-expired-cache", calls, true));
                }
                // random sessions of 2-4 calls drawn from honest starts and single tamperings
                for _ in 0..(if args.thorough() { 12 } else { 4 }) {
                    let mut calls: Vec<Call> = vec![];
                    for _ in 0..rng.range(2, 4) {
                        let c = &certs[rng.below(certs.len() as u64) as usize];
                        match rng.below(5) {
                            0 | 1 => calls.push(("honest", c.clone(), honest.clone())),
                            2 => { let mut x = c.clone(); x.signed_message.push('0'); let mut s = honest.clone(); s.insert(c.hash.clone(), x); calls.push(("altered-no-rehash", certs[0].clone(), s)); }
                            3 => { let mut s = honest.clone(); if !c.is_genesis() { s.remove(&c.previous_hash); } calls.push(("parent-dropped", certs[0].clone(), s)); }
                            _ => {
                                if let Some((f, f2, p_alt, p_cert)) = &poison {
                                    let mut s = honest.clone(); s.insert(f.hash.clone(), f.clone()); s.insert(f2.hash.clone(), f2.clone());
                                    if rng.bool() { s.insert(p_cert.hash.clone(), p_alt.clone()); }
                                    calls.push(("adversary", if rng.bool() { f.clone() } else { f2.clone() }, s));
                                } else { calls.push(("honest", c.clone(), honest.clone())); }
                            }
                        }
                    }
                    let expired = rng.chance(1, 4);
                    sessions.push((if expired { "session-random-expired-cache" } else { "session-random" }, calls, expired));
                }
                for (tag, calls, expired) in sessions {
                    if !sink.wanted() { sink.skip(); continue; }
                    // the session starts from a copy of the cache as warmed so far
                    let mut all_keys: Vec<String> = honest.keys().cloned().collect();
                    for (_, st, sv) in &calls { all_keys.push(st.hash.clone()); all_keys.extend(sv.keys().cloned()); }
                    all_keys.sort(); all_keys.dedup();
                    let sess_cache = Arc::new(MemoryCertificateVerifierCache::new(if expired { chrono::TimeDelta::seconds(-1) } else { chrono::TimeDelta::hours(1) }));
                    let mut snapshot: Vec<(String, String)> = vec![];
                    for k in &all_keys { if let Ok(Some(p)) = rt.block_on(cache.get_previous_hash(k)) { rt.block_on(sess_cache.store_validated_certificate(k, &p)).unwrap(); snapshot.push((k.clone(), p)); } }
                    let mut ids = Ids(BTreeMap::new());
                    let mut outs: Vec<String> = vec![];
                    let mut call_lines: Vec<String> = vec![];
                    // every hash-consistent certificate ever served in the session (unique per hash, by collision freeness)
                    let mut world: HashMap<String, Certificate> = honest.clone();
                    let mut fails: Vec<(String, String)> = vec![];
                    for (ctag, start, served) in &calls {
                        for c in served.values().chain(std::iter::once(start)) {
                            if c.try_compute_hash().map(|h| h == c.hash).unwrap_or(false) { world.entry(c.hash.clone()).or_insert(c.clone()); }
                        }
                        let v = MithrilCertificateVerifier::new(Arc::new(Agg(served.clone())), &gvk_hex, FeedbackSender::new(&[]), Some(sess_cache.clone()), logger.clone()).unwrap();
                        let out = match MithrilCertificate::try_from(start.clone()) {
                            Ok(mc) => match rt.block_on(v.verify_chain(&mc)) { Ok(()) => "ok".to_string(), Err(e) => format!("err {}", client_class(&e)) },
                            Err(_) => "err other".into(),
                        };
                        if out == "ok" {
                            if let Err(why) = spec_valid(start, &world, &gv, 2 * world.len() + 6) {
                                fails.push(("invalid-chain".into(), format!("call '{}' of the session accepted a certificate that is not validly chained to genesis: {}", ctag, why)));
                            }
                        }
                        outs.push(out);
                        let mut skeys: Vec<&String> = served.keys().collect();
                        skeys.sort();
                        let served_line = skeys.iter().map(|k| format!("({},{})", ids.id(&format!("h:{}", k)), rec(&served[*k], &mut ids, &gv))).collect::<Vec<_>>().join(",");
                        call_lines.push(format!("({},{},[{}])", 2 * served.len() + 6, rec(start, &mut ids, &gv), served_line));
                    }
                    let mut dump: Vec<String> = vec![];
                    let key_ids: Vec<usize> = all_keys.iter().map(|k| ids.id(&format!("h:{}", k))).collect();
                    for (k, kid) in all_keys.iter().zip(key_ids.iter()) {
                        if let Ok(Some(p)) = rt.block_on(sess_cache.get_previous_hash(k)) { dump.push(format!("({},{})", kid, ids.id(&format!("h:{}", p)))); }
                    }
                    let cache_line = snapshot.iter().map(|(k, p)| format!("({},{})", ids.id(&format!("h:{}", k)), ids.id(&format!("h:{}", p)))).collect::<Vec<_>>().join(",");
                    let req = format!("c03.session cache=[{}] keys={} calls=[{}]{}", cache_line, hutil::list(&key_ids.iter().map(|x| *x as u64).collect::<Vec<_>>()), call_lines.join(","), if expired { " expired=1" } else { "" });
                    let i = sink.case(tag, &req, &format!("{} | {}", outs.join(";"), dump.join(",")));
                    for (c, w) in fails { sink.sfail(i, &c, &w, &req); }
                    // the repaired finding, replayed on the real client every run
                    if tag == "session-poison" && ci == 0 && wf.is_none() {
                        sink.witness("C03-client-cache-poisoning", outs.last().map(|o| o == "ok").unwrap_or(false), &format!("cold cache; call 1 (adversary head over an altered copy of the boundary certificate) -> {}; call 2 (adversary certificate chained to that head, genuine answers only) -> {}", outs[0], outs[1]));
                    }
                }
            }
            // fixed finding witness on the warm cache
            if ci == 0 && wf == Some(0) {
                let c = certs.iter().find(|c| !c.is_genesis() && certs.iter().any(|p| p.hash == c.previous_hash && p.epoch != c.epoch));
                if let (Some(c), Some(a)) = (c, adv.certificates_chained.iter().find(|a| !a.is_genesis())) {
                    if let Some(ap) = adv.certificates_chained.iter().find(|p| p.hash == a.previous_hash) {
                        let mut y = a.clone();
                        y.epoch = c.epoch;
                        y.previous_hash = c.previous_hash.clone();
                        rehash(&mut y);
                        let mut fake = ap.clone();
                        fake.hash = c.previous_hash.clone();
                        let mut s = honest.clone();
                        s.insert(c.previous_hash.clone(), fake);
                        s.insert(y.hash.clone(), y.clone());
                        let v = MithrilCertificateVerifier::new(Arc::new(Agg(s)), &gvk_hex, FeedbackSender::new(&[]), Some(cache.clone()), logger.clone()).unwrap();
                        let accepted = match MithrilCertificate::try_from(y) { Ok(mc) => rt.block_on(v.verify_chain(&mc)).is_ok(), Err(_) => false };
                        sink.witness("C03-client-cache", accepted, "adversary certificate with a fake parent served under a cached honest hash");
                    }
                }
            }
        }
    }
    sink.finish();
}
