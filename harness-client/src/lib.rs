//! Helpers shared by the C10 and C19 harnesses (mithril-client).
use sha2::{Digest, Sha256};
use std::collections::BTreeMap;
use std::path::{Path, PathBuf};

pub fn sha256_hex(data: &[u8]) -> String {
    hex::encode(Sha256::digest(data))
}

/// Private scratch area of this process: `$TMPDIR/<prefix>-<pid>`; TMPDIR is redirected into it so
/// that everything the real code writes to "the temporary directory" is removed with it.
pub struct Scratch {
    pub base: PathBuf,
}

impl Scratch {
    pub fn new(prefix: &str) -> Scratch {
        let base = std::env::temp_dir().join(format!("{}-{}", prefix, std::process::id()));
        let _ = std::fs::remove_dir_all(&base);
        std::fs::create_dir_all(&base).unwrap();
        // everything below (the client's own temp dirs, DummyCardanoDbBuilder) follows TMPDIR
        std::env::set_var("TMPDIR", &base);
        Scratch { base }
    }
    pub fn case_dir(&self, idx: usize) -> PathBuf {
        let d = self.base.join(format!("case{}", idx));
        let _ = remove_all(&d);
        std::fs::create_dir_all(&d).unwrap();
        d
    }
}

impl Drop for Scratch {
    fn drop(&mut self) {
        let _ = remove_all(&self.base);
    }
}

/// remove a tree even if some directories were made read-only
pub fn remove_all(p: &Path) -> std::io::Result<()> {
    use std::os::unix::fs::PermissionsExt;
    fn fix(p: &Path) {
        if let Ok(md) = std::fs::symlink_metadata(p) {
            if md.is_dir() {
                let _ = std::fs::set_permissions(p, std::fs::Permissions::from_mode(0o755));
                if let Ok(rd) = std::fs::read_dir(p) {
                    for e in rd.flatten() {
                        fix(&e.path());
                    }
                }
            }
        }
    }
    if std::fs::symlink_metadata(p).is_err() {
        return Ok(());
    }
    fix(p);
    if std::fs::symlink_metadata(p).map(|m| m.is_dir()).unwrap_or(false) {
        std::fs::remove_dir_all(p)
    } else {
        std::fs::remove_file(p)
    }
}

/// interning of long values (digests, contents) as short tokens `h0`, `h1`, … per case
#[derive(Default)]
pub struct Ids {
    map: BTreeMap<String, usize>,
}

impl Ids {
    pub fn id(&mut self, v: &str) -> String {
        let n = self.map.len();
        format!("h{}", *self.map.entry(v.to_string()).or_insert(n))
    }
}

/// names are sent as they are; the generators only use characters that are no protocol delimiters
pub fn name_ok(n: &str) -> bool {
    !n.is_empty() && !n.chars().any(|c| " ,[]()=\t\n".contains(c))
}
