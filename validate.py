#!/usr/bin/env python3
import json, glob, jsonschema, sys
jsonschema.validate(json.load(open('/verif/MANIFEST.json')), json.load(open('/root/.vp/MANIFEST.schema.json')))
es = json.load(open('/root/.vp/EVIDENCE.schema.json'))
for f in sorted(glob.glob('/verif/evidence/*.json')):
    jsonschema.validate(json.load(open(f)), es)
    print('ok', f)
print('MANIFEST valid')
