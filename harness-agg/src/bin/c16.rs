use hagg::walk::{Gen, HistoryCfg};
use hagg::*;

#[tokio::main(flavor = "multi_thread", worker_threads = 4)]
async fn main() {
    silence_stdout();
    install_panic_hook();
    let cfg = HistoryCfg { n_signers: 3, k: 5, m: 100, events: 0, with_csd: false, restarts: false, jumps: false, sparse_regs: false };
    let mut g = Gen::new("c16_probe", &cfg).await;
    g.w.tick().await;
    for p in 0..3 { g.w.register(p, 2).await; }
    g.w.epoch_up(1).await;
    for _ in 0..3 { g.w.tick().await; }
    let ent = g.w.last_dump.oms[0].ent;
    // B = 1 signs under own label
    eprintln!("B own: {:?}", g.sign_and_submit_as(ent, 1, 1, 1, false, ent).await);
    // copy of B's signature under label A = 0
    eprintln!("B as A: {:?}", g.sign_and_submit_as(ent, 1, 0, 1, false, ent).await);
    let d = g.w.dump();
    for r in &d.sigs { eprintln!("row party={} sigma={}", g.w.party_ord(&r.party), &r.signature[..24]); }
    let (ok, _) = g.w.tick().await;
    eprintln!("tick ok={} certs={}", ok, g.w.last_cert_count);
    eprintln!("A own: {:?}", g.sign_and_submit_as(ent, 0, 0, 1, false, ent).await);
    let (ok, _) = g.w.tick().await;
    eprintln!("tick ok={} certs={}", ok, g.w.last_cert_count);
    // unregistered label
    g.w.tick().await;
    let ent2 = g.w.last_dump.oms.last().unwrap().ent;
    eprintln!("C as nobody: {:?}", g.sign_and_submit_as(ent2, 2, 3 + 7, 1, false, ent2).await);
    for o in &g.w.obs { eprintln!("{}", o); }
}
