//! C16 harness: rounds with 2–6 fixture signers; every kind of (label, signature) pair — own/own,
//! a copy of another registered party's signature under the own label, under a party id nobody
//! registered, with an altered `won_indexes` list, with a sub-list of the lottery indices inside the
//! signature — submitted through the aggregator's certifier service directly
//! (`BufferedCertifierService` over `MithrilCertifierService`: the entrance shared by the HTTP route
//! and the message-queue consumer, which the test extensions do not expose as such) and through the
//! buffered path (authenticated, before the open message exists, then hand-over), in all orders for
//! up to 4 submissions per round.
//! K: result class of every submission, the `single_signature` table (entity, label, identity of the
//! stored signature value) and the signer list of the certificate that results, against the Lean model.
//! S on the real table: a row stored under a label verifies with the key that label registered; no
//! signature value is stored under two labels; a submission under one label leaves every other
//! label's row untouched; when the rows whose own key verifies carry at least k distinct lottery
//! indices the round is certified; the certificate's signer list names only parties whose own key
//! produced a valid signature. The relabel witness of the repaired defect is replayed every run.
use hagg::walk::{Gen, HistoryCfg};
use hagg::*;
use mithril_common::crypto_helper::ProtocolSingleSignature;
use mithril_common::entities::SingleSignature;
use mithril_common::protocol::ToMessage;

const UNREG: usize = 1000;

#[derive(Clone, Copy, Debug, PartialEq)]
enum Var {
    Plain,
    /// `won_indexes` (the list next to the signature) altered
    List,
    /// a sub-list of the lottery indices inside the signature
    Inner,
    /// a signature the signer made for ANOTHER message (valid for that one, announced with that one)
    OtherMsg,
}

/// how a submission reaches the certifier
#[derive(Clone, Copy, Debug, PartialEq)]
enum Mode {
    /// straight to the certifier with the authentication flag chosen here
    Direct(bool),
    /// authenticated, before the open message exists (buffered, handed over later)
    Buffered,
    /// as the HTTP route does: the REAL `SingleSignatureAuthenticator` judges it against the signed message the
    /// submitter announces; rejected ones never reach the certifier
    Http,
}

#[derive(Clone, Copy, Debug)]
struct Sub {
    label: usize,
    signer: usize,
    var: Var,
}

fn sub(label: usize, signer: usize, var: Var) -> Sub {
    Sub { label, signer, var }
}

/// keep every second lottery index inside the STM signature (it still verifies: each kept index is won)
fn inner_subset(sig: &SingleSignature) -> Option<SingleSignature> {
    let hex = sig.signature.to_json_hex().ok()?;
    let bytes: Vec<u8> = (0..hex.len()).step_by(2).map(|i| u8::from_str_radix(&hex[i..i + 2], 16).unwrap()).collect();
    let mut v: serde_json::Value = serde_json::from_slice(&bytes).ok()?;
    let idx = v.get("indexes")?.as_array()?.clone();
    if idx.len() < 2 {
        return None;
    }
    let kept: Vec<serde_json::Value> = idx.iter().step_by(2).cloned().collect();
    v["indexes"] = serde_json::Value::Array(kept);
    let out = serde_json::to_vec(&v).ok()?;
    let hex2: String = out.iter().map(|b| format!("{:02x}", b)).collect();
    let ps: ProtocolSingleSignature = hex2.try_into().ok()?;
    let mut s = sig.clone();
    s.won_indexes = ps.get_concatenation_signature_indices();
    s.signature = ps;
    Some(s)
}

struct Round<'a> {
    g: &'a mut Gen,
    fails: Vec<(String, String)>,
}

impl<'a> Round<'a> {
    /// build and submit one (label, signature) pair for `ent`; checks that no other label's row changes
    async fn submit(&mut self, ent: usize, s: &Sub, mode: Mode) -> Option<String> {
        let ep = self.g.w.entities[ent].get_epoch_when_signed_entity_type_is_signed().0;
        let msg = self.g.w.message_for(ent).await?;
        let mut announced = msg.clone();
        if s.var == Var::OtherMsg {
            announced.set_message_part(mithril_common::entities::ProtocolMessagePartKey::SnapshotDigest, "another-message".into());
        }
        let mut sig = self.g.w.make_signature(s.signer, ep - 1, &announced)?;
        match s.var {
            Var::Plain | Var::OtherMsg => {}
            Var::List => {
                sig.won_indexes = sig.won_indexes.iter().skip(1).map(|i| i + 1).collect();
            }
            Var::Inner => {
                sig = inner_subset(&sig)?;
            }
        }
        let label = if s.label == UNREG { self.g.w.n() + 7 } else { s.label };
        let auth = match mode {
            Mode::Direct(a) => a,
            Mode::Buffered => true,
            Mode::Http => {
                let mut probe = sig.clone();
                probe.party_id = if label < self.g.w.n() { self.g.w.party_ids[label].clone() } else { "pool1unregisteredpartyofnobody".to_string() };
                let authenticator = self.g.w.tester.dependencies.verif_single_signature_authenticator();
                let _ = authenticator.authenticate(&mut probe, &announced.compute_hash()).await;
                let ok = probe.is_authenticated();
                self.g.w.tags.insert(format!("http-{}-{}", if s.label == s.signer { "own" } else if s.label == UNREG { "unregistered" } else { "relabel" }, if ok { "authenticated" } else { "rejected" }));
                if ok && s.label != s.signer {
                    self.fails.push(("authenticated-relabel".into(), format!("the authenticator accepted party {}'s signature under the label {}", s.signer, s.label)));
                }
                if !ok && s.label == s.signer && s.var != Var::List {
                    // (an altered `won_indexes` list is not looked at by the authenticator either way)
                    self.fails.push(("own-signature-not-authenticated".into(), format!("the authenticator rejected party {}'s own valid signature for the message it announces", s.signer)));
                }
                if !ok {
                    return None; // 400: never reaches the certifier
                }
                true
            }
        };
        let chain_epoch = self.g.w.time_point().await.epoch.0;
        let f = self.g.w.facts(ent, label, s.signer, &sig, &msg, auth, chain_epoch);
        if label == s.signer && f.ok.contains(&ep) {
            self.g.w.own_valid.entry(ent).or_default().insert(s.signer);
        }
        let before = self.g.w.dump();
        let o = self.g.w.submit(&f, &sig).await;
        let after = self.g.w.last_dump.clone();
        let label_id = if label < self.g.w.n() { self.g.w.party_ids[label].clone() } else { String::from("pool1unregisteredpartyofnobody") };
        for r in &before.sigs {
            if r.party != label_id && !after.sigs.iter().any(|x| x.om == r.om && x.party == r.party && x.signature == r.signature && x.lottery == r.lottery) {
                self.fails.push(("other-row-changed".into(), format!("a submission under label {} changed or removed the row of party {}", label, self.g.w.party_ord(&r.party))));
            }
        }
        self.g.w.tags.insert(format!("sub-{}-{}-{}", if s.label == s.signer { "own" } else if s.label == UNREG { "unregistered" } else { "relabel" }, match s.var { Var::Plain => "plain", Var::List => "list", Var::Inner => "inner", Var::OtherMsg => "othermsg" }, o));
        Some(o)
    }

    /// S clauses evaluated on the rows of the open message of `ent`; returns whether the rows whose own key verifies reach the quorum
    fn check_rows(&mut self, ent: usize) -> bool {
        let d = self.g.w.last_dump.clone();
        let Some(om) = d.oms.iter().find(|o| o.ent == ent) else { return false };
        let rows: Vec<SigRow> = d.sigs.iter().filter(|r| r.om == om.id).cloned().collect();
        let msg = self.g.w.msg_of_ent.get(&ent).cloned().unwrap();
        let stm_params: mithril_common::crypto_helper::ProtocolParameters = self.g.w.params.clone().into();
        let all = self.g.w.fixture.signers_fixture();
        let avk = self.g.w.key_crypto(om.epoch - 1).map(|k| k.multi_signer.compute_aggregate_verification_key());
        let mut indices = std::collections::BTreeSet::new();
        for r in &rows {
            let p = self.g.w.party_ord(&r.party);
            let ps: Option<ProtocolSingleSignature> = r.signature.clone().try_into().ok();
            let verdict = match (&ps, &avk, p < self.g.w.n()) {
                (Some(ps), Some(avk), true) => {
                    let own = &all[p].signer_with_stake;
                    let stm: mithril_common::crypto_helper::ProtocolSingleSignature = ps.clone();
                    let stm_sig = SingleSignature::new(r.party.clone(), stm, vec![]).to_protocol_signature();
                    let ok = stm_sig.verify(&stm_params, &own.verification_key_for_concatenation.vk, &own.stake, avk, msg.to_message().as_bytes()).is_ok();
                    if ok {
                        for i in stm_sig.get_concatenation_signature_indices() {
                            indices.insert(i);
                        }
                    }
                    ok
                }
                _ => false,
            };
            if !verdict {
                self.fails.push(("attribution".into(), format!("entity {}: the signature stored under party {} does not verify with the key that party registered", ent, p)));
            }
        }
        for (i, a) in rows.iter().enumerate() {
            for b in rows.iter().skip(i + 1) {
                if a.signature == b.signature {
                    self.fails.push(("two-labels".into(), format!("entity {}: one signature value is stored under parties {} and {}", ent, self.g.w.party_ord(&a.party), self.g.w.party_ord(&b.party))));
                }
            }
        }
        indices.len() as u64 >= self.g.w.params.k
    }
}

/// the submission sets of the corpus (A = 0, B = 1, C = 2 when there are three signers)
fn sets(n: usize) -> Vec<Vec<Sub>> {
    use Var::*;
    let (a, b) = (0usize, 1usize);
    let c = if n >= 3 { 2 } else { 0 };
    let mut v = vec![
        vec![sub(b, b, Plain), sub(a, b, Plain)],                                         // the witness: copy of B under A
        vec![sub(a, a, Plain), sub(b, b, Plain), sub(a, b, Plain)],
        vec![sub(a, b, Plain), sub(a, a, Plain)],
        vec![sub(a, a, Plain), sub(a, b, Plain), sub(b, b, Plain), sub(b, a, Plain)],
        vec![sub(UNREG, b, Plain), sub(b, b, Plain)],
        vec![sub(a, a, List), sub(b, b, Plain)],
        vec![sub(a, b, List), sub(b, b, Plain), sub(a, a, Plain)],
        vec![sub(a, a, Inner), sub(a, a, Plain)],
        vec![sub(a, b, Inner), sub(b, b, Plain)],
        vec![sub(a, a, Plain), sub(b, b, Plain), sub(a, b, Plain), sub(UNREG, a, Plain)],
        vec![sub(a, a, Plain), sub(a, a, Inner), sub(b, b, Inner)],
        vec![sub(a, a, OtherMsg), sub(b, b, Plain)],
        vec![sub(b, b, Plain), sub(a, b, OtherMsg), sub(a, a, Plain), sub(b, b, OtherMsg)],
    ];
    if n >= 3 {
        v.push(vec![sub(a, c, Plain), sub(b, c, Plain), sub(c, c, Plain)]);
        v.push(vec![sub(c, a, Plain), sub(c, b, Plain), sub(c, c, Plain), sub(a, a, Plain)]);
    }
    v
}

fn permutations(n: usize, cap: usize, rng: &mut Rng) -> Vec<Vec<usize>> {
    let mut out = vec![];
    let mut p: Vec<usize> = (0..n).collect();
    fn rec(k: usize, p: &mut Vec<usize>, out: &mut Vec<Vec<usize>>) {
        if k == p.len() {
            out.push(p.clone());
            return;
        }
        for i in k..p.len() {
            p.swap(k, i);
            rec(k + 1, p, out);
            p.swap(k, i);
        }
    }
    rec(0, &mut p, &mut out);
    if out.len() > cap {
        rng.shuffle(&mut out);
        out.truncate(cap);
    }
    out
}

async fn new_world(name: &str, n: usize, k: u64) -> Gen {
    let cfg = HistoryCfg { n_signers: n, k, m: 100, events: 0, with_csd: false, restarts: false, jumps: false, sparse_regs: false, param_changes: false };
    let mut g = Gen::new(name, &cfg).await;
    g.w.tick().await;
    for p in 0..n {
        g.w.register(p, 2).await;
    }
    g.w.epoch_up(1).await;
    for _ in 0..3 {
        g.w.tick().await;
    }
    g
}

/// bring the state machine to `ready` with nothing left to sign at the current time point
async fn settle_ready(g: &mut Gen) {
    for _ in 0..8 {
        if g.w.tester.runtime.state_label() == "ready" {
            let tp = g.w.time_point().await;
            let avail = g.w.avail(&tp);
            let d = g.w.last_dump.clone();
            if avail.iter().all(|e| d.oms.iter().any(|o| o.ent == *e && (o.certified || o.expired))) {
                return;
            }
        }
        g.drive().await;
    }
}

#[tokio::main(flavor = "multi_thread", worker_threads = 4)]
async fn main() {
    let args = Args::parse();
    silence_stdout();
    install_panic_hook();
    let mut sink = Sink::new(&args);
    let mut totals: std::collections::BTreeMap<String, u64> = Default::default();

    // ---- case 0: the witness of the repaired defect, replayed through the real certifier and table
    if sink.wanted() {
        let mut g = new_world(&format!("c16_{}_witness", args.seed), 3, 5).await;
        let ent = g.w.last_dump.oms[0].ent;
        let mut r = Round { g: &mut g, fails: vec![] };
        let o1 = r.submit(ent, &sub(1, 1, Var::Plain), Mode::Direct(false)).await.unwrap_or_default();
        let o2 = r.submit(ent, &sub(0, 1, Var::Plain), Mode::Direct(false)).await.unwrap_or_default();
        let d = r.g.w.last_dump.clone();
        let same = d.sigs.len() == 2 && d.sigs[0].signature == d.sigs[1].signature;
        let (ok, _) = r.g.w.tick().await;
        let reproduced = o2 == "registered";
        sink.witness(
            "C16-relabel",
            reproduced,
            &format!("B own -> {}; copy of B's signature under label A -> {}; same value under two labels: {}; next tick certifies: {}", o1, o2, same, ok),
        );
        // a valid signature under a party id nobody registered (made the store panic on its foreign key)
        r.g.w.tick().await;
        let ent2 = r.g.w.last_dump.oms.last().unwrap().ent;
        let o3 = r.submit(ent2, &sub(UNREG, 2, Var::Plain), Mode::Direct(false)).await.unwrap_or_default();
        sink.witness("C16-unregistered-label-panic", o3 == "panic" || o3 == "registered", &format!("C's signature under an unregistered party id -> {}", o3));
        r.check_rows(ent);
        let fails = std::mem::take(&mut r.fails);
        g.w.check_store("witness world").await;
        let req = g.w.request("c16.run");
        let idx = sink.case("witness", &req, &g.w.observation());
        for (c, w) in fails.iter().chain(g.w.sfails.iter()) {
            sink.sfail(idx, c, w, &req);
        }
    } else {
        sink.skip();
    }

    // ---- worlds with 2..6 signers, every submission set in both modes and all orders
    let worlds: Vec<(usize, u64)> = if args.thorough() {
        vec![(2, 5), (3, 40), (4, 5), (5, 40), (6, 5), (2, 40), (3, 5), (4, 40), (5, 5), (6, 40)]
    } else {
        vec![(2, 5), (3, 40), (4, 5), (5, 40), (6, 5)]
    };
    for (wi, (n, k)) in worlds.iter().enumerate() {
        if !sink.wanted() {
            sink.skip();
            continue;
        }
        let mut rng = Rng::new(args.seed.wrapping_mul(9_000_011).wrapping_add(wi as u64));
        let mut g = new_world(&format!("c16_{}_{}", args.seed, wi), *n, *k).await;
        // first the stake-distribution round of the epoch, signed by everybody
        settle_ready(&mut g).await;
        let all_sets = sets(*n);
        let mut fails: Vec<(String, String)> = vec![];
        let mut rounds = 0u64;
        for (si, set) in all_sets.iter().enumerate() {
            // quick: each world takes the sets congruent to it (every set runs in some world); thorough: all
            if !args.thorough() && si % 5 != wi % 5 && !(si >= 13 && *n >= 3 && wi % 2 == 1) {
                continue;
            }
            let cap = if args.thorough() { 24 } else { 12 };
            for perm in permutations(set.len(), cap, &mut rng) {
                // direct submissions come both unauthenticated (HTTP without / with failed authentication) and flagged
                // authenticated (HTTP authenticator, message queue): the certifier must verify them all the same
                for mode in [Mode::Direct(false), Mode::Direct(true), Mode::Buffered, Mode::Http] {
                    let buffered = mode == Mode::Buffered;
                    rounds += 1;
                    // a new beacon opens a new round
                    settle_ready(&mut g).await;
                    g.w.immutable_up().await;
                    let tp = g.w.time_point().await;
                    let avail = g.w.avail(&tp);
                    let Some(ent) = avail.iter().copied().find(|e| !g.w.last_dump.oms.iter().any(|o| o.ent == *e)) else { continue };
                    let mut r = Round { g: &mut g, fails: vec![] };
                    if !buffered {
                        r.g.w.tick().await; // ready -> signing: the open message exists
                    }
                    for i in &perm {
                        r.submit(ent, &set[*i], mode).await;
                    }
                    if buffered {
                        r.g.w.tick().await; // the open message is created and the buffered signatures are handed over
                    }
                    let quorum = r.check_rows(ent);
                    let before = r.g.w.last_cert_count;
                    let (ok, _) = r.g.w.tick().await;
                    let certified = r.g.w.last_cert_count > before;
                    if quorum && !certified {
                        r.fails.push(("contribution-vanished".into(), format!("entity {}: the rows whose own key verifies carry at least k distinct lottery indices but the round was not certified (tick ok = {})", ent, ok)));
                    }
                    if !quorum && certified {
                        r.fails.push(("quorum".into(), format!("entity {} certified although the rows whose own key verifies carry fewer than k distinct lottery indices", ent)));
                    }
                    fails.append(&mut r.fails);
                    if !certified {
                        // let the honest parties finish the round so that the next one starts clean
                        g.drive().await;
                    }
                }
            }
        }
        g.w.check_store("end of world").await;
        let req = g.w.request("c16.run");
        let idx = sink.case(&format!("world-n{}-k{}", n, k), &req, &g.w.observation());
        for (c, w) in fails.iter().chain(g.w.sfails.iter()) {
            sink.sfail(idx, c, w, &req);
        }
        for t in &g.w.tags {
            *totals.entry(t.clone()).or_insert(0) += 1;
        }
        *totals.entry("rounds".into()).or_insert(0) += rounds;
        *totals.entry("events".into()).or_insert(0) += g.w.events.len() as u64;
    }
    for (k, v) in totals {
        sink.note(&format!("hit.{}", k), &v.to_string());
    }
    sink.finish();
}
