//! C07 harness, aggregator layer: histories of registration rounds through the REAL
//! `MithrilSignerRegistrationLeader::register_signer` + `MithrilSignerRegistrationVerifier::verify` over the real
//! sqlite stores (`SignerRegistrationStore`, `SignerStore`) and a chain observer whose KES period the history sets,
//! versus the Lean model `RegLeader.run`. Oracle bits per attempt come from the real primitives called separately
//! (as in c07). S, on what the real store holds at the end: every stored registration meets every clause of the
//! property w.r.t. the values STORED for it (the ones every node later rebuilds the key registration from), no key is
//! stored for two parties of one round, and `SignerBuilder::new` accepts the stored set.
use std::collections::BTreeMap;
use std::sync::{Arc, Mutex};

use async_trait::async_trait;
use hutil::{Args, Rng, Sink};
use kes_summed_ed25519::kes::{Sum6Kes, Sum6KesSig};
use kes_summed_ed25519::traits::{KesSig, KesSk};
use mithril_aggregator::database::repository::{SignerGetter, SignerRegistrationStore, SignerStore};
use mithril_aggregator::services::{MithrilSignerRegistrationLeader, MithrilSignerRegistrationVerifier, SignerRegisterer, SignerRegistrationRoundOpener};
use mithril_aggregator::{SignerRegistrationError, VerificationKeyStorer};
use mithril_cardano_node_chain::chain_observer::{ChainObserver, ChainObserverError};
use mithril_cardano_node_chain::entities::{ChainAddress, TxDatum};
use mithril_common::crypto_helper::{ColdKeyGenerator, KesEvolutions, KesPeriod, OpCert, ProtocolRegistrationErrorWrapper};
use mithril_common::entities::{ChainPoint, Epoch, ProtocolParameters, Signer, SignerWithStake, StakeDistribution};
use mithril_common::protocol::SignerBuilder;
use mithril_persistence::sqlite::{ConnectionBuilder, ConnectionOptions};
use mithril_stm::{Initializer, Parameters, RegisterError, VerificationKeyProofOfPossessionForConcatenation};
use rand_chacha::ChaCha20Rng;
use rand_core::SeedableRng;

struct Obs(Mutex<Option<u64>>);
#[async_trait]
impl ChainObserver for Obs {
    async fn get_current_datums(&self, _a: &ChainAddress) -> Result<Vec<TxDatum>, ChainObserverError> { Ok(vec![]) }
    async fn get_current_era(&self) -> Result<Option<String>, ChainObserverError> { Ok(None) }
    async fn get_current_epoch(&self) -> Result<Option<Epoch>, ChainObserverError> { Ok(None) }
    async fn get_current_chain_point(&self) -> Result<Option<ChainPoint>, ChainObserverError> { Ok(None) }
    async fn get_current_stake_distribution(&self) -> Result<Option<StakeDistribution>, ChainObserverError> { Ok(None) }
    async fn get_current_kes_period(&self) -> Result<Option<KesPeriod>, ChainObserverError> { Ok(self.0.lock().unwrap().map(KesPeriod)) }
}

struct Party { seed: u8, opcert: OpCert, pool_id: String, vkpop: VerificationKeyProofOfPossessionForConcatenation, start: u64 }

fn kes_sign(seed: u8, evolutions: u32, msg: &[u8]) -> Option<Sum6KesSig> {
    let mut buf = [0u8; Sum6Kes::SIZE + 4];
    let mut s = [seed; 32];
    let (mut sk, _vk) = Sum6Kes::keygen(&mut buf, &mut s);
    for _ in 0..evolutions { sk.update().ok()?; }
    Some(sk.sign(msg))
}

fn party(seed: u8, start: u64, rng: &mut ChaCha20Rng) -> Party {
    let cold = ColdKeyGenerator::create_deterministic_keypair([seed; 32]);
    let mut buf = [0u8; Sum6Kes::SIZE + 4];
    let mut s = [seed; 32];
    let (_sk, kes_vk) = Sum6Kes::keygen(&mut buf, &mut s);
    let opcert = OpCert::new(kes_vk, 0, KesPeriod(start), cold);
    let pool_id = opcert.compute_protocol_party_id().unwrap();
    let init = Initializer::new(Parameters { m: 10, k: 5, phi_f: 0.8 }, 1, rng);
    Party { seed, opcert, pool_id, vkpop: init.get_verification_key_proof_of_possession_for_concatenation(), start }
}

#[derive(Clone)]
struct Attempt {
    tag: &'static str,
    claimed: String,
    opcert: Option<OpCert>,
    sig: Option<Sum6KesSig>,
    vkpop: VerificationKeyProofOfPossessionForConcatenation,
    announced: Option<u64>,
}

fn reg_class(e: &anyhow::Error) -> String {
    for c in e.chain() {
        if let Some(w) = c.downcast_ref::<ProtocolRegistrationErrorWrapper>() {
            return match w {
                ProtocolRegistrationErrorWrapper::OpCertMissing => "opCertMissing".into(),
                ProtocolRegistrationErrorWrapper::KesPeriodMissing => "kesPeriodMissing".into(),
                ProtocolRegistrationErrorWrapper::KesSignatureMissing => "kesSigMissing".into(),
                ProtocolRegistrationErrorWrapper::KesSignatureInvalid(_, _, src) => {
                    if format!("{:?}", src).contains("OpCertInvalid") || src.to_string().to_lowercase().contains("operational certificate") { "opCertInvalid".into() } else { "kesInvalid".into() }
                }
                ProtocolRegistrationErrorWrapper::PoolAddressEncoding => "poolId".into(),
                ProtocolRegistrationErrorWrapper::PartyIdNonExisting => "partyNotInDistribution".into(),
                ProtocolRegistrationErrorWrapper::PartyIdMissing => "partyIdMissing".into(),
                ProtocolRegistrationErrorWrapper::OpCertInvalid => "opCertInvalid".into(),
                other => format!("other:{}", other),
            };
        }
        if let Some(r) = c.downcast_ref::<RegisterError>() {
            return match r {
                RegisterError::EntryAlreadyRegistered(_) => "alreadyRegistered".into(),
                RegisterError::ConcatenationKeyInvalid(_) => "keyInvalid".into(),
                other => format!("other:{}", other),
            };
        }
    }
    format!("other:{:?}", e).chars().take(120).collect()
}

enum Op { Open(u64, Vec<(String, u64)>), Close, Chain(Option<u64>), Reg(u64, Attempt) }

/// the proof of possession judged with blst directly, one half at a time (NOT through `RegistrationEntry::new`, which is
/// the code under test): `k1` is a BLS signature of "PoP" under the key, and `e(k2, g2) = e(g1, vk)`.
/// bytes = vk (96, G2 compressed) ‖ k1 (48, G1 compressed) ‖ k2 (48, G1 compressed)
fn pop_halves(bytes: &[u8]) -> (bool, bool) {
    use blst::min_sig::{PublicKey, Signature};
    use blst::*;
    if bytes.len() != 192 { return (false, false); }
    let (vk, k1, k2) = (&bytes[..96], &bytes[96..144], &bytes[144..]);
    let pk = match PublicKey::from_bytes(vk) { Ok(p) => p, Err(_) => return (false, false) };
    let half1 = match Signature::from_bytes(k1) { Ok(sg) => sg.verify(false, b"PoP", &[], &[], &pk, false) == BLST_ERROR::BLST_SUCCESS, Err(_) => false };
    let half2 = unsafe {
        let mut k2a = blst_p1_affine::default();
        let mut vka = blst_p2_affine::default();
        if blst_p1_uncompress(&mut k2a, k2.as_ptr()) != BLST_ERROR::BLST_SUCCESS || blst_p2_uncompress(&mut vka, vk.as_ptr()) != BLST_ERROR::BLST_SUCCESS { false } else {
            let (mut l, mut r) = (blst_fp12::default(), blst_fp12::default());
            blst_miller_loop(&mut l, blst_p2_affine_generator(), &k2a);
            blst_miller_loop(&mut r, &vka, blst_p1_affine_generator());
            blst_fp12_finalverify(&l, &r)
        }
    };
    (half1, half2)
}

fn main() {
    hagg::silence_stdout();
    let args = Args::parse();
    let mut rng = Rng::new(args.seed);
    let mut sink = Sink::new(&args);
    let mut crng = ChaCha20Rng::from_seed([args.seed as u8; 32]);
    let rt = tokio::runtime::Builder::new_current_thread().enable_all().build().unwrap();
    let params = ProtocolParameters { k: 1, m: 10, phi_f: 0.9 };
    let nhist = if args.thorough() { 600 } else { 90 };

    // certified material of four pools; A's key signed at several evolutions
    let start = 7u64;
    let a = party(1, start, &mut crng);
    let b = party(2, start, &mut crng);
    let c = party(3, start + 3, &mut crng);
    let d = party(4, 0, &mut crng);
    let parties = [&a, &b, &c, &d];
    let mut ids: BTreeMap<String, usize> = BTreeMap::new();
    let mut id = |s: String| -> usize { let n = ids.len() + 1; *ids.entry(s).or_insert(n) };
    let signed_ts: [u32; 4] = [0, 1, 5, 63];

    let mut zero_rounds = 0u32;
    for h in 0..nhist {
        if !sink.wanted() { sink.skip(); continue; }
        // ---- the pool of attempts of this history -----------------------------------------------
        let t = signed_ts[rng.below(4) as usize];
        let sig_of = |p: &Party, over: &VerificationKeyProofOfPossessionForConcatenation, t: u32| kes_sign(p.seed, t, &over.to_bytes());
        let honest = |p: &Party, t: u32| Attempt { tag: "valid", claimed: p.pool_id.clone(), opcert: Some(p.opcert.clone()), sig: sig_of(p, &p.vkpop, t), vkpop: p.vkpop, announced: Some(t as u64) };
        let mut pool: Vec<Attempt> = vec![];
        for p in parties { pool.push(honest(p, t)); }
        // announced evolutions that are not the signed ones / missing / huge
        for ann in [None, Some(0), Some(t as u64 + 1), Some(t as u64 + 2), Some(40), Some(64), Some(1 << 40)] {
            let mut x = honest(&a, t); x.tag = "announced-altered"; x.announced = ann; pool.push(x);
        }
        // another pool registering A's key (public material): its own certificate, its own KES signature over A's key
        for p in [&b, &c] { let mut x = honest(p, t); x.tag = "foreign-key-copied"; x.vkpop = a.vkpop; x.sig = sig_of(p, &a.vkpop, t); pool.push(x); }
        // the same pool with another key (re-registration)
        { let mut x = honest(&a, t); x.tag = "re-registration-other-key"; x.vkpop = d.vkpop; x.sig = sig_of(&a, &d.vkpop, t); pool.push(x); }
        // claimed identity
        { let mut x = honest(&a, t); x.tag = "claimed-empty"; x.claimed = String::new(); pool.push(x); }
        { let mut x = honest(&a, t); x.tag = "claimed-other-pool"; x.claimed = b.pool_id.clone(); pool.push(x); }
        { let mut x = honest(&a, t); x.tag = "claimed-unknown"; x.claimed = "pool1whatever".into(); pool.push(x); }
        // invalid components
        { let mut x = honest(&a, t); x.tag = "kes-sig-other-pool-key"; x.sig = sig_of(&b, &a.vkpop, t); pool.push(x); }
        { let mut x = honest(&a, t); x.tag = "kes-sig-missing"; x.sig = None; pool.push(x); }
        { let mut x = honest(&a, t); x.tag = "opcert-of-other-pool"; x.opcert = Some(b.opcert.clone()); pool.push(x); }
        { let mut x = honest(&a, t); x.tag = "opcert-missing"; x.opcert = None; pool.push(x); }
        { let mut x = honest(&a, t); x.tag = "opcert-missing-claimed-other"; x.opcert = None; x.claimed = b.pool_id.clone(); pool.push(x); }
        { let mut x = honest(&a, t); x.tag = "opcert-missing-claimed-empty"; x.opcert = None; x.claimed = String::new(); pool.push(x); }
        { let mut forged = a.vkpop; forged.pop = b.vkpop.pop; let mut x = honest(&a, t); x.tag = "pop-swapped-kes-resigned"; x.vkpop = forged; x.sig = sig_of(&a, &forged, t); pool.push(x); }
        for (tag, lo, hi) in [("pop-k1-of-other-kes-resigned", 96usize, 144usize), ("pop-k2-of-other-kes-resigned", 144, 192)] {
            let mut fb = a.vkpop.to_bytes().to_vec();
            fb[lo..hi].copy_from_slice(&b.vkpop.to_bytes()[lo..hi]);
            if let Ok(forged) = VerificationKeyProofOfPossessionForConcatenation::from_bytes(&fb) { let mut x = honest(&a, t); x.tag = tag; x.vkpop = forged; x.sig = sig_of(&a, &forged, t); pool.push(x); }
        }
        {
            let mut v = serde_json::to_value(&a.opcert).unwrap();
            v[0][2] = serde_json::json!(v[0][2].as_u64().unwrap() + 1);
            if let Ok(oc) = serde_json::from_value::<OpCert>(v) { let mut x = honest(&a, t); x.tag = "opcert-start-altered"; x.opcert = Some(oc); pool.push(x); }
        }

        // ---- the history --------------------------------------------------------------------------
        let epoch = 5 + rng.below(3);
        let full_sd: Vec<(String, u64)> = vec![(a.pool_id.clone(), 10 + rng.below(5)), (b.pool_id.clone(), 3), (c.pool_id.clone(), 1), (d.pool_id.clone(), rng.below(2) * 4)];
        let sd: Vec<(String, u64)> = match rng.below(4) { 0 => full_sd[..3].to_vec(), 1 => full_sd[1..].to_vec(), _ => full_sd.clone() };
        let mut ops: Vec<Op> = vec![];
        // the chain period: so that A's signature at evolution t is within the window, at its edges, or outside
        let period = match rng.below(8) { 0 => None, 1 => Some(0), 2 => Some(start + t as u64 + 1), 3 => Some((start + t as u64).saturating_sub(1)), 4 => Some(start + t as u64 + 2), 5 => Some(start + 200), _ => Some(start + t as u64) };
        ops.push(Op::Chain(period));
        if !rng.chance(1, 12) { ops.push(Op::Open(epoch, sd.clone())); }
        // every third history runs TWO rounds (epoch, then epoch + 1) over the same parties and keys: a key or a party
        // stored for one round must not count for the other (`get_signers(round.epoch)`, store keyed by (epoch, party))
        let two_rounds = h % 3 == 2;
        let mut open_epoch = epoch;
        let nreg = rng.range(2, 7) + if two_rounds { 3 } else { 0 };
        for k in 0..nreg {
            if two_rounds && k == nreg / 2 { open_epoch = epoch + 1; ops.push(Op::Open(open_epoch, sd.clone())); }
            let at = if rng.chance(1, 2) { pool[rng.below(4) as usize].clone() } else { pool[rng.below(pool.len() as u64) as usize].clone() };
            let ep = if rng.chance(1, 10) { if open_epoch == epoch { epoch + 1 } else { epoch } } else { open_epoch };
            ops.push(Op::Reg(ep, at));
            match rng.below(14) { 0 => ops.push(Op::Close), 1 => ops.push(Op::Open(open_epoch, sd.clone())), 2 => ops.push(Op::Chain(Some(start + t as u64))), _ => {} }
        }

        // ---- run it on the real leader ------------------------------------------------------------
        let conn = Arc::new(ConnectionBuilder::open_memory().with_options(&[ConnectionOptions::ForceDisableForeignKeys])
            .with_migrations(mithril_aggregator::database::migration::get_migrations()).build().unwrap());
        let obs = Arc::new(Obs(Mutex::new(None)));
        let vk_store = Arc::new(SignerRegistrationStore::new(conn.clone(), None));
        let signer_store = Arc::new(SignerStore::new(conn.clone()));
        let leader = MithrilSignerRegistrationLeader::new(vk_store.clone(), signer_store.clone(), Arc::new(MithrilSignerRegistrationVerifier::new(obs.clone())));
        let mut outs: Vec<String> = vec![];
        let mut op_lines: Vec<String> = vec![];
        let mut attempts_by_vk_pid: Vec<(u64, Attempt)> = vec![];
        for op in &ops {
            match op {
                Op::Open(ep, sd) => {
                    rt.block_on(leader.open_registration_round(Epoch(*ep), sd.iter().cloned().collect())).unwrap();
                    op_lines.push(format!("(open,{},[{}])", ep, sd.iter().map(|(p, s)| format!("({},{})", id(format!("pid:{}", p)), s)).collect::<Vec<_>>().join(",")));
                }
                Op::Close => { rt.block_on(leader.close_registration_round()).unwrap(); op_lines.push("(close)".into()); }
                Op::Chain(p) => { *obs.0.lock().unwrap() = *p; op_lines.push(format!("(chain,{})", p.map(|x| x.to_string()).unwrap_or("none".into()))); }
                Op::Reg(ep, at) => {
                    let signer = Signer {
                        party_id: at.claimed.clone(),
                        verification_key_for_concatenation: at.vkpop.into(),
                        verification_key_signature_for_concatenation: at.sig.map(|s| s.into()),
                        operational_certificate: at.opcert.clone().map(|o| o.into()),
                        kes_evolutions: at.announced.map(KesEvolutions),
                    };
                    let res = rt.block_on(hagg::catch_async(leader.register_signer(Epoch(*ep), &signer)));
                    let out = match res {
                        Err(_) => "panic".to_string(),
                        Ok(Ok(s)) => format!("ok {} {}", id(format!("pid:{}", s.party_id)), s.stake),
                        Ok(Err(SignerRegistrationError::RegistrationRoundNotYetOpened)) => "notOpened".into(),
                        Ok(Err(SignerRegistrationError::RegistrationRoundUnexpectedEpoch { .. })) => "unexpectedEpoch".into(),
                        Ok(Err(SignerRegistrationError::ExistingSigner(s))) => format!("existing {}", id(format!("pid:{}", s.party_id))),
                        Ok(Err(SignerRegistrationError::InvalidSignerRegistration(_, _, e))) => if format!("{:?}", e).contains("already registered by another party") { "duplicateKey".into() } else { format!("invalid:{}", reg_class(&e)) },
                        Ok(Err(e)) => format!("other:{}", e).chars().take(80).collect(),
                    };
                    outs.push(out);
                    // oracle bits
                    let msg = at.vkpop.to_bytes();
                    let opcert_ok = at.opcert.as_ref().map(|o| o.validate().is_ok()).unwrap_or(false);
                    let kes_ok: Vec<u32> = match (&at.opcert, &at.sig) { (Some(o), Some(s)) => (0u32..=66).filter(|t| s.verify(*t, &o.get_kes_verification_key(), &msg).is_ok()).collect(), _ => vec![] };
                    let pop_ok = { let (h1, h2) = pop_halves(&at.vkpop.to_bytes()); h1 && h2 };
                    let pool_id = at.opcert.as_ref().and_then(|o| o.compute_protocol_party_id().ok());
                    let claimed = if at.claimed.is_empty() { "none".to_string() } else { id(format!("pid:{}", at.claimed)).to_string() };
                    op_lines.push(format!("(reg,{},{},{},{},{},{},{},{},{},{},{})", ep, claimed, at.opcert.is_some() as u8,
                        at.opcert.as_ref().map(|o| *o.get_start_kes_period()).unwrap_or(0), id(format!("vk:{}", hutil::hex(&at.vkpop.vk.to_bytes()))),
                        at.sig.is_some() as u8, at.announced.map(|x| x.to_string()).unwrap_or("none".into()), opcert_ok as u8, hutil::list(&kes_ok), pop_ok as u8,
                        pool_id.map(|p| id(format!("pid:{}", p)).to_string()).unwrap_or("none".into())));
                    attempts_by_vk_pid.push((*ep, at.clone()));
                }
            }
        }
        // ---- what the real stores hold ----------------------------------------------------------------
        let mut rows: Vec<(u64, usize, usize, u64, Option<u64>)> = vec![];
        let mut stored: BTreeMap<u64, Vec<SignerWithStake>> = BTreeMap::new();
        for ep in [epoch, epoch + 1] {
            if let Some(signers) = rt.block_on(vk_store.get_signers(Epoch(ep))).unwrap() {
                for s in &signers {
                    let vkp: VerificationKeyProofOfPossessionForConcatenation = s.verification_key_for_concatenation.into();
                    rows.push((ep, id(format!("pid:{}", s.party_id)), id(format!("vk:{}", hutil::hex(&vkp.vk.to_bytes()))), s.stake, s.kes_evolutions.map(|e| *e)));
                }
                stored.insert(ep, signers);
            }
        }
        rows.sort();
        let mut recorded: Vec<usize> = rt.block_on(signer_store.get_all()).unwrap().into_iter().map(|r| id(format!("pid:{}", r.signer_id))).collect();
        recorded.sort();
        let out = format!("{} | {} | {}", outs.join(";"),
            rows.iter().map(|r| format!("({},{},{},{},{})", r.0, r.1, r.2, r.3, r.4.map(|x| x.to_string()).unwrap_or("none".into()))).collect::<Vec<_>>().join(","),
            recorded.iter().map(|x| x.to_string()).collect::<Vec<_>>().join(","));
        let req = format!("c07.history skip=1 ops=[{}]", op_lines.join(","));
        let i = sink.case(if two_rounds { "history-two-rounds" } else if h % 2 == 0 { "history-even" } else { "history-odd" }, &req, &out);

        // ---- S on the stored registrations ---------------------------------------------------------------
        for (ep, signers) in &stored {
            let mut seen: BTreeMap<Vec<u8>, String> = BTreeMap::new();
            for s in signers {
                let vkp: VerificationKeyProofOfPossessionForConcatenation = s.verification_key_for_concatenation.into();
                if let Some(other) = seen.insert(vkp.vk.to_bytes().to_vec(), s.party_id.clone()) {
                    if other != s.party_id { sink.sfail(i, "duplicate-key", &format!("epoch {}: one verification key stored for two parties ({} and {})", ep, other, s.party_id), &req); }
                }
                let Some(oc) = &s.operational_certificate else { continue }; // uncertified rows exist only with the dev feature of this build
                let mut why = vec![];
                if oc.validate().is_err() { why.push("op-cert not signed by the cold key".to_string()); }
                let pool = oc.compute_protocol_party_id().ok();
                if pool.as_ref() != Some(&s.party_id) { why.push("party id is not the pool id derived from the cold key".into()); }
                match sd.iter().find(|(p, _)| *p == s.party_id) { None => why.push("pool not in the stake distribution of the round".into()), Some((_, st)) => if *st != s.stake { why.push("recorded stake is not the distribution's value".into()); } }
                if { let (h1, h2) = pop_halves(&vkp.to_bytes()); !(h1 && h2) } { why.push("proof of possession invalid".into()); }
                let kes_clause = match (&s.verification_key_signature_for_concatenation, s.kes_evolutions) {
                    (Some(sig), Some(e)) => { let e = *e; (0u32..=63).any(|t| (t as u64) + 1 >= e && (t as u64) <= e.saturating_add(1) && sig.verify(t, &oc.get_kes_verification_key(), &vkp.to_bytes()).is_ok()) }
                    _ => false,
                };
                if !why.is_empty() { sink.sfail(i, "registration", &format!("stored although: {}", why.join("; ")), &req); }
                if !kes_clause { sink.sfail(i, "announced-evolutions", &format!("party {} stored with kes_evolutions {:?}: the KES signature does not verify at any evolution within one period of it", s.party_id, s.kes_evolutions.map(|e| *e)), &req); }
            }
            if !signers.is_empty() {
                if let Err(e) = SignerBuilder::new(signers, &params) {
                    let text = format!("{:?}", e);
                    // a round whose only stored registrations are pools the distribution gives stake 0 can not run the
                    // protocol at all: C07 says nothing about that (the stake recorded IS the distribution's value)
                    if text.contains("total stake is zero") && signers.iter().all(|s| s.stake == 0) { zero_rounds += 1; continue; }
                    let class = if text.contains("already registered") || text.contains("AlreadyRegistered") { "duplicate-key" } else if text.to_lowercase().contains("kes") { "announced-evolutions" } else { "accepted-set-unusable" };
                    sink.sfail(i, class, &format!("SignerBuilder::new on the {} stored registrations of epoch {} fails (the aggregator's epoch service and every signer run exactly this): {}", signers.len(), ep, text.chars().take(160).collect::<String>()), &req);
                }
            }
        }
    }
    // ---- witnesses of the two repaired findings, replayed on the real leader every run --------------------------
    {
        let t = 0u32;
        let mk = |p: &Party, over: &VerificationKeyProofOfPossessionForConcatenation, announced: Option<u64>| Signer {
            party_id: p.pool_id.clone(), verification_key_for_concatenation: (*over).into(),
            verification_key_signature_for_concatenation: kes_sign(p.seed, t, &over.to_bytes()).map(|s| s.into()),
            operational_certificate: Some(p.opcert.clone().into()), kes_evolutions: announced.map(KesEvolutions),
        };
        let sd: StakeDistribution = [(a.pool_id.clone(), 10u64), (b.pool_id.clone(), 3)].into_iter().collect();
        let fresh = || {
            let conn = Arc::new(ConnectionBuilder::open_memory().with_options(&[ConnectionOptions::ForceDisableForeignKeys])
                .with_migrations(mithril_aggregator::database::migration::get_migrations()).build().unwrap());
            let obs = Arc::new(Obs(Mutex::new(Some(start))));
            let vk_store = Arc::new(SignerRegistrationStore::new(conn.clone(), None));
            let leader = MithrilSignerRegistrationLeader::new(vk_store.clone(), Arc::new(SignerStore::new(conn.clone())), Arc::new(MithrilSignerRegistrationVerifier::new(obs)));
            (leader, vk_store)
        };
        // (1) A announces evolutions its signature does not verify under
        let (leader, store) = fresh();
        rt.block_on(leader.open_registration_round(Epoch(5), sd.clone())).unwrap();
        let r1 = rt.block_on(leader.register_signer(Epoch(5), &mk(&a, &a.vkpop, Some(40))));
        let stored = rt.block_on(store.get_signers(Epoch(5))).unwrap().unwrap_or_default();
        let unusable = !stored.is_empty() && SignerBuilder::new(&stored, &params).is_err();
        sink.witness("C07-announced-evolutions", r1.is_ok() && unusable, &format!("A registers announcing kes_period 40 (signed at evolution 0, chain evolutions 0): accepted={} stored kes_evolutions={:?} SignerBuilder::new(stored)={}", r1.is_ok(), stored.first().and_then(|s| s.kes_evolutions.map(|e| *e)), if unusable { "Err" } else { "Ok" }));
        // (2) B registers A's key
        let (leader, store) = fresh();
        rt.block_on(leader.open_registration_round(Epoch(5), sd.clone())).unwrap();
        let r1 = rt.block_on(leader.register_signer(Epoch(5), &mk(&a, &a.vkpop, Some(0))));
        let r2 = rt.block_on(leader.register_signer(Epoch(5), &mk(&b, &a.vkpop, Some(0))));
        let stored = rt.block_on(store.get_signers(Epoch(5))).unwrap().unwrap_or_default();
        let unusable = !stored.is_empty() && SignerBuilder::new(&stored, &params).is_err();
        sink.witness("C07-foreign-duplicate-key", r1.is_ok() && r2.is_ok() && stored.len() == 2, &format!("A registers, then B registers A's key KES-signed by B: second accepted={} stored={} SignerBuilder::new(stored)={}", r2.is_ok(), stored.len(), if unusable { "Err" } else { "Ok" }));
    }
    sink.note("zero-total-stake-rounds (SignerBuilder refuses; outside C07)", &zero_rounds.to_string());
    sink.finish();
}
