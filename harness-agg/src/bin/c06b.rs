//! C06 harness, aggregator layer: histories through the REAL `MithrilEpochService`, composed by the aggregator's own
//! `DependenciesBuilder` over the real sqlite stores (`SignerRegistrationStore`, `EpochSettingsStore`, `StakePoolStore`,
//! `SignerStore`; foreign keys on), versus the Lean model `RegService.run`.
//!
//! One case = one history of: registrations saved to / replaced in the store for several epochs (different sets,
//! arrival orders, re-registrations with another key or stake, a key of another party, zero and huge stakes), prunes,
//! `inform_epoch(e)`, `update_next_signers_with_stake`, `precompute_epoch_data`, in any order and repeated.
//! After EVERY step the harness reads `current_signers_with_stake`, `next_signers_with_stake`, `next_signers`,
//! the two stake totals, `current_aggregate_verification_key`, `next_aggregate_verification_key` and probes the slots
//! of `protocol_multi_signer` / `next_protocol_multi_signer` (a real single signature of every reported signer, made
//! with raw mithril-stm over the reported list, is offered to `verify_single_signature` under every signer index: the
//! index that verifies is the party's slot in the multi-signer).
//!
//! K: all of that, per step, against the model (AVK bytes exact: Merkle root by the Lean Blake2b, nr_leaves, total).
//! S (real versus real, after every step):
//!  * `SignerBuilder::new(svc.X_signers_with_stake(), params).compute_aggregate_verification_key()` = `svc.X_aggregate_verification_key()`
//!    for X = current, next whenever a key is reported (class `stale-key`; `stale-after-failed-update` when the
//!    last `update_next_signers_with_stake` failed — the finding repaired by 9c9bc53d6, must never fire);
//!  * the reported signer sets are the registrations the harness wrote for the epochs `e - 1` / `e` (own record of the writes);
//!  * a FRESH service over the same stores, informed of the same epoch, reports the same sets and keys whenever the store
//!    was not written since the live service last read it;
//!  * `next_signers()` / `total_next_stakes_signers()` agree with `next_signers_with_stake()` (class `stale-next-signers`
//!    after an update — the finding repaired by df18c4ce4, must never fire).
//! A panic (stake totals beyond 2^64 with overflow checks on) ends the history: nothing is observed after it.
use std::collections::{BTreeMap, BTreeSet};
use std::sync::Arc;

use hutil::{hex, Args, Rng, Sink};
use mithril_aggregator::database::repository::SignerStore;
use mithril_aggregator::dependency_injection::{DependenciesBuilder, EpochServiceWrapper};
use mithril_aggregator::entities::AggregatorEpochSettings;
use mithril_aggregator::services::{EpochService, EpochServiceDependencies, EpochServiceError, MithrilEpochService, SignerRecorder};
use mithril_aggregator::{EpochSettingsStorer, ServeCommandConfiguration, VerificationKeyStorer};
use mithril_cardano_node_chain::test::double::FakeChainObserver;
use mithril_cardano_node_internal_database::test::double::DumbImmutableFileObserver;
use mithril_common::crypto_helper::ProtocolAggregateVerificationKey;
use mithril_common::entities::{
    BlockNumber, ChainPoint, Epoch, ProtocolMessage, ProtocolMessagePartKey, ProtocolParameters, SignerWithStake, SingleSignature,
    SlotNumber, TimePoint,
};
use mithril_common::protocol::{MultiSigner, SignerBuilder, SignerBuilderError};
use mithril_stm::{
    Initializer, KeyRegistration, MithrilMembershipDigest, Parameters, RegisterError, RegistrationEntry,
    SingleSignature as StmSingleSignature,
};
use rand_chacha::ChaCha20Rng;
use rand_core::SeedableRng;

type D = MithrilMembershipDigest;

const NP: usize = 5; // parties
const NK: usize = 8; // keys: key i < NP is party i's first key; the others are second keys

#[derive(Clone, Debug)]
enum Op {
    Save(u64, usize, usize, u64),
    Prune(u64),
    Inform(u64),
    Update,
    Precompute,
}

struct Env {
    svc: EpochServiceWrapper,
    builder: DependenciesBuilder,
    vk_store: Arc<dyn VerificationKeyStorer>,
    dirs: Vec<std::path::PathBuf>,
}
impl Drop for Env {
    fn drop(&mut self) {
        for d in &self.dirs {
            let _ = std::fs::remove_dir_all(d);
        }
    }
}

fn settings(params: &ProtocolParameters) -> AggregatorEpochSettings {
    AggregatorEpochSettings {
        protocol_parameters: params.clone(),
        cardano_transactions_signing_config: None,
        cardano_blocks_transactions_signing_config: None,
    }
}

async fn make_env(name: &str, params: &ProtocolParameters) -> Env {
    let name = format!("c06b_{}_p{}", name, std::process::id());
    let dir = hagg::test_extensions::utilities::get_test_dir(&name);
    let snap = std::env::temp_dir().join("mithril_test").join("c06b_snap").join(&name);
    let _ = std::fs::remove_dir_all(&snap);
    std::fs::create_dir_all(&snap).unwrap();
    let cfg = ServeCommandConfiguration {
        protocol_parameters: Some(params.clone()),
        data_stores_directory: dir.clone(),
        ..ServeCommandConfiguration::new_sample(snap.clone())
    };
    let start = TimePoint {
        epoch: Epoch(1),
        immutable_file_number: 1,
        chain_point: ChainPoint { slot_number: SlotNumber(10), block_number: BlockNumber(100), block_hash: "block_hash-100".to_string() },
    };
    let logger = slog::Logger::root(slog::Discard, slog::o!());
    let mut builder = DependenciesBuilder::new(logger, Arc::new(cfg));
    builder.chain_observer = Some(Arc::new(FakeChainObserver::new(Some(start.clone()))));
    let ifo = Arc::new(DumbImmutableFileObserver::new());
    ifo.shall_return(Some(start.immutable_file_number)).await;
    builder.immutable_file_observer = Some(ifo);
    let svc = builder.get_epoch_service().await.unwrap();
    let vk_store = builder.get_verification_key_store().await.unwrap();
    let es_store = builder.get_epoch_settings_store().await.unwrap();
    let signer_store: Arc<SignerStore> = builder.get_signer_store().await.unwrap();
    // the rows the foreign keys of `signer_registration` point to
    for e in 0..12u64 {
        es_store.save_epoch_settings(Epoch(e), settings(params)).await.unwrap();
    }
    for p in 0..NP {
        signer_store.record_signer_registration(party_name(p)).await.unwrap();
    }
    Env { svc, builder, vk_store, dirs: vec![dir, snap] }
}

/// a service of its own over the same stores, as `DependenciesBuilder::build_epoch_service` composes it
async fn fresh_service(env: &mut Env) -> MithrilEpochService {
    let b = &mut env.builder;
    let allowed = b.configuration.compute_allowed_signed_entity_types_discriminants().unwrap();
    MithrilEpochService::new(
        EpochServiceDependencies::new(
            b.get_mithril_network_configuration_provider().await.unwrap(),
            b.get_epoch_settings_store().await.unwrap(),
            b.get_verification_key_store().await.unwrap(),
            b.get_chain_observer().await.unwrap(),
            b.get_era_checker().await.unwrap(),
            b.get_stake_store().await.unwrap(),
        ),
        allowed,
        slog::Logger::root(slog::Discard, slog::o!()),
    )
}

fn party_name(p: usize) -> String {
    format!("pool-party-{}", p + 1)
}
fn party_ord(name: &str) -> usize {
    name.rsplit('-').next().and_then(|x| x.parse::<usize>().ok()).unwrap_or(99)
}

fn build_class(e: &anyhow::Error) -> String {
    for c in e.chain() {
        if let Some(SignerBuilderError::EmptySigners) = c.downcast_ref::<SignerBuilderError>() {
            return "empty".into();
        }
        if let Some(r) = c.downcast_ref::<RegisterError>() {
            return match r {
                RegisterError::EntryAlreadyRegistered(_) => "dupKey".into(),
                RegisterError::TotalStakeOverflow { .. } => "overflow".into(),
                RegisterError::ZeroTotalStake => "zero".into(),
                other => format!("other:{}", other),
            };
        }
    }
    let t = format!("{:?}", e);
    if t.contains("PartyIdNonExisting") || t.contains("party id does not exist") { "unknownParty".into() } else { format!("other:{}", t.chars().take(80).collect::<String>()) }
}

fn res_class(r: &Result<anyhow::Result<()>, String>) -> String {
    match r {
        Err(_) => "panic".into(),
        Ok(Ok(())) => "ok".into(),
        Ok(Err(e)) => {
            let t = format!("{:?}", e);
            if t.contains("next protocol multi signer") {
                format!("err:next:{}", build_class(e))
            } else if t.contains("build protocol multi signer") {
                format!("err:cur:{}", build_class(e))
            } else if t.contains("inform_epoch has not been called") {
                "err:notinit".into()
            } else if t.contains("signer retrieval epoch") || t.contains("aggregation epoch") || t.to_lowercase().contains("epoch offset") {
                "err:epoch".into()
            } else {
                format!("err:other:{}", t.chars().take(100).collect::<String>())
            }
        }
    }
}

fn avk_text(avk: &ProtocolAggregateVerificationKey) -> String {
    let v = serde_json::to_value(avk.to_concatenation_aggregate_verification_key()).unwrap();
    let root: Vec<u8> = v["mt_commitment"]["root"].as_array().unwrap().iter().map(|x| x.as_u64().unwrap() as u8).collect();
    format!("{}:{}:{}", hex(&root), v["mt_commitment"]["nr_leaves"], v["total_stake"])
}

struct Keys {
    inits: Vec<Initializer>,
    hexes: Vec<String>,
    sig_memo: std::cell::RefCell<std::collections::HashMap<String, Option<Vec<StmSingleSignature>>>>,
    avk_memo: std::cell::RefCell<std::collections::HashMap<String, Result<String, String>>>,
}
impl Keys {
    fn idx_of(&self, s: &SignerWithStake) -> usize {
        let h = hex(&s.verification_key_for_concatenation.vk.to_bytes());
        self.hexes.iter().position(|x| *x == h).unwrap_or(99)
    }
    fn signer(&self, party: usize, key: usize, stake: u64) -> SignerWithStake {
        let vkpop = self.inits[key].get_verification_key_proof_of_possession_for_concatenation();
        SignerWithStake {
            party_id: party_name(party),
            verification_key_for_concatenation: vkpop.into(),
            verification_key_signature_for_concatenation: None,
            operational_certificate: None,
            kes_evolutions: None,
            stake,
        }
    }
}

/// raw mithril-stm over the list: the closed registration and every listed signer's single signature of `msg`
/// (its `signer_index` = the position of its entry in the closed registration)
fn raw_signatures(keys: &Keys, list: &[SignerWithStake], params: &Parameters, msg: &[u8]) -> Option<Vec<StmSingleSignature>> {
    let mut reg = KeyRegistration::initialize();
    for s in list {
        let k = keys.idx_of(s);
        if k >= NK {
            return None;
        }
        let vkpop = keys.inits[k].get_verification_key_proof_of_possession_for_concatenation();
        reg.register_by_entry(&RegistrationEntry::new(vkpop, s.stake).ok()?).ok()?;
    }
    let closed = reg.close_registration(params).ok()?;
    let mut out = vec![];
    for s in list {
        let mut init = keys.inits[keys.idx_of(s)].clone();
        init.stake = s.stake;
        let signer = init.try_create_signer::<D>(&closed).ok()?;
        out.push(signer.sign(msg)?);
    }
    Some(out)
}

/// slot of every listed signer in the multi-signer: the signer index under which its signature verifies
fn probe_slots(keys: &Keys, ms: &MultiSigner, list: &[SignerWithStake], params: &Parameters, pm: &ProtocolMessage) -> Vec<String> {
    let msg = pm.compute_hash();
    // the signatures over a list depend on the list only: computed once per distinct list
    let memo_key = show_list(keys, list);
    let cached = keys.sig_memo.borrow().get(&memo_key).cloned();
    let sigs = match cached {
        Some(x) => x,
        None => {
            let x = raw_signatures(keys, list, params, msg.as_bytes());
            keys.sig_memo.borrow_mut().insert(memo_key, x.clone());
            x
        }
    };
    list.iter()
        .enumerate()
        .map(|(i, s)| {
            let Some(sigs) = &sigs else { return "x".to_string() };
            let base = &sigs[i];
            let mut order: Vec<u64> = vec![base.signer_index];
            order.extend((0..(list.len() as u64 + 3)).filter(|j| *j != base.signer_index));
            for j in order {
                let mut sig = base.clone();
                sig.signer_index = j;
                let idx = sig.get_concatenation_signature_indices();
                let ss = SingleSignature::new(s.party_id.clone(), sig.into(), idx);
                if ms.verify_single_signature(pm, &ss).is_ok() {
                    return j.to_string();
                }
            }
            "x".to_string()
        })
        .collect()
}

fn show_list(keys: &Keys, l: &[SignerWithStake]) -> String {
    format!("[{}]", l.iter().map(|s| format!("{}:{}:{}", party_ord(&s.party_id), keys.idx_of(s), s.stake)).collect::<Vec<_>>().join(","))
}

fn set_of(keys: &Keys, l: &[SignerWithStake]) -> BTreeSet<(usize, usize, u64)> {
    l.iter().map(|s| (party_ord(&s.party_id), keys.idx_of(s), s.stake)).collect()
}

struct Obs {
    text: String,
    cur: Option<Vec<SignerWithStake>>,
    next: Option<Vec<SignerWithStake>>,
    cur_key: Option<String>,
    next_key: Option<String>,
    /// the keys the two multi-signers compute themselves
    cur_ms_key: Option<String>,
    next_ms_key: Option<String>,
    next_parties: Option<Vec<usize>>,
    total_next: Option<u64>,
}

fn observe(keys: &Keys, svc: &dyn EpochService, params: &Parameters, pm: &ProtocolMessage, with_slots: bool) -> Obs {
    let cur = svc.current_signers_with_stake().ok().cloned();
    let next = svc.next_signers_with_stake().ok().cloned();
    let next_parties: Option<Vec<usize>> = svc.next_signers().ok().map(|l| l.iter().map(|s| party_ord(&s.party_id)).collect());
    let tc = svc.total_stakes_signers().ok();
    let tn = svc.total_next_stakes_signers().ok();
    let key = |r: mithril_common::StdResult<&ProtocolAggregateVerificationKey>| -> (Option<String>, String) {
        match r {
            Ok(k) => { let t = avk_text(k); (Some(t.clone()), t) }
            Err(e) => (None, match e.downcast_ref::<EpochServiceError>() {
                Some(EpochServiceError::NotYetComputed(_)) => "nc".into(),
                Some(EpochServiceError::NotYetInitialized) => "ui".into(),
                _ => "other".into(),
            }),
        }
    };
    let (cur_key, ck) = key(svc.current_aggregate_verification_key());
    let (next_key, nk) = key(svc.next_aggregate_verification_key());
    let slots = |ms: mithril_common::StdResult<&MultiSigner>, l: &Option<Vec<SignerWithStake>>| -> String {
        match (ms, l) {
            (Ok(ms), Some(l)) if with_slots => format!("[{}]", probe_slots(keys, ms, l, params, pm).join(",")),
            (Ok(_), Some(_)) => "-".into(),
            _ => "nc".into(),
        }
    };
    let cs = slots(svc.protocol_multi_signer(), &cur);
    let ns = slots(svc.next_protocol_multi_signer(), &next);
    let cur_ms_key = svc.protocol_multi_signer().ok().map(|m| avk_text(&m.compute_aggregate_verification_key()));
    let next_ms_key = svc.next_protocol_multi_signer().ok().map(|m| avk_text(&m.compute_aggregate_verification_key()));
    let text = match (&cur, &next) {
        (Some(c), Some(n)) => format!(
            "c={};n={};ns=[{}];t={},{};ck={};nk={};cs={};nsl={}",
            show_list(keys, c), show_list(keys, n),
            next_parties.as_ref().map(|l| l.iter().map(|x| x.to_string()).collect::<Vec<_>>().join(",")).unwrap_or_default(),
            tc.unwrap_or(0), tn.unwrap_or(0), ck, nk, cs, ns
        ),
        _ => format!("ui;ck={};nk={}", ck, nk),
    };
    Obs { text, cur, next, cur_key, next_key, cur_ms_key, next_ms_key, next_parties, total_next: tn }
}

fn op_token(op: &Op) -> String {
    match op {
        Op::Save(e, p, k, s) => format!("(save,{},{},{},{})", e, p + 1, k, s),
        Op::Prune(e) => format!("(prune,{})", e),
        Op::Inform(e) => format!("(inform,{})", e),
        Op::Update => "(update)".into(),
        Op::Precompute => "(precompute)".into(),
    }
}

fn gen_history(rng: &mut Rng, thorough: bool) -> Vec<Op> {
    let mut ops = vec![];
    let mut e = rng.range(1, 4);
    // one history in eight works with huge stakes: totals at and beyond 2^64
    let huge = rng.chance(1, 8);
    let stake = move |rng: &mut Rng| -> u64 {
        // 2^63-1 is the largest stake the sqlite column takes: three of them pass 2^64
        if huge && rng.chance(3, 5) { return i64::MAX as u64; }
        match rng.below(12) { 0 => 0, 1 => 1u64 << 62, 2 | 3 => 5, _ => rng.range(1, 40) }
    };
    let key_of = |rng: &mut Rng, p: usize| -> usize {
        match rng.below(10) { 0 => rng.below(NK as u64) as usize, 1 | 2 => if p + NP < NK { p + NP } else { p }, _ => p }
    };
    // initial registrations for the epochs around e, in a random arrival order
    let mut initial: Vec<Op> = vec![];
    for ep in e.saturating_sub(1)..=e + 1 {
        let n = match rng.below(10) { 0 => 0, 1 => 1, _ => rng.range(2, NP as u64) } as usize;
        let mut parties: Vec<usize> = (0..NP).collect();
        rng.shuffle(&mut parties);
        let all_zero = rng.chance(1, 25);
        for p in &parties[..n] {
            initial.push(Op::Save(ep, *p, *p, if all_zero { 0 } else { stake(rng) }));
        }
    }
    rng.shuffle(&mut initial);
    ops.extend(initial);
    let mut informed = false;
    if !rng.chance(1, 8) {
        ops.push(Op::Inform(e));
        informed = true;
        if !rng.chance(1, 4) { ops.push(Op::Precompute); }
    }
    let n = if thorough { rng.range(8, 22) } else { rng.range(6, 14) };
    for _ in 0..n {
        match rng.below(20) {
            0..=3 => {
                let ep = if rng.chance(1, 10) { 0 } else if informed && rng.chance(2, 3) { e + 1 } else { e };
                ops.push(Op::Inform(ep));
                if ep > 0 { e = ep; informed = true; }
                if rng.chance(2, 3) { ops.push(Op::Precompute); }
            }
            4..=5 => ops.push(Op::Precompute),
            6..=8 => ops.push(Op::Update),
            9 => ops.push(Op::Prune(rng.range(e.saturating_sub(1), e + 1))),
            _ => {
                // a registration arriving: mostly for the epoch the next signers are read from
                let ep = match rng.below(6) { 0 => e.saturating_sub(1), 1 => e + 1, _ => e };
                let p = rng.below(NP as u64) as usize;
                let k = key_of(rng, p);
                ops.push(Op::Save(ep, p, k, stake(rng)));
                if rng.chance(1, 2) { ops.push(Op::Update); }
            }
        }
    }
    ops
}

fn main() {
    hagg::silence_stdout();
    hagg::install_panic_hook();
    let args = Args::parse();
    let mut rng = Rng::new(args.seed);
    let mut sink = Sink::new(&args);
    let mut crng = ChaCha20Rng::from_seed([args.seed as u8 ^ 0x6b; 32]);
    let rt = tokio::runtime::Builder::new_current_thread().enable_all().build().unwrap();
    // phi_f = 1: every party wins every lottery, so every registered party can produce the probing signature
    let params = ProtocolParameters { k: 1, m: 3, phi_f: 1.0 };
    let stm_params: Parameters = params.clone().into();
    let inits: Vec<Initializer> = (0..NK).map(|_| Initializer::new(stm_params, 1, &mut crng)).collect();
    let hexes: Vec<String> = inits.iter().map(|i| hex(&i.get_verification_key_proof_of_possession_for_concatenation().vk.to_bytes())).collect();
    let keys = Keys { inits, hexes, sig_memo: Default::default(), avk_memo: Default::default() };
    let mut pm = ProtocolMessage::new();
    pm.set_message_part(ProtocolMessagePartKey::SnapshotDigest, "c06b".to_string());
    let nhist = if args.thorough() { 700 } else { 110 };

    for h in 0..nhist {
        let mut hrng = rng.fork();
        if !sink.wanted() { sink.skip(); continue; }
        let ops = gen_history(&mut hrng, args.thorough());
        let mut env = rt.block_on(make_env(&format!("h{}", h), &params));
        let idx = sink.next_index();
        let mut executed = 0usize;
        let mut steps: Vec<String> = vec![];
        // the harness' own record of what it wrote: (epoch, party) -> (key, stake)
        let mut written: BTreeMap<(u64, usize), (usize, u64)> = BTreeMap::new();
        let (mut dirty_cur, mut dirty_next) = (false, false);
        let mut update_failed = false; // the last update_next_signers_with_stake failed and nothing rebuilt the cache since
        let mut updated_since_inform = false;
        let mut informed: Option<u64> = None;
        let mut sfails: Vec<(String, String)> = vec![];
        for (si, op) in ops.iter().enumerate() {
            let res = match op {
                Op::Save(e, p, k, s) => {
                    rt.block_on(env.vk_store.save_verification_key(Epoch(*e), keys.signer(*p, *k, *s))).unwrap();
                    written.insert((*e, *p), (*k, *s));
                    dirty_cur = true; dirty_next = true;
                    "ok".to_string()
                }
                Op::Prune(e) => {
                    rt.block_on(env.vk_store.prune_verification_keys(Epoch(*e))).unwrap();
                    written.retain(|(ep, _), _| *ep >= *e);
                    dirty_cur = true; dirty_next = true;
                    "ok".to_string()
                }
                Op::Inform(e) => {
                    let svc = env.svc.clone();
                    let r = rt.block_on(hagg::catch_async(async { svc.write().await.inform_epoch(Epoch(*e)).await }));
                    let c = res_class(&r);
                    if c == "ok" { informed = Some(*e); dirty_cur = false; dirty_next = false; update_failed = false; updated_since_inform = false; }
                    c
                }
                Op::Update => {
                    let svc = env.svc.clone();
                    let r = rt.block_on(hagg::catch_async(async { svc.write().await.update_next_signers_with_stake().await }));
                    let c = res_class(&r);
                    // a successful update re-reads the next signers; a failing one keeps the previous ones (and the previous keys)
                    if c == "ok" { dirty_next = false; }
                    if c != "err:notinit" { updated_since_inform = true; update_failed = c != "ok"; }
                    c
                }
                Op::Precompute => {
                    let svc = env.svc.clone();
                    let r = rt.block_on(hagg::catch_async(async { svc.write().await.precompute_epoch_data().await }));
                    let c = res_class(&r);
                    if c == "ok" { update_failed = false; }
                    c
                }
            };
            executed += 1;
            if res == "panic" {
                // a panic ends the node: the history ends here, nothing is observed after it
                steps.push("panic".to_string());
                break;
            }
            let svc = env.svc.clone();
            let guard = rt.block_on(async { svc.read().await });
            // the slots are probed after the service calls (a store write does not reach the service)
            let o = observe(&keys, &*guard, &stm_params, &pm, matches!(op, Op::Inform(_) | Op::Update | Op::Precompute) || si + 1 == ops.len());
            // (a history cut by a panic ends with a service call, whose step is not observed)
            steps.push(format!("{};{}", res, o.text));
            let at = format!("step {} {}", si, op_token(op));

            // ---- S1: the reported keys are the keys of the reported lists (aggregator-side builder on the reported list)
            for (which, list, key) in [("current", &o.cur, &o.cur_key), ("next", &o.next, &o.next_key)] {
                let (Some(list), Some(key)) = (list, key) else { continue };
                let memo_key = show_list(&keys, list);
                let cached = keys.avk_memo.borrow().get(&memo_key).cloned();
                let expect: Result<String, String> = match cached {
                    Some(x) => x,
                    None => {
                        let x = SignerBuilder::new(list, &params).map(|b| avk_text(&b.compute_aggregate_verification_key())).map_err(|e| build_class(&e));
                        keys.avk_memo.borrow_mut().insert(memo_key, x.clone());
                        x
                    }
                };
                let good = matches!(&expect, Ok(k) if k == key);
                if !good {
                    let class = if which == "next" && update_failed { "stale-after-failed-update" } else { "stale-key" };
                    let what = match &expect {
                        Ok(k) => format!("{}: {}_aggregate_verification_key() = {} but the {} signers the service reports ({}) have the key {}", at, which, key, which, show_list(&keys, list), k),
                        Err(e) => format!("{}: {}_aggregate_verification_key() = {} but SignerBuilder::new on the {} signers the service reports ({}) fails: {}", at, which, key, which, show_list(&keys, list), e),
                    };
                    sfails.push((class.into(), what));
                }
            }
            // ---- S1b: the multi-signers carry the reported keys
            for (which, key, ms_key) in [("current", &o.cur_key, &o.cur_ms_key), ("next", &o.next_key, &o.next_ms_key)] {
                if key != ms_key {
                    sfails.push(("multi-signer-key-mismatch".into(), format!("{}: {}_aggregate_verification_key() = {:?} but the {} protocol multi-signer computes {:?}", at, which, key, which, ms_key)));
                }
            }
            // ---- S3: the reported sets are the registrations written for the epochs e-1 / e
            if let (Some(e), Some(cur), Some(next)) = (informed, &o.cur, &o.next) {
                let want = |ep: u64| -> BTreeSet<(usize, usize, u64)> { written.iter().filter(|((x, _), _)| *x == ep).map(|((_, p), (k, s))| (*p + 1, *k, *s)).collect() };
                if !dirty_cur && set_of(&keys, cur) != want(e - 1) {
                    sfails.push(("wrong-signer-set".into(), format!("{}: current signers {} are not the registrations recorded for epoch {}", at, show_list(&keys, cur), e - 1)));
                }
                if !dirty_next && set_of(&keys, next) != want(e) {
                    sfails.push(("wrong-signer-set".into(), format!("{}: next signers {} are not the registrations recorded for epoch {}", at, show_list(&keys, next), e)));
                }
            }
            // ---- S5: the Signer list / total of the next signers follow the next signers with stake
            if let (Some(next), Some(np), Some(tn), true) = (&o.next, &o.next_parties, o.total_next, matches!(op, Op::Inform(_) | Op::Update | Op::Precompute)) {
                let parties: Vec<usize> = next.iter().map(|s| party_ord(&s.party_id)).collect();
                let total: u128 = next.iter().map(|s| s.stake as u128).sum();
                if parties != *np || total != tn as u128 {
                    let class = if updated_since_inform { "stale-next-signers" } else { "inconsistent-next-signers" };
                    sfails.push((class.into(), format!("{}: next_signers() = {:?} / total_next_stakes_signers() = {} but next_signers_with_stake() = {} (total {})", at, np, tn, show_list(&keys, next), total)));
                }
            }
            drop(guard);
            // ---- S2: a fresh service informed of the same epoch over the same stores
            if let Some(e) = informed {
                if matches!(op, Op::Inform(_) | Op::Update | Op::Precompute) && (!dirty_cur || !dirty_next) {
                    let mut fresh = rt.block_on(fresh_service(&mut env));
                    let r1 = rt.block_on(hagg::catch_async(fresh.inform_epoch(Epoch(e))));
                    if matches!(r1, Ok(Ok(()))) {
                        let r2 = rt.block_on(hagg::catch_async(fresh.precompute_epoch_data()));
                        let f = observe(&keys, &fresh, &stm_params, &pm, false);
                        let live_computed = o.cur_key.is_some();
                        let fresh_computed = matches!(r2, Ok(Ok(())));
                        if !dirty_cur && !dirty_next && live_computed && !fresh_computed {
                            let class = if update_failed { "stale-after-failed-update" } else { "stale-key" };
                            sfails.push((class.into(), format!("{}: the service reports keys, a fresh service informed of epoch {} over the same stores cannot compute any ({})", at, e, res_class(&r2))));
                        }
                        for (which, dirty, lk, fk, ll, fl) in [("current", dirty_cur, &o.cur_key, &f.cur_key, &o.cur, &f.cur), ("next", dirty_next, &o.next_key, &f.next_key, &o.next, &f.next)] {
                            if dirty { continue; }
                            if let (Some(ll), Some(fl)) = (ll, fl) {
                                if set_of(&keys, ll) != set_of(&keys, fl) {
                                    sfails.push(("history-dependent-set".into(), format!("{}: {} signers {} differ from those of a fresh service informed of epoch {}: {}", at, which, show_list(&keys, ll), e, show_list(&keys, fl))));
                                }
                            }
                            if let (Some(lk), Some(fk)) = (lk, fk) {
                                if lk != fk {
                                    let class = if which == "next" && update_failed { "stale-after-failed-update" } else { "stale-key" };
                                    sfails.push((class.into(), format!("{}: {}_aggregate_verification_key() = {} but a fresh service informed of epoch {} over the same stores reports {}", at, which, lk, e, fk)));
                                }
                            }
                        }
                    }
                }
            }
        }
        // the request holds the operations that were executed (all of them unless a panic ended the history)
        let req = format!("c06.service keys=[{}] ops=[{}]", keys.hexes.join(","), ops[..executed].iter().map(op_token).collect::<Vec<_>>().join(","));
        let i = sink.case(if h % 2 == 0 { "history-even" } else { "history-odd" }, &req, &steps.join(" | "));
        debug_assert_eq!(i, idx);
        for (class, what) in sfails {
            sink.sfail(i, &class, &what, &req);
        }
    }

    // ---- witnesses of the two repaired findings, replayed on the real service every run (must not reproduce) -------------------------------------
    {
        let ok = |r: &anyhow::Result<()>| if r.is_ok() { "Ok" } else { "Err" };
        let save = |env: &Env, e: u64, p: usize, k: usize, s: u64| { let _ = rt.block_on(env.vk_store.save_verification_key(Epoch(e), keys.signer(p, k, s))); };
        // (1) a registration arriving after inform_epoch, then update_next_signers_with_stake
        let env = rt.block_on(make_env("witness1", &params));
        let svc = env.svc.clone();
        save(&env, 1, 0, 0, 5);
        save(&env, 2, 0, 0, 5);
        let r0 = rt.block_on(async { svc.write().await.inform_epoch(Epoch(2)).await });
        save(&env, 2, 1, 1, 6);
        let r = rt.block_on(async { svc.write().await.update_next_signers_with_stake().await });
        let (nws, ns, tn) = rt.block_on(async {
            let g = svc.read().await;
            (g.next_signers_with_stake().map(|l| l.len()).unwrap_or(0), g.next_signers().map(|l| l.len()).unwrap_or(0), g.total_next_stakes_signers().unwrap_or(0))
        });
        sink.witness("C06-stale-next-signers", r0.is_ok() && r.is_ok() && nws == 2 && (ns != 2 || tn != 11),
            &format!("save(1,A,5) save(2,A,5) inform_epoch(2)={} save(2,B,6) update_next_signers_with_stake={}: next_signers_with_stake() has {} signers (total 11), next_signers() has {}, total_next_stakes_signers() = {}", ok(&r0), ok(&r), nws, ns, tn));
        drop(svc);
        drop(env);
        // (2) an update that cannot build the next multi-signer keeps the previous key next to the new list
        let env2 = rt.block_on(make_env("witness2", &params));
        let svc = env2.svc.clone();
        save(&env2, 1, 0, 0, 5);
        save(&env2, 2, 0, 0, 5);
        let r0 = rt.block_on(async { svc.write().await.inform_epoch(Epoch(2)).await });
        let r1 = rt.block_on(async { svc.write().await.precompute_epoch_data().await });
        save(&env2, 2, 1, 0, 6); // party B arrives with party A's key
        let r = rt.block_on(async { svc.write().await.update_next_signers_with_stake().await });
        let (nws, key) = rt.block_on(async {
            let g = svc.read().await;
            (g.next_signers_with_stake().cloned().unwrap_or_default(), g.next_aggregate_verification_key().ok().map(avk_text))
        });
        let builds = SignerBuilder::new(&nws, &params).is_ok();
        sink.witness("C06-stale-after-failed-update", r0.is_ok() && r1.is_ok() && r.is_err() && nws.len() == 2 && key.is_some() && !builds,
            &format!("save(1,A,5) save(2,A,5) inform_epoch(2)={} precompute={} save(2,B with A's key,6) update_next_signers_with_stake={}: next_signers_with_stake() has {} signers (SignerBuilder::new on them: {}), next_aggregate_verification_key() = {:?}", ok(&r0), ok(&r1), ok(&r), nws.len(), if builds { "Ok" } else { "Err" }, key));
        drop(svc);
        drop(env2);
    }
    sink.finish();
}
