//! C15 harness: the C14 driver plus crash points (hook H3, `mithril_aggregator::verif_hooks`).
//! case = (history prefix, crash point): run the prefix, bring the aggregator to the operation that
//! passes the point, arm it, tick (the operation stops there with the error), drop the process state,
//! rebuild on the same database, continue with productive rounds.
//! K: the same observations as C14 after every event (a cut tick is the model event `crash p`).
//! S on the real store after the continuation: every certificate verifies with its chain, at most one
//! signed entity per (type, beacon), each referencing a stored certificate of exactly that entity,
//! progress (a later round is certified without repair). A second certificate for the interrupted
//! entity after a stop between certificate insert and open-message update is recorded as a note
//! (it is C14's clause, whose quantifier has no mid-tick crash), any other double certificate fails.
use hagg::walk::{Gen, HistoryCfg};
use hagg::*;

async fn bootstrap(g: &mut Gen, rng: &mut Rng) {
    g.w.tick().await;
    let n = g.w.n();
    for p in 0..n {
        g.w.register(p, 2).await;
    }
    g.w.epoch_up(1).await;
    for _ in 0..3 {
        g.w.tick().await;
    }
    let _ = rng;
}


/// the process stops and is started again on the same database; continuation; S on the real store
async fn continue_and_judge(g: &mut Gen, sink: &mut Sink, notes: &mut std::collections::BTreeMap<String, u64>, p: usize, fired: bool, interrupted: Option<usize>, tag_prefix: &str) {
    let certs_at_crash = g.w.last_cert_count;
    // the process stops and is started again on the same database
    g.w.restart().await;
    // continuation: productive rounds, a new beacon, more rounds
    for _ in 0..3 {
        g.w.tick().await;
    }
    for round in 0..3 {
        for _ in 0..5 {
            g.drive().await;
        }
        if round < 2 {
            g.w.immutable_up().await;
        }
    }
    // … and an epoch change: everybody registers for the next key, the epoch moves, two more rounds. The
    // aggregator must certify in the new epoch without manual repair (a round lost for good in the
    // interrupted epoch shows up here as an epoch gap at the latest).
    let certs_before_epoch_change = g.w.last_cert_count;
    // a round that cannot be closed: after the restart and fifteen productive steps an open message is still not
    // marked certified although a certificate of its entity is stored (the aggregator then signs that entity again
    // and again and opens nothing else until the message expires or the epoch changes)
    let stalled: Option<(usize, String)> = {
        let d = g.w.last_dump.clone();
        d.oms.iter().find(|o| !o.certified && !o.expired && d.certs.iter().any(|c| c.ent == Some(o.ent))).map(|o| (o.ent, format!("{:?}", g.w.entities[o.ent])))
    };
    let e_now = g.w.time_point().await.epoch.0;
    for q in 0..g.w.n() {
        g.w.register(q, e_now + 1).await;
    }
    g.w.epoch_up(1).await;
    for _ in 0..3 {
        g.w.tick().await;
    }
    for _ in 0..2 {
        for _ in 0..5 {
            g.drive().await;
        }
    }
    let certs_after_epoch_change = g.w.last_cert_count;
    g.w.check_store("after crash, restart and continuation").await;
    let tag = format!("{}{}{}", tag_prefix, CRASH_POINTS[p], if fired { "" } else { ":not-fired" });
    let req = g.w.request("c15.run");
    let idx = sink.case(&tag, &req, &g.w.observation());
    let healthy = !matches!(g.w.tester.runtime.state_label(), "blocked-epoch-gap" | "blocked-no-genesis");
    let mut fails: Vec<(String, String)> = vec![];
    for (c, what) in &g.w.sfails {
        if c == "double-certificate" {
            // precise classification of the known observation
            let is_interrupted = interrupted.map(|e| what.starts_with(&format!("entity {} ", e))).unwrap_or(false);
            if fired && p == 1 && is_interrupted {
                *notes.entry("note.double_certificate_after_crash_between_insert_and_flag".into()).or_insert(0) += 1;
                continue;
            }
        }
        fails.push((c.clone(), what.clone()));
    }
    if fired {
        // the interrupted round is completed or superseded
        if let Some(e) = interrupted {
            let d = g.w.last_dump.clone();
            let disc = mithril_common::entities::SignedEntityTypeDiscriminants::from(&g.w.entities[e]);
            let completed = d.certs.iter().any(|c| c.ent == Some(e));
            let superseded = d.certs.iter().any(|c| c.ent.map(|x| x > e && mithril_common::entities::SignedEntityTypeDiscriminants::from(&g.w.entities[x]) == disc).unwrap_or(false));
            if !completed && !superseded {
                fails.push(("round-lost".into(), format!("entity {} ({:?}), interrupted at {}, is neither certified nor superseded by a later certified beacon of its type after restart, three productive rounds, an epoch change and two more rounds", e, g.w.entities[e], CRASH_POINTS[p])));
            }
        }
        if let Some((e, what)) = &stalled {
            fails.push(("round-not-closed".into(), format!("entity {} ({}) has a stored certificate but its open message is still open after the crash at {}, a restart and fifteen productive steps in the same epoch", e, what, CRASH_POINTS[p])));
        }
        if !healthy {
            fails.push(("blocked-after-crash".into(), format!("after the crash at {}, restart and an epoch change the aggregator is in state {}", CRASH_POINTS[p], g.w.tester.runtime.state_label())));
        } else if certs_after_epoch_change <= certs_before_epoch_change {
            fails.push(("no-progress".into(), format!("no certificate was produced in the epoch following the crash at {} ({} certificates before and after the epoch change)", CRASH_POINTS[p], certs_before_epoch_change)));
        }
    }
    if healthy && fired && g.w.last_cert_count <= certs_at_crash {
        fails.push(("no-progress".into(), format!("no certificate was produced after the crash at {} and restart ({} certificates before and after the continuation)", CRASH_POINTS[p], certs_at_crash)));
    }
    if fired {
        *notes.entry(format!("fired.{}", CRASH_POINTS[p])).or_insert(0) += 1;
    }
    // certified entities without artifact (not a clause of C15; recorded)
    let d = g.w.last_dump.clone();
    let without = d.certs.iter().filter(|c| c.ent.is_some() && !d.ses.iter().any(|(e, _)| Some(*e) == c.ent)).count();
    if without > 0 {
        *notes.entry("note.certified_entities_without_artifact".into()).or_insert(0) += without as u64;
    }
    for (c, what) in fails {
        sink.sfail(idx, &c, &what, &req);
    }
}

#[tokio::main(flavor = "multi_thread", worker_threads = 4)]
async fn main() {
    let args = Args::parse();
    silence_stdout();
    install_panic_hook();
    let mut sink = Sink::new(&args);
    let (n_hist, positions): (usize, Vec<usize>) = if args.thorough() { (10, vec![8, 20, 35, 55]) } else { (3, vec![8, 25, 45]) };
    let mut notes: std::collections::BTreeMap<String, u64> = Default::default();
    for h in 0..n_hist {
        for (pi, pos) in positions.iter().enumerate() {
            for p in 0..CRASH_POINTS.len() {
                if !sink.wanted() {
                    sink.skip();
                    continue;
                }
                // same prefix for every crash point of a (history, position)
                let mut rng = Rng::new(args.seed.wrapping_mul(7_000_003).wrapping_add(h as u64));
                let cfg = HistoryCfg {
                    n_signers: 3 + (h % 3),
                    k: [5u64, 40, 70][h % 3],
                    m: 100,
                    events: 400,
                    with_csd: h % 2 == 1,
                    restarts: true,
                    jumps: false,
                    sparse_regs: false,
                    param_changes: h % 4 == 1,
                };
                let name = format!("c15_{}_{}_{}_{}", args.seed, h, pi, p);
                let mut g = Gen::new(&name, &cfg).await;
                bootstrap(&mut g, &mut rng).await;
                while g.w.events.len() < *pos {
                    g.step(&mut rng).await;
                }
                // bring the aggregator to the operation that passes the point
                let mut fired = false;
                let mut interrupted: Option<usize> = None;
                if p < 6 {
                    let mut idle_ready = 0;
                    for _ in 0..14 {
                        match g.w.tester.runtime.state_label() {
                            "signing" => break,
                            "ready" => {
                                idle_ready += 1;
                                if idle_ready >= 2 {
                                    // nothing left to sign at this time point: a new immutable file opens a round
                                    g.w.immutable_up().await;
                                    idle_ready = 0;
                                }
                            }
                            _ => {}
                        }
                        g.w.tick().await;
                    }
                    for _ in 0..4 {
                        if g.w.tester.runtime.state_label() != "signing" {
                            g.w.tick().await;
                            continue;
                        }
                        g.sign_all_current(false).await;
                        interrupted = g.w.last_dump.oms.iter().rev().find(|o| !o.certified && !o.expired).map(|o| o.ent);
                        if g.w.crash_tick(p).await {
                            fired = true;
                            break;
                        }
                    }
                } else {
                    for _ in 0..10 {
                        if g.w.tester.runtime.state_label() == "ready" {
                            break;
                        }
                        g.drive().await;
                    }
                    for _ in 0..3 {
                        g.w.immutable_up().await;
                        let tp = g.w.time_point().await;
                        let avail = g.w.avail(&tp);
                        let target = avail.iter().copied().find(|e| !g.w.last_dump.oms.iter().any(|o| o.ent == *e));
                        if let Some(ent) = target {
                            let ep = g.w.entities[ent].get_epoch_when_signed_entity_type_is_signed().0;
                            let regs = g.w.regs.get(&(ep - 1)).cloned().unwrap_or_default();
                            for q in regs {
                                g.sign_and_submit(ent, q, ep - 1, true, ent).await;
                            }
                            interrupted = Some(ent);
                        }
                        for _ in 0..3 {
                            if g.w.crash_tick(p).await {
                                fired = true;
                                break;
                            }
                        }
                        if fired {
                            break;
                        }
                    }
                }
                continue_and_judge(&mut g, &mut sink, &mut notes, p, fired, interrupted, "").await;
            }
        }
    }
    // ---- the default configuration: only the stake distribution is signed, ONE round per epoch. A round lost for
    // good is then the only certificate of its epoch: the next epoch must not end in an epoch gap.
    for h in 0..(if args.thorough() { 3 } else { 1 }) {
        for p in 0..6usize.min(CRASH_POINTS.len()) {
            if !sink.wanted() {
                sink.skip();
                continue;
            }
            let mut rng = Rng::new(args.seed.wrapping_mul(5_000_011).wrapping_add(h as u64));
            let cfg = HistoryCfg { n_signers: 3 + h, k: [5u64, 40, 70][h % 3], m: 100, events: 0, with_csd: false, restarts: true, jumps: false, sparse_regs: false, param_changes: false };
            let name = format!("c15_{}_msd_{}_{}", args.seed, h, p);
            let mut g = Gen::with_discs(&name, &cfg, &[mithril_common::entities::SignedEntityTypeDiscriminants::MithrilStakeDistribution]).await;
            bootstrap(&mut g, &mut rng).await;
            let mut fired = false;
            let mut interrupted: Option<usize> = None;
            for _ in 0..8 {
                if g.w.tester.runtime.state_label() != "signing" {
                    g.w.tick().await;
                    continue;
                }
                g.sign_all_current(false).await;
                interrupted = g.w.last_dump.oms.iter().rev().find(|o| !o.certified && !o.expired).map(|o| o.ent);
                if g.w.crash_tick(p).await {
                    fired = true;
                    break;
                }
            }
            continue_and_judge(&mut g, &mut sink, &mut notes, p, fired, interrupted, "msd-only:").await;
        }
    }
    for (k, v) in notes {
        sink.note(&k, &v.to_string());
    }
    sink.finish();
}
