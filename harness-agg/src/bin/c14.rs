//! C14 harness: seeded event histories (ticks, epoch +1/+2, immutable / block progress, signer
//! registrations all/some/late/none, signatures on time / early (buffered) / late / repeated /
//! invalid / for expired or certified messages, open-message expiry, restarts between ticks) driven
//! through the REAL aggregator (RuntimeTester: state machine, certifier, sqlite).
//! K: after every event the state label, the event's outcome class and the certification tables
//! (open messages, certificates with parent ordinals, single signatures, buffered signatures, signed
//! entities) equal what the Lean model `Agg.step` computes for the same history.
//! S: on the real store — every certificate verifies with its whole chain under a fresh
//! `MithrilCertificateVerifier`, parent rule, no entity certified twice, AVK / next AVK / parameters
//! of the epoch, no link across an epoch gap, signer list, signed entities.
use hagg::walk::{run_history, HistoryCfg};
use hagg::*;

#[tokio::main(flavor = "multi_thread", worker_threads = 4)]
async fn main() {
    let args = Args::parse();
    silence_stdout();
    install_panic_hook();
    let mut sink = Sink::new(&args);
    let n_hist = if args.thorough() { 240 } else { 40 };
    let mut totals: std::collections::BTreeMap<String, u64> = Default::default();
    for h in 0..n_hist {
        if !sink.wanted() {
            sink.skip();
            continue;
        }
        let mut rng = Rng::new(args.seed.wrapping_mul(1_000_003).wrapping_add(h as u64));
        let cfg = HistoryCfg::draw(&mut rng, h, args.thorough());
        let name = format!("c14_{}_{}", args.seed, h);
        let w = run_history(&name, &cfg, &mut rng, None).await;
        let req = w.request("c14.run");
        let idx = sink.case(&cfg.tag(), &req, &w.observation());
        for (c, what) in &w.sfails {
            sink.sfail(idx, c, what, &req);
        }
        for t in &w.tags {
            *totals.entry(t.clone()).or_insert(0) += 1;
        }
        *totals.entry("events".into()).or_insert(0) += w.events.len() as u64;
        *totals.entry("certificates".into()).or_insert(0) += (w.last_cert_count.saturating_sub(1)) as u64;
    }
    for (k, v) in totals {
        sink.note(&format!("hit.{}", k), &v.to_string());
    }
    sink.finish();
}
