//! Shared driver of the aggregator harnesses (C14, C15, C16).
//!
//! Mounts the aggregator's own integration-test driver (`tests/test_extensions`, `RuntimeTester`)
//! by `#[path]`, drives the REAL aggregator (state machine, certifier, sqlite repositories) and
//! offers: seeded event generation, canonical dumps of the certification tables read through a
//! second sqlite connection, the request line for the Lean model `Agg.step`, and the S checks
//! evaluated on the real store (fresh `MithrilCertificateVerifier`, parent rule, uniqueness,
//! AVK / parameters per epoch, gaps, signed entities).
#[path = "/repo/mithril-aggregator/tests/test_extensions/mod.rs"]
#[macro_use]
pub mod test_extensions;

use std::collections::{BTreeMap, BTreeSet};
use std::path::PathBuf;
use std::sync::Arc;

use mithril_aggregator::database::record::OpenMessageRecord;
use mithril_aggregator::database::repository::CertificateRepository;
use mithril_aggregator::services::{CertifierServiceError, SignatureRegistrationStatus};
use mithril_aggregator::{ServeCommandConfiguration, SignerRegistrationError};
use mithril_common::certificate_chain::{
    CertificateRetriever, CertificateRetrieverError, CertificateVerifier, MithrilCertificateVerifier,
};
use mithril_common::entities::{
    BlockNumber, Certificate, ChainPoint, Epoch, ProtocolMessage, ProtocolMessagePartKey, ProtocolParameters,
    SignedEntityConfig, SignedEntityType, SignedEntityTypeDiscriminants, SingleSignature,
    SingleSignatureAuthenticationStatus, SlotNumber, TimePoint,
};
use mithril_common::protocol::{MultiSigner as ProtocolMultiSigner, SignerBuilder, SingleSigner, ToMessage};
use mithril_common::test::builder::{MithrilFixture, MithrilFixtureBuilder};

pub use hutil::{Args, Rng, Sink};
use test_extensions::RuntimeTester;

/// redirect the process' stdout to /dev/null (the mounted driver logs every record at trace level to stdout)
pub fn silence_stdout() {
    use std::os::fd::AsRawFd;
    if std::env::var("HAGG_VERBOSE").is_ok() {
        return;
    }
    if let Ok(f) = std::fs::OpenOptions::new().write(true).open("/dev/null") {
        unsafe {
            libc::dup2(f.as_raw_fd(), 1);
        }
        std::mem::forget(f);
    }
}

static QUIET: std::sync::atomic::AtomicBool = std::sync::atomic::AtomicBool::new(false);

/// panics raised while `catch_async` runs are outcomes (`panic`), not failures of the harness: keep them quiet
pub fn install_panic_hook() {
    let default = std::panic::take_hook();
    std::panic::set_hook(Box::new(move |info| {
        if !QUIET.load(std::sync::atomic::Ordering::SeqCst) {
            default(info);
        }
    }));
}

/// run a future of the real code, mapping a panic to `Err(message)`
pub async fn catch_async<F: std::future::Future>(f: F) -> Result<F::Output, String> {
    use futures::FutureExt;
    QUIET.store(true, std::sync::atomic::Ordering::SeqCst);
    let r = std::panic::AssertUnwindSafe(f).catch_unwind().await;
    QUIET.store(false, std::sync::atomic::Ordering::SeqCst);
    r.map_err(|e| {
        if let Some(s) = e.downcast_ref::<&str>() {
            s.to_string()
        } else if let Some(s) = e.downcast_ref::<String>() {
            s.clone()
        } else {
            "panic".to_string()
        }
    })
}

pub struct Retr(pub Arc<CertificateRepository>);
#[async_trait::async_trait]
impl CertificateRetriever for Retr {
    async fn get_certificate_details(&self, hash: &str) -> Result<Certificate, CertificateRetrieverError> {
        self.0
            .get_certificate::<Certificate>(hash)
            .await
            .map_err(CertificateRetrieverError)?
            .ok_or_else(|| CertificateRetrieverError(anyhow::anyhow!("not found {hash}")))
    }
}

/// signing material of one epoch key K (= the registrations recorded under K): the signer set that is
/// `current` for epoch K+1 and `next` for epoch K
pub struct KeyCrypto {
    pub params: ProtocolParameters,
    pub parties: Vec<usize>,
    pub multi_signer: ProtocolMultiSigner,
    pub signers: BTreeMap<usize, SingleSigner>,
    pub avk_hex: String,
}

#[derive(Clone, Debug)]
pub struct OmRow {
    pub ent: usize,
    pub epoch: u64,
    pub certified: bool,
    pub expired: bool,
    pub id: String,
    pub msg: usize,
}

#[derive(Clone, Debug)]
pub struct CertRow {
    pub hash: String,
    pub parent: Option<String>,
    pub epoch: u64,
    pub ent: Option<usize>,
    /// party ids of `metadata.signers`
    pub signers: Vec<String>,
}

#[derive(Clone, Debug)]
pub struct SigRow {
    pub om: String,
    pub party: String,
    pub reg_epoch: u64,
    pub lottery: String,
    pub signature: String,
}

#[derive(Clone, Debug, Default)]
pub struct Dump {
    pub oms: Vec<OmRow>,
    pub certs: Vec<CertRow>,
    pub sigs: Vec<SigRow>,
    pub buffered: Vec<(u64, String, String)>,
    pub ses: Vec<(usize, String)>,
}

/// how a signature event is built
#[derive(Clone, Debug, PartialEq)]
pub enum SigKind {
    /// the signer's own signature of the message, made with the signer set of `key`
    Own { key: u64 },
    /// sigma replaced by the sigma of the signature of another message (never verifies)
    Garbage { key: u64 },
}

#[derive(Clone, Debug)]
pub struct SigFacts {
    /// entity the signature is submitted for
    pub ent: usize,
    /// label (party ordinal) it is submitted under; >= n_signers: unregistered label
    pub label: usize,
    /// message id signed
    pub msg: usize,
    /// epochs E such that the signature verifies for its message under the signer set of key E-1
    pub ok: Vec<u64>,
    /// lottery indices carried inside the signature
    pub idx: Vec<u64>,
    pub auth: bool,
    /// slot owner (party ordinal) per epoch E in `ok` — the party whose key sits at the signature's signer_index
    pub owner: Vec<(u64, usize)>,
    /// identifier of the signature value (index into World::sigmas)
    pub sigma: usize,
    /// the party whose key produced the signature (its key sits at the signature's slot)
    pub signer: usize,
}

pub struct World {
    pub name: String,
    pub tester: RuntimeTester,
    pub cfg: ServeCommandConfiguration,
    pub fixture: MithrilFixture,
    pub params: ProtocolParameters,
    /// the protocol parameters a signer registering for the epoch key K was told by the aggregator (its
    /// `signer_registration_protocol_parameters`, what `/epoch-settings` serves); keys that are absent use `params`
    pub params_of_key: BTreeMap<u64, ProtocolParameters>,
    /// one fixture per parameter set in use (same parties, same keys: the key seeds depend on the party id only)
    pub fixtures: Vec<MithrilFixture>,
    pub discs: Vec<SignedEntityTypeDiscriminants>,
    pub db_path: PathBuf,
    pub genesis_epoch: u64,
    /// registrations per epoch key, in registration order (party ordinals)
    pub regs: BTreeMap<u64, Vec<usize>>,
    pub crypto: BTreeMap<u64, KeyCrypto>,
    pub entities: Vec<SignedEntityType>,
    pub ent_keys: BTreeMap<String, usize>,
    pub msgs: Vec<String>,
    pub msg_of_ent: BTreeMap<usize, ProtocolMessage>,
    pub sigmas: Vec<String>,
    /// request tokens of the events so far (Lean side)
    pub events: Vec<String>,
    /// canonical observations after every event (implementation side)
    pub obs: Vec<String>,
    pub party_ids: Vec<String>,
    /// S failures found so far: (class, what)
    pub sfails: Vec<(String, String)>,
    /// for S: per entity the parties whose OWN valid signature was submitted (label = signer)
    pub own_valid: BTreeMap<usize, BTreeSet<usize>>,
    pub tags: BTreeSet<String>,
    pub last_cert_count: usize,
    pub last_dump: Dump,
    /// compute the slot owner of every signature (C16 only; costs one signing per party)
    pub want_owner: bool,
    /// removes the world's directories when the world is dropped (declared last: the runtime goes first)
    _cleanup: DirGuard,
}

pub struct DirGuard(Vec<PathBuf>);
impl Drop for DirGuard {
    fn drop(&mut self) {
        if std::env::var("HAGG_KEEP").is_err() {
            for d in &self.0 {
                let _ = std::fs::remove_dir_all(d);
            }
        }
    }
}

/// names of the crash points of hook H3, numbered as in `AggProto.crashPointOfNat`
pub const CRASH_POINTS: [&str; 9] = [
    "create_certificate:before_certificate_insert",
    "create_certificate:after_certificate_insert",
    "create_certificate:after_open_message_update",
    "create_artifact:before_artifact_computation",
    "create_artifact:after_artifact_computation",
    "create_artifact:after_signed_entity_insert",
    "buffered_hand_over:before_hand_over",
    "buffered_hand_over:before_buffer_removal",
    "buffered_hand_over:after_buffer_removal",
];

pub fn ent_key(set: &SignedEntityType) -> String {
    format!("{}:{}", set.index(), set.get_json_beacon().unwrap())
}

fn disc_index(d: &SignedEntityTypeDiscriminants) -> u64 {
    d.index() as u64
}

pub fn label_short(l: &str) -> &'static str {
    match l {
        "idle" => "idle",
        "ready" => "ready",
        "signing" => "signing",
        "blocked-no-genesis" => "bng",
        "blocked-genesis-epoch" => "bge",
        "blocked-epoch-gap" => "bgap",
        _ => "other",
    }
}

impl World {
    pub async fn new(name: &str, n_signers: usize, params: ProtocolParameters, discs: &[SignedEntityTypeDiscriminants]) -> World {
        // one directory per (process, world): concurrent runs of a check never share a database
        let name = &format!("{}_p{}", name, std::process::id());
        let dir = test_extensions::utilities::get_test_dir(name);
        let snap = std::env::temp_dir().join("mithril_test").join("hagg_snap").join(name);
        let _ = std::fs::remove_dir_all(&snap);
        std::fs::create_dir_all(&snap).unwrap();
        let cfg = ServeCommandConfiguration {
            protocol_parameters: Some(params.clone()),
            signed_entity_types: Some(discs.iter().map(|d| d.to_string()).collect::<Vec<_>>().join(",")),
            data_stores_directory: dir.clone(),
            ..ServeCommandConfiguration::new_sample(snap.clone())
        };
        let start = TimePoint {
            epoch: Epoch(1),
            immutable_file_number: 1,
            chain_point: ChainPoint {
                slot_number: SlotNumber(10),
                block_number: BlockNumber(100),
                block_hash: "block_hash-100".to_string(),
            },
        };
        let mut tester = RuntimeTester::build(start, cfg.clone()).await;
        let fixture = MithrilFixtureBuilder::default()
            .with_signers(n_signers)
            .with_protocol_parameters(params.clone())
            .build();
        tester.init_state_from_fixture(&fixture).await.unwrap();
        tester.register_genesis_certificate(&fixture).await.unwrap();
        let party_ids: Vec<String> = fixture.signers_with_stake().iter().map(|s| s.party_id.clone()).collect();
        let mut w = World {
            name: name.to_string(),
            tester,
            cfg,
            fixture,
            params,
            params_of_key: BTreeMap::new(),
            fixtures: vec![],
            discs: discs.to_vec(),
            db_path: dir.join("aggregator.sqlite3"),
            genesis_epoch: 1,
            regs: BTreeMap::new(),
            crypto: BTreeMap::new(),
            entities: vec![],
            ent_keys: BTreeMap::new(),
            msgs: vec![],
            msg_of_ent: BTreeMap::new(),
            sigmas: vec![],
            events: vec![],
            obs: vec![],
            party_ids,
            sfails: vec![],
            own_valid: BTreeMap::new(),
            tags: BTreeSet::new(),
            last_cert_count: 1,
            last_dump: Dump::default(),
            want_owner: false,
            _cleanup: DirGuard(vec![dir.clone(), snap.clone()]),
        };
        // `init_state_from_fixture_for_genesis` records every fixture signer under the keys 0 and 1
        w.regs.insert(0, (0..n_signers).collect());
        w.regs.insert(1, (0..n_signers).collect());
        w
    }

    pub fn n(&self) -> usize {
        self.party_ids.len()
    }

    pub fn party_ord(&self, id: &str) -> usize {
        self.party_ids.iter().position(|p| p == id).unwrap_or(self.n() + 7)
    }

    pub async fn time_point(&self) -> TimePoint {
        self.tester.observer.current_time_point().await
    }

    pub fn entity_id(&mut self, set: &SignedEntityType) -> usize {
        let k = ent_key(set);
        if let Some(i) = self.ent_keys.get(&k) {
            return *i;
        }
        self.entities.push(set.clone());
        self.ent_keys.insert(k, self.entities.len() - 1);
        self.entities.len() - 1
    }

    pub fn msg_id(&mut self, m: &ProtocolMessage) -> usize {
        let h = m.compute_hash();
        if let Some(i) = self.msgs.iter().position(|x| *x == h) {
            return i;
        }
        self.msgs.push(h);
        self.msgs.len() - 1
    }

    pub fn sigma_id(&mut self, s: &SingleSignature) -> usize {
        let h = s.signature.to_json_hex().unwrap();
        if let Some(i) = self.sigmas.iter().position(|x| *x == h) {
            return i;
        }
        self.sigmas.push(h);
        self.sigmas.len() - 1
    }

    /// the signed-entity configuration the aggregator derives from `cfg` (constant along a history)
    pub fn signed_entity_config(&self) -> SignedEntityConfig {
        SignedEntityConfig {
            allowed_discriminants: self.discs.iter().cloned().collect(),
            cardano_transactions_signing_config: self.cfg.cardano_transactions_signing_config.clone(),
            cardano_blocks_transactions_signing_config: self.cfg.cardano_blocks_transactions_signing_config.clone(),
        }
    }

    /// entities derived from a time point, in discriminant order (what a tick sees)
    pub fn avail(&mut self, tp: &TimePoint) -> Vec<usize> {
        let sets = self.signed_entity_config().list_allowed_signed_entity_types(tp).unwrap_or_default();
        sets.iter().map(|s| self.entity_id(s)).collect()
    }

    pub fn params_for_key(&self, key: u64) -> ProtocolParameters {
        self.params_of_key.get(&key).cloned().unwrap_or_else(|| self.params.clone())
    }

    /// index (into `fixtures`) of the fixture whose initializers carry `p`
    fn fixture_for(&mut self, p: &ProtocolParameters) -> Option<usize> {
        if let Some(i) = self.fixtures.iter().position(|f| f.protocol_parameters() == *p) {
            return Some(i);
        }
        let f = MithrilFixtureBuilder::default().with_signers(self.n()).with_protocol_parameters(p.clone()).build();
        // same parties and same keys as the base fixture, or the parameter set is not usable here
        let same = f.signers_fixture().iter().zip(self.fixture.signers_fixture().iter()).all(|(a, b)| {
            a.signer_with_stake.party_id == b.signer_with_stake.party_id
                && a.signer_with_stake.verification_key_for_concatenation.to_json_hex().ok() == b.signer_with_stake.verification_key_for_concatenation.to_json_hex().ok()
                && a.signer_with_stake.stake == b.signer_with_stake.stake
        });
        if !same {
            return None;
        }
        self.fixtures.push(f);
        Some(self.fixtures.len() - 1)
    }

    pub fn key_crypto(&mut self, key: u64) -> Option<&KeyCrypto> {
        let parties = self.regs.get(&key).cloned().unwrap_or_default();
        if parties.is_empty() {
            return None;
        }
        let params = self.params_for_key(key);
        let stale = self.crypto.get(&key).map(|c| c.parties != parties || c.params != params).unwrap_or(true);
        if stale {
            let fi = if params == self.params { None } else { Some(self.fixture_for(&params)?) };
            let all = match fi { None => self.fixture.signers_fixture(), Some(i) => self.fixtures[i].signers_fixture() };
            let sws: Vec<_> = parties.iter().map(|p| all[*p].signer_with_stake.clone()).collect();
            let builder = SignerBuilder::new(&sws, &params).ok()?;
            let multi_signer = builder.build_multi_signer();
            let avk_conc: mithril_common::crypto_helper::ProtocolAggregateVerificationKeyForConcatenation =
                multi_signer.compute_aggregate_verification_key().to_concatenation_aggregate_verification_key().to_owned().into();
            let avk_hex = avk_conc.to_json_hex().ok()?;
            let mut signers = BTreeMap::new();
            for p in &parties {
                let f = &all[*p];
                if let Ok(s) = builder.restore_signer_from_initializer(f.signer_with_stake.party_id.clone(), f.protocol_initializer.clone()) {
                    signers.insert(*p, s);
                }
            }
            self.crypto.insert(key, KeyCrypto { params, parties, multi_signer, signers, avk_hex });
        }
        self.crypto.get(&key)
    }

    // ------------------------------------------------------------------ table dump

    fn conn(&self) -> sqlite::Connection {
        let c = sqlite::Connection::open_with_flags(&self.db_path, sqlite::OpenFlags::new().with_read_only()).unwrap();
        let _ = c.execute("pragma busy_timeout = 5000;");
        c
    }

    pub fn dump(&mut self) -> Dump {
        let c = self.conn();
        let mut d = Dump::default();
        let mut raw_oms: Vec<(String, i64, String, i64, i64, i64, String)> = vec![];
        {
            let mut st = c
                .prepare("select open_message_id, signed_entity_type_id, cast(beacon as text), epoch_setting_id, is_certified, is_expired, protocol_message from open_message order by rowid")
                .unwrap();
            while let Ok(sqlite::State::Row) = st.next() {
                raw_oms.push((
                    st.read::<String, _>(0).unwrap(),
                    st.read::<i64, _>(1).unwrap(),
                    st.read::<String, _>(2).unwrap(),
                    st.read::<i64, _>(3).unwrap(),
                    st.read::<i64, _>(4).unwrap(),
                    st.read::<i64, _>(5).unwrap(),
                    st.read::<String, _>(6).unwrap(),
                ));
            }
        }
        for (id, ty, beacon, ep, cert, exp, pm) in raw_oms {
            let ent = self.entity_of_row(ty, &beacon);
            let pm: ProtocolMessage = serde_json::from_str(&pm).unwrap();
            let msg = self.msg_id(&pm);
            self.msg_of_ent.insert(ent, pm);
            d.oms.push(OmRow { ent, epoch: ep as u64, certified: cert != 0, expired: exp != 0, id, msg });
        }
        let mut raw_certs: Vec<(String, Option<String>, i64, i64, String, String)> = vec![];
        {
            let mut st = c
                .prepare("select certificate_id, parent_certificate_id, epoch, signed_entity_type_id, cast(signed_entity_beacon as text), cast(signers as text) from certificate order by rowid")
                .unwrap();
            while let Ok(sqlite::State::Row) = st.next() {
                raw_certs.push((
                    st.read::<String, _>(0).unwrap(),
                    st.read::<Option<String>, _>(1).unwrap(),
                    st.read::<i64, _>(2).unwrap(),
                    st.read::<i64, _>(3).unwrap(),
                    st.read::<String, _>(4).unwrap(),
                    st.read::<String, _>(5).unwrap(),
                ));
            }
        }
        for (hash, parent, ep, ty, beacon, signers) in raw_certs {
            let ent = if parent.is_none() { None } else { Some(self.entity_of_row(ty, &beacon)) };
            let signers: Vec<String> = serde_json::from_str::<serde_json::Value>(&signers)
                .ok()
                .and_then(|v| v.as_array().cloned())
                .unwrap_or_default()
                .iter()
                .filter_map(|x| x.get("party_id").and_then(|p| p.as_str()).map(|p| p.to_string()))
                .collect();
            d.certs.push(CertRow { hash, parent, epoch: ep as u64, ent, signers });
        }
        {
            let mut st = c
                .prepare("select open_message_id, signer_id, registration_epoch_setting_id, lottery_indexes, signature from single_signature order by rowid")
                .unwrap();
            while let Ok(sqlite::State::Row) = st.next() {
                d.sigs.push(SigRow {
                    om: st.read::<String, _>(0).unwrap(),
                    party: st.read::<String, _>(1).unwrap(),
                    reg_epoch: st.read::<i64, _>(2).unwrap() as u64,
                    lottery: st.read::<String, _>(3).unwrap(),
                    signature: st.read::<String, _>(4).unwrap(),
                });
            }
        }
        {
            let mut st = c
                .prepare("select signed_entity_type_id, party_id, signature from buffered_single_signature order by rowid")
                .unwrap();
            while let Ok(sqlite::State::Row) = st.next() {
                d.buffered.push((
                    st.read::<i64, _>(0).unwrap() as u64,
                    st.read::<String, _>(1).unwrap(),
                    st.read::<String, _>(2).unwrap(),
                ));
            }
        }
        let mut raw_ses: Vec<(i64, String, String)> = vec![];
        {
            let mut st = c
                .prepare("select signed_entity_type_id, cast(beacon as text), certificate_id from signed_entity order by rowid")
                .unwrap();
            while let Ok(sqlite::State::Row) = st.next() {
                raw_ses.push((
                    st.read::<i64, _>(0).unwrap(),
                    st.read::<String, _>(1).unwrap(),
                    st.read::<String, _>(2).unwrap(),
                ));
            }
        }
        for (ty, beacon, cert) in raw_ses {
            let ent = self.entity_of_row(ty, &beacon);
            d.ses.push((ent, cert));
        }
        d
    }

    fn entity_of_row(&mut self, ty: i64, beacon: &str) -> usize {
        // rebuild the typed value from the JSON beacon exactly as the aggregator's records do
        let set = mithril_persistence::database::Hydrator::hydrate_signed_entity_type(ty as u16, beacon)
            .expect("hydrate signed entity type");
        self.entity_id(&set)
    }

    /// canonical observation string of the certification tables
    pub fn show(&self, d: &Dump) -> String {
        let cert_ord: BTreeMap<&str, usize> = d.certs.iter().enumerate().map(|(i, c)| (c.hash.as_str(), i)).collect();
        let om_ent: BTreeMap<&str, usize> = d.oms.iter().map(|o| (o.id.as_str(), o.ent)).collect();
        let oms: Vec<String> = d
            .oms
            .iter()
            .map(|o| format!("({},{},{},{})", o.ent, o.epoch, o.certified as u8, o.expired as u8))
            .collect();
        let certs: Vec<String> = d
            .certs
            .iter()
            .map(|c| {
                // the signer list of a certificate (genesis: none), as sorted party ordinals
                let mut sg: Vec<usize> = if c.ent.is_some() { c.signers.iter().map(|p| self.party_ord(p)).collect() } else { vec![] };
                sg.sort();
                format!(
                    "({},{},{},{})",
                    c.ent.map(|e| e.to_string()).unwrap_or("g".into()),
                    c.epoch,
                    c.parent.as_ref().map(|p| cert_ord.get(p.as_str()).map(|i| i.to_string()).unwrap_or("x".into())).unwrap_or("n".into()),
                    hutil::list(&sg)
                )
            })
            .collect();
        // single_signature rows: (entity, label, identity of the stored signature value)
        let mut sigs: Vec<(usize, usize, usize)> = d
            .sigs
            .iter()
            .map(|s| {
                (
                    om_ent.get(s.om.as_str()).copied().unwrap_or(9999),
                    self.party_ord(&s.party),
                    self.sigmas.iter().position(|x| *x == s.signature).unwrap_or(99999),
                )
            })
            .collect();
        sigs.sort();
        let sigs: Vec<String> = sigs.iter().map(|(e, p, g)| format!("({},{},{})", e, p, g)).collect();
        let mut buf: Vec<(u64, usize)> = d.buffered.iter().map(|(t, p, _)| (*t, self.party_ord(p))).collect();
        buf.sort();
        let buf: Vec<String> = buf.iter().map(|(t, p)| format!("({},{})", t, p)).collect();
        let ses: Vec<String> = d
            .ses
            .iter()
            .map(|(e, c)| format!("({},{})", e, cert_ord.get(c.as_str()).map(|i| i.to_string()).unwrap_or("x".into())))
            .collect();
        format!(
            "om=[{}]ce=[{}]sg=[{}]bf=[{}]se=[{}]",
            oms.join(","),
            certs.join(","),
            sigs.join(","),
            buf.join(","),
            ses.join(",")
        )
    }

    async fn settle(&self) {
        // the artifact task runs in the background: wait until no signed-entity type is locked any more
        for _ in 0..4000 {
            tokio::task::yield_now().await;
            if !self.tester.dependencies.signed_entity_type_lock.has_locked_entities().await {
                return;
            }
            tokio::time::sleep(std::time::Duration::from_millis(1)).await;
        }
    }

    fn record(&mut self, ev: String, outcome: &str) -> String {
        let d = self.dump();
        self.last_cert_count = d.certs.len();
        let o = format!("{}/{}/{}", label_short(self.tester.runtime.state_label()), outcome, self.show(&d));
        self.last_dump = d;
        self.events.push(ev);
        self.obs.push(o.clone());
        o
    }

    // ------------------------------------------------------------------ events

    /// one tick of the state machine
    pub async fn tick(&mut self) -> (bool, Dump) {
        let tp = self.time_point().await;
        let avail = self.avail(&tp);
        let before = self.dump();
        let r = catch_async(self.tester.cycle()).await;
        self.settle().await;
        let ok = matches!(r, Ok(Ok(_)));
        let outcome = match &r {
            Ok(Ok(_)) => "ok",
            Ok(Err(_)) => "err",
            Err(_) => "panic",
        };
        self.tags.insert(format!("tick-{}", outcome));
        let after = self.dump();
        // message of the open message created by this tick, if any (an input of the model: message computation is outside it)
        let newmsg = after
            .oms
            .iter()
            .find(|o| !before.oms.iter().any(|b| b.id == o.id))
            .map(|o| o.msg.to_string())
            .unwrap_or("n".into());
        let ev = format!("(tick,{},{},{})", tp.epoch.0, hutil::list(&avail), newmsg);
        self.record(ev, outcome);
        (ok, after)
    }

    /// one tick with the crash point `CRASH_POINTS[p]` armed (hook H3); returns whether the point fired
    pub async fn crash_tick(&mut self, p: usize) -> bool {
        use mithril_aggregator::verif_hooks as vh;
        let tp = self.time_point().await;
        let avail = self.avail(&tp);
        let before = self.dump();
        vh::arm_crash_point(CRASH_POINTS[p]);
        let r = catch_async(self.tester.cycle()).await;
        self.settle().await;
        let fired = vh::armed_crash_point().is_none();
        vh::disarm_crash_point();
        let outcome = match &r {
            Ok(Ok(_)) => "ok",
            Ok(Err(_)) => "err",
            Err(_) => "panic",
        };
        let after = self.dump();
        let newmsg = after
            .oms
            .iter()
            .find(|o| !before.oms.iter().any(|b| b.id == o.id))
            .map(|o| o.msg.to_string())
            .unwrap_or("n".into());
        let ev = format!("(ctick,{},{},{},{})", p, tp.epoch.0, hutil::list(&avail), newmsg);
        self.record(ev, &format!("{}{}", outcome, if fired { "!" } else { "" }));
        fired
    }

    pub async fn epoch_up(&mut self, n: u64) {
        for _ in 0..n {
            self.tester.increase_epoch().await.unwrap();
        }
    }

    pub async fn immutable_up(&mut self) {
        self.tester.increase_immutable_number().await.unwrap();
    }

    pub async fn blocks_up(&mut self, n: u64) {
        let tp = self.time_point().await;
        let _ = self
            .tester
            .increase_block_number_and_slot_number(n, tp.chain_point.slot_number + n, tp.chain_point.block_number + n)
            .await;
    }

    /// registration of one fixture signer for the epoch key `key`
    pub async fn register(&mut self, party: usize, key: u64) -> String {
        let signer = self.fixture.signers_fixture()[party].signer_with_stake.clone();
        let r = self.tester.dependencies.signer_registerer.register_signer(Epoch(key), &signer.into()).await;
        let outcome = match &r {
            Ok(_) => "ok",
            Err(SignerRegistrationError::ExistingSigner(_)) => "existing",
            Err(SignerRegistrationError::RegistrationRoundNotYetOpened) => "closed",
            Err(SignerRegistrationError::RegistrationRoundUnexpectedEpoch { .. }) => "epoch",
            Err(_) => "err",
        };
        if outcome == "ok" {
            self.regs.entry(key).or_default().push(party);
            // what this signer was told to set its protocol initializer up with (`/epoch-settings`)
            let told = self.tester.dependencies.verif_epoch_service().read().await.signer_registration_protocol_parameters().ok().cloned();
            if let Some(told) = told {
                match self.params_of_key.get(&key) {
                    None => { if told != self.params { self.params_of_key.insert(key, told); self.tags.insert("registered-under-new-parameters".into()); } }
                    Some(prev) => { if *prev != told { self.sfails.push(("registration-parameters-changed-within-a-round".into(), format!("signers registering for key {} were told {:?}, later ones {:?}", key, prev, told))); } }
                }
            }
        }
        self.tags.insert(format!("reg-{}", outcome));
        self.record(format!("(reg,{},{})", key, party), outcome);
        outcome.to_string()
    }

    /// the message a signer would sign for `ent`: the stored open message's protocol message if there
    /// is one, else what the aggregator's signable builder computes now
    pub async fn message_for(&mut self, ent: usize) -> Option<ProtocolMessage> {
        let d = self.dump();
        if d.oms.iter().any(|o| o.ent == ent) {
            return self.msg_of_ent.get(&ent).cloned();
        }
        if let Some(m) = self.msg_of_ent.get(&ent) {
            return Some(m.clone());
        }
        let set = self.entities[ent].clone();
        let m = self.tester.dependencies.signable_builder_service.compute_protocol_message(set).await.ok()?;
        // only trust it when it carries the epoch the entity is signed at (the epoch service may lag behind)
        let want = self.entities[ent].get_epoch_when_signed_entity_type_is_signed().0.to_string();
        match m.get_message_part(&ProtocolMessagePartKey::CurrentEpoch) {
            Some(e) if *e == want => Some(m),
            _ => None,
        }
    }

    /// build a signature of `msg` by fixture signer `signer` with the signer set of `key`
    pub fn make_signature(&mut self, signer: usize, key: u64, msg: &ProtocolMessage) -> Option<SingleSignature> {
        let kc = self.key_crypto(key)?;
        let s = kc.signers.get(&signer)?;
        s.sign(msg).ok().flatten()
    }

    /// facts about a signature the model takes as inputs (results of cryptographic primitives)
    pub fn facts(&mut self, ent: usize, label: usize, signer: usize, sig: &SingleSignature, msg: &ProtocolMessage, auth: bool, chain_epoch: u64) -> SigFacts {
        let msg_id = self.msg_id(msg);
        let mut ok = vec![];
        let mut owner = vec![];
        let self_owner = self.want_owner;
        // primitive verdicts, computed with the STM library directly (not through the code under test):
        // the signature verifies for `msg` with the producer's own key and stake under the aggregate key
        // of the signer set of key e-1, and the producer belongs to that set
        let stm_sig = sig.to_protocol_signature();
        let bytes = msg.to_message();
        let own = if signer < self.n() { Some(self.fixture.signers_fixture()[signer].signer_with_stake.clone()) } else { None };
        for e in 1..=chain_epoch + 1 {
            let Some(own) = &own else { break };
            if let Some(kc) = self.key_crypto(e - 1) {
                if !kc.parties.contains(&signer) {
                    continue;
                }
                let stm_params: mithril_common::crypto_helper::ProtocolParameters = kc.params.clone().into();
                let avk = kc.multi_signer.compute_aggregate_verification_key();
                let vk = own.verification_key_for_concatenation.vk;
                if stm_sig.verify(&stm_params, &vk, &own.stake, &avk, bytes.as_bytes()).is_ok() {
                    ok.push(e);
                    if self_owner {
                        owner.push((e, signer));
                    }
                }
            }
        }
        let idx = sig.to_protocol_signature().get_concatenation_signature_indices();
        let sigma = self.sigma_id(sig);
        SigFacts { ent, label, msg: msg_id, ok, idx, auth, owner, sigma, signer }
    }

    pub fn sig_event(f: &SigFacts) -> String {
        format!(
            "(sig,{},{},{},{},{},{},{},{})",
            f.ent,
            f.label,
            f.signer,
            f.sigma,
            f.msg,
            hutil::list(&f.ok),
            hutil::list(&f.idx),
            f.auth as u8
        )
    }

    /// submit a signature through the aggregator's certifier service (BufferedCertifierService over
    /// MithrilCertifierService — the entrance shared by the HTTP route and the queue consumer)
    pub async fn submit(&mut self, f: &SigFacts, sig: &SingleSignature) -> String {
        let mut s = sig.clone();
        s.party_id = if f.label < self.n() { self.party_ids[f.label].clone() } else { "pool1unregisteredpartyofnobody".to_string() };
        s.authentication_status =
            if f.auth { SingleSignatureAuthenticationStatus::Authenticated } else { SingleSignatureAuthenticationStatus::Unauthenticated };
        let set = self.entities[f.ent].clone();
        let r = catch_async(self.tester.dependencies.certifier_service.register_single_signature(&set, &s)).await;
        let outcome = match &r {
            Err(_) => "panic",
            Ok(Ok(SignatureRegistrationStatus::Registered)) => "registered",
            Ok(Ok(SignatureRegistrationStatus::Buffered)) => "buffered",
            Ok(Err(e)) => match e.downcast_ref::<CertifierServiceError>() {
                Some(CertifierServiceError::NotFound(_)) => "notfound",
                Some(CertifierServiceError::AlreadyCertified(_)) => "certified",
                Some(CertifierServiceError::Expired(_)) => "expired",
                Some(CertifierServiceError::InvalidSingleSignature(..)) => "invalid",
                _ => "store",
            },
        };
        self.tags.insert(format!("sig-{}", outcome));
        self.record(Self::sig_event(f), outcome);
        outcome.to_string()
    }

    /// make the open message of `ent` due for expiry (its `expires_at` moves into the past)
    pub async fn expire(&mut self, ent: usize) -> bool {
        let set = self.entities[ent].clone();
        let rec = self.tester.open_message_repository.get_open_message_with_single_signatures(&set).await.ok().flatten();
        let done = if let Some(rec) = rec {
            let mut r: OpenMessageRecord = rec.into();
            r.expires_at = Some(chrono::Utc::now() - chrono::Duration::seconds(3600));
            self.tester.open_message_repository.update_open_message(&r).await.is_ok()
        } else {
            false
        };
        self.record(format!("(exp,{})", ent), if done { "ok" } else { "none" });
        done
    }

    /// stop the process state and start again on the same database
    pub async fn restart(&mut self) {
        self.settle().await;
        self.tester.rebuild(self.cfg.clone()).await;
        self.record("(rst)".to_string(), "ok");
    }

    /// the process is stopped, the epoch changes while it is down, and it is started again with other protocol
    /// parameters in its configuration (the operator's way of changing them): they are the registration parameters
    /// of the new epoch's round, i.e. the parameters of the messages of the epoch after the next
    pub async fn restart_across_epoch_with_params(&mut self, p: ProtocolParameters) {
        self.settle().await;
        self.tester.increase_epoch().await.unwrap();
        self.cfg.protocol_parameters = Some(p);
        self.tester.rebuild(self.cfg.clone()).await;
        self.record("(rst)".to_string(), "ok");
        self.tags.insert("restart-with-new-parameters".into());
    }

    // ------------------------------------------------------------------ request line

    /// `ents=[(disc,epoch)…]`: attributes of the entity ids used in the events
    pub fn ents_arg(&self) -> String {
        let v: Vec<String> = self
            .entities
            .iter()
            .map(|s| {
                let d: SignedEntityTypeDiscriminants = s.into();
                format!("({},{})", disc_index(&d), s.get_epoch_when_signed_entity_type_is_signed().0)
            })
            .collect();
        format!("[{}]", v.join(","))
    }

    pub fn request(&self, op: &str) -> String {
        // `ks`: quorum parameter per message epoch where it differs from the initial one (key K signs epoch K + 1)
        let ks = if self.params_of_key.is_empty() {
            String::new()
        } else {
            format!(" ks=[{}]", self.params_of_key.iter().map(|(key, p)| format!("({},{})", key + 1, p.k)).collect::<Vec<_>>().join(","))
        };
        format!(
            "{} n={} k={}{} gen={} ents={} evs=[{}]",
            op,
            self.n(),
            self.params.k,
            ks,
            self.genesis_epoch,
            self.ents_arg(),
            self.events.join(",")
        )
    }

    pub fn observation(&self) -> String {
        self.obs.join(";")
    }

    // ------------------------------------------------------------------ S: the property evaluated on the real store

    pub async fn all_certificates(&self) -> Vec<Certificate> {
        let mut v = self.tester.dependencies.certificate_repository.get_latest_certificates::<Certificate>(100000).await.unwrap_or_default();
        v.reverse();
        v
    }

    /// every clause of C14 that can be evaluated on the store; failures are appended to `self.sfails`
    pub async fn check_store(&mut self, when: &str) {
        let d = self.dump();
        let certs = self.all_certificates().await;
        let by_hash: BTreeMap<String, Certificate> = certs.iter().map(|c| (c.hash.clone(), c.clone())).collect();
        let mut fails: Vec<(String, String)> = vec![];
        if certs.len() != d.certs.len() {
            fails.push(("store-read".into(), format!("repository returns {} certificates, table has {}", certs.len(), d.certs.len())));
        }
        // (1) every stored certificate verifies with its whole chain under a fresh client verifier
        let verifier = MithrilCertificateVerifier::new(
            slog_scope::logger(),
            Arc::new(Retr(self.tester.dependencies.certificate_repository.clone())),
            Arc::new(self.tester.genesis_signer.create_verifier()),
        );
        for (i, row) in d.certs.iter().enumerate() {
            match by_hash.get(&row.hash) {
                None => fails.push(("chain-verify".into(), format!("certificate #{} not retrievable by hash", i))),
                Some(c) => {
                    if let Err(e) = verifier.verify_certificate_chain(c.clone()).await {
                        fails.push(("chain-verify".into(), format!("certificate #{} (epoch {}) does not verify to genesis: {}", i, row.epoch, first_line(&format!("{e:?}")))));
                    }
                }
            }
        }
        // (2) parent rule, (5) no gap
        let first_of = |ep: u64| d.certs.iter().position(|c| c.epoch == ep);
        for (i, row) in d.certs.iter().enumerate() {
            let Some(parent) = &row.parent else { continue };
            let pidx = d.certs.iter().position(|c| c.hash == *parent);
            let want = match first_of(row.epoch) {
                Some(f) if f != i => Some(f),
                _ => row.epoch.checked_sub(1).and_then(first_of),
            };
            if pidx.is_none() || pidx != want {
                fails.push(("parent-rule".into(), format!("certificate #{} (epoch {}) links to #{:?}, expected #{:?}", i, row.epoch, pidx, want)));
            }
            if let Some(p) = pidx {
                let pe = d.certs[p].epoch;
                if pe > row.epoch || row.epoch - pe > 1 || p >= i {
                    fails.push(("epoch-gap".into(), format!("certificate #{} of epoch {} links to #{} of epoch {}", i, row.epoch, p, pe)));
                }
            }
        }
        // (3) no (type, beacon) certified twice
        let mut seen: BTreeMap<usize, usize> = BTreeMap::new();
        for (i, row) in d.certs.iter().enumerate() {
            if let Some(e) = row.ent {
                if let Some(j) = seen.insert(e, i) {
                    fails.push(("double-certificate".into(), format!("entity {} ({}) certified by #{} and #{}", e, self.entities[e], j, i)));
                }
            }
        }
        // (4) AVK / parameters / next AVK of the epoch; signer list
        for (i, row) in d.certs.iter().enumerate() {
            if row.parent.is_none() {
                continue;
            }
            let Some(c) = by_hash.get(&row.hash).cloned() else { continue };
            let avk = c.aggregate_verification_key.to_json_hex().unwrap_or_default();
            let cur = self.key_crypto(row.epoch - 1).map(|k| k.avk_hex.clone());
            if cur.as_deref() != Some(avk.as_str()) {
                fails.push(("avk".into(), format!("certificate #{} of epoch {} does not carry the aggregate key of the signers registered for that epoch", i, row.epoch)));
            }
            let next = self.key_crypto(row.epoch).map(|k| k.avk_hex.clone());
            let nxt = c.protocol_message.get_message_part(&ProtocolMessagePartKey::NextAggregateVerificationKey).cloned();
            if next != nxt {
                fails.push(("next-avk".into(), format!("certificate #{} of epoch {} announces another next aggregate key than the registrations of key {} give", i, row.epoch, row.epoch)));
            }
            if c.metadata.protocol_parameters != self.params_for_key(row.epoch - 1) {
                fails.push(("params".into(), format!("certificate #{} of epoch {} carries other protocol parameters ({:?}) than the ones its signers were given when they registered ({:?})", i, row.epoch, c.metadata.protocol_parameters, self.params_for_key(row.epoch - 1))));
            }
            let regs = self.regs.get(&(row.epoch - 1)).cloned().unwrap_or_default();
            let ent = row.ent.unwrap();
            for s in &c.metadata.signers {
                let p = self.party_ord(&s.party_id);
                if !regs.contains(&p) {
                    fails.push(("signer-not-registered".into(), format!("certificate #{} names party {} which is not registered for epoch {}", i, p, row.epoch)));
                }
                if !self.own_valid.get(&ent).map(|s| s.contains(&p)).unwrap_or(false) {
                    fails.push(("signer-list".into(), format!("certificate #{} names party {} whose own key never produced a valid signature of that message", i, p)));
                }
            }
            if c.signed_entity_type() != self.entities[ent] || c.epoch.0 != self.entities[ent].get_epoch_when_signed_entity_type_is_signed().0 {
                fails.push(("entity-epoch".into(), format!("certificate #{} epoch {} does not match its entity {}", i, c.epoch.0, self.entities[ent])));
            }
        }
        // (6) signed entities: one per entity, referencing a stored certificate of exactly that entity
        let mut se_seen = BTreeSet::new();
        for (e, ch) in &d.ses {
            if !se_seen.insert(*e) {
                fails.push(("two-artifacts".into(), format!("entity {} has two signed-entity rows", e)));
            }
            match d.certs.iter().find(|c| c.hash == *ch) {
                None => fails.push(("artifact-dangling".into(), format!("signed entity {} references a certificate that is not stored", e))),
                Some(c) => {
                    if c.ent != Some(*e) {
                        fails.push(("artifact-mismatch".into(), format!("signed entity {} references a certificate of entity {:?}", e, c.ent)));
                    }
                }
            }
        }
        for (c, w) in fails {
            self.sfails.push((c, format!("{} [{}]", w, when)));
        }
    }
}

pub mod walk;

pub fn first_line(s: &str) -> String {
    s.lines().next().unwrap_or("").chars().take(200).collect()
}
