//! Seeded generator of aggregator histories (shared by c14 and c15).
use crate::*;
use mithril_common::entities::SignedEntityTypeDiscriminants as D;

#[derive(Clone, Debug)]
pub struct HistoryCfg {
    pub n_signers: usize,
    pub k: u64,
    pub m: u64,
    pub events: usize,
    pub with_csd: bool,
    pub restarts: bool,
    pub jumps: bool,
    pub sparse_regs: bool,
    /// protocol parameters changed by the operator (stop, epoch change, start with another configuration)
    pub param_changes: bool,
}

impl HistoryCfg {
    pub fn draw(rng: &mut Rng, h: usize, thorough: bool) -> HistoryCfg {
        let n_signers = 3 + rng.below(3) as usize; // 3..5
        let k = *rng.pick(&[5u64, 40, 70]);
        let events = if thorough { 40 + rng.below(110) as usize } else { 30 + rng.below(70) as usize };
        HistoryCfg {
            n_signers,
            k,
            m: 100,
            events,
            with_csd: h % 2 == 0,
            restarts: h % 3 != 0,
            jumps: h % 4 == 3,
            sparse_regs: h % 3 == 1,
            param_changes: h % 5 == 1 || h % 5 == 3,
        }
    }
    pub fn tag(&self) -> String {
        format!(
            "hist{}{}{}{}",
            if self.param_changes { "-params" } else { "" },
            if self.restarts { "-restart" } else { "" },
            if self.jumps { "-jump" } else { "" },
            if self.sparse_regs { "-sparse" } else { "" }
        )
    }
    pub fn discs(&self) -> Vec<D> {
        let mut v = vec![D::MithrilStakeDistribution];
        if self.with_csd {
            v.push(D::CardanoStakeDistribution);
        }
        v.push(D::CardanoDatabase);
        v
    }
}

pub struct Gen {
    pub w: World,
    pub cfg: HistoryCfg,
    /// last submitted signature (for the `repeated` case)
    last: Option<(SigFacts, SingleSignature)>,
}

impl Gen {
    pub async fn new(name: &str, cfg: &HistoryCfg) -> Gen {
        let params = ProtocolParameters { k: cfg.k, m: cfg.m, phi_f: 0.95 };
        let w = World::new(name, cfg.n_signers, params, &cfg.discs()).await;
        Gen { w, cfg: cfg.clone(), last: None }
    }

    /// as `new`, with the signed entity types given explicitly (e.g. the default configuration: stake distribution only)
    pub async fn with_discs(name: &str, cfg: &HistoryCfg, discs: &[D]) -> Gen {
        let params = ProtocolParameters { k: cfg.k, m: cfg.m, phi_f: 0.95 };
        let w = World::new(name, cfg.n_signers, params, discs).await;
        Gen { w, cfg: cfg.clone(), last: None }
    }

    fn signing_entity(&self) -> Option<usize> {
        // the open message the state machine is signing: the newest non-certified, non-expired one
        if self.w.tester.runtime.state_label() != "signing" {
            return None;
        }
        self.w.last_dump.oms.iter().rev().find(|o| !o.certified && !o.expired).map(|o| o.ent)
    }

    /// one own signature by `signer` for entity `ent`, made with the signer set of `key`, sent under `label`
    pub async fn sign_and_submit(&mut self, ent: usize, signer: usize, key: u64, auth: bool, msg_ent: usize) -> Option<String> {
        self.sign_and_submit_as(ent, signer, signer, key, auth, msg_ent).await
    }

    /// as above, sent under the label `label` (party ordinal; `n + 7` = a party id nobody registered)
    pub async fn sign_and_submit_as(&mut self, ent: usize, signer: usize, label: usize, key: u64, auth: bool, msg_ent: usize) -> Option<String> {
        let msg = self.w.message_for(msg_ent).await?;
        let sig = self.w.make_signature(signer, key, &msg)?;
        let chain_epoch = self.w.time_point().await.epoch.0;
        let f = self.w.facts(ent, label, signer, &sig, &msg, auth, chain_epoch);
        let ent_epoch = self.w.entities[ent].get_epoch_when_signed_entity_type_is_signed().0;
        if msg_ent == ent && label == signer && f.ok.contains(&ent_epoch) {
            self.w.own_valid.entry(ent).or_default().insert(signer);
        }
        let o = self.w.submit(&f, &sig).await;
        self.last = Some((f, sig));
        Some(o)
    }

    async fn register_some(&mut self, rng: &mut Rng, all: bool) {
        let tp = self.w.time_point().await;
        let key = tp.epoch.0 + 1;
        let n = self.w.n();
        let mut parties: Vec<usize> = (0..n).collect();
        rng.shuffle(&mut parties);
        let take = if all { n } else { 1 + rng.below(n as u64) as usize };
        for p in parties.into_iter().take(take) {
            self.w.register(p, key).await;
        }
    }

    /// every signer registered for the epoch of the message being signed submits its own signature
    pub async fn sign_all_current(&mut self, auth: bool) -> usize {
        let Some(ent) = self.signing_entity() else { return 0 };
        let ent_epoch = self.w.entities[ent].get_epoch_when_signed_entity_type_is_signed().0;
        let regs = self.w.regs.get(&(ent_epoch - 1)).cloned().unwrap_or_default();
        let mut n = 0;
        for p in regs {
            if self.sign_and_submit(ent, p, ent_epoch - 1, auth, ent).await.as_deref() == Some("registered") {
                n += 1;
            }
        }
        n
    }

    /// everybody registers for the next key and the rounds of this epoch are driven until it has a certificate
    pub async fn productive_epoch(&mut self, rng: &mut Rng) {
        self.w.tick().await;
        self.register_some(rng, true).await;
        let epoch = self.w.time_point().await.epoch.0;
        for _ in 0..8 {
            self.drive().await;
            if self.w.last_dump.certs.iter().any(|c| c.epoch == epoch) && self.w.tester.runtime.state_label() != "signing" {
                break;
            }
        }
    }

    /// a productive step: sign the current message (if any) and tick
    pub async fn drive(&mut self) {
        if self.w.tester.runtime.state_label() == "signing" {
            self.sign_all_current(false).await;
        }
        self.w.tick().await;
    }

    /// one macro step of the random walk
    pub async fn step(&mut self, rng: &mut Rng) {
        let mut r = rng.below(100);
        if self.w.tester.runtime.state_label() == "signing" && rng.chance(1, 3) {
            r = 40; // keep rounds productive: a burst of signatures for the message being signed
        }
        let tp = self.w.time_point().await;
        let epoch = tp.epoch.0;
        match r {
            0..=29 => {
                self.w.tick().await;
            }
            30..=54 => {
                // signatures for the message being signed, by a subset of the signers registered for its epoch
                if let Some(ent) = self.signing_entity() {
                    let ent_epoch = self.w.entities[ent].get_epoch_when_signed_entity_type_is_signed().0;
                    let mut regs = self.w.regs.get(&(ent_epoch - 1)).cloned().unwrap_or_default();
                    rng.shuffle(&mut regs);
                    let take = 1 + rng.below(regs.len().max(1) as u64) as usize;
                    for p in regs.into_iter().take(take) {
                        let auth = rng.chance(1, 3);
                        self.sign_and_submit(ent, p, ent_epoch - 1, auth, ent).await;
                    }
                    if rng.chance(2, 3) {
                        self.w.tick().await;
                    }
                } else {
                    self.w.tick().await;
                }
            }
            55..=61 => self.random_signature(rng).await,
            62..=66 => self.early_burst(rng).await,
            67..=72 => {
                if rng.chance(1, 4) {
                    // a registration that names another round than the one that is open: the previous one (a delayed
                    // or replayed request, a signer that read the epoch settings before the epoch change) or the next
                    // one (a signer ahead of the aggregator). A party that did NOT register for the open round is
                    // preferred: if such a request were taken for the open round it would change the signer set.
                    let open_key = epoch + 1;
                    let registered = self.w.regs.get(&open_key).cloned().unwrap_or_default();
                    let fresh: Vec<usize> = (0..self.w.n()).filter(|p| !registered.contains(p)).collect();
                    let p = if fresh.is_empty() { rng.below(self.w.n() as u64) as usize } else { *rng.pick(&fresh) };
                    let key = if rng.chance(2, 3) { epoch } else { epoch + 2 };
                    self.w.register(p, key).await;
                    self.w.tags.insert(if key == epoch { "reg-for-previous-round".into() } else { "reg-for-next-round".into() });
                    return;
                }
                let all = !self.cfg.sparse_regs && rng.chance(2, 3);
                self.register_some(rng, all).await;
            }
            73..=78 => {
                self.w.immutable_up().await;
                self.w.tags.insert("immutable-up".into());
            }
            79..=80 => {
                self.w.blocks_up(1 + rng.below(40)).await;
            }
            81..=86 => {
                // epoch change. Healthy case: somebody has registered for the next key (else the next
                // epoch has no signer set and the aggregator can only stop); the unhealthy cases
                // (nobody registered, epoch +2) are kept for the second half of `jumps` histories.
                let late_phase = self.w.events.len() * 2 > self.cfg.events;
                let unhealthy = self.cfg.jumps && late_phase && rng.chance(1, 2);
                if !unhealthy {
                    if !self.w.last_dump.certs.iter().any(|c| c.epoch == epoch) {
                        // an epoch without a certificate is an epoch gap: work on the current round first
                        self.drive().await;
                        return;
                    }
                    if self.w.regs.get(&(epoch + 1)).map(|v| v.is_empty()).unwrap_or(true) || rng.chance(1, 2) {
                        let all = !self.cfg.sparse_regs || rng.chance(1, 3);
                        self.register_some(rng, all).await;
                    }
                    if self.w.regs.get(&(epoch + 1)).map(|v| v.is_empty()).unwrap_or(true) {
                        // the round is not open (no idle tick yet in this epoch, or restarted): tick instead
                        self.w.tick().await;
                        return;
                    }
                }
                if unhealthy && rng.chance(1, 3) {
                    // an epoch that passes without any certificate although signers are registered for
                    // every key: the epoch-gap test itself is what must stop the aggregator
                    self.register_some(rng, true).await;
                    self.w.epoch_up(1).await;
                    self.w.tick().await;
                    self.w.tick().await;
                    self.register_some(rng, true).await;
                    self.w.epoch_up(1).await;
                    for _ in 0..4 {
                        self.w.tick().await;
                    }
                    self.w.tags.insert("epoch-without-certificate".into());
                    return;
                }
                if !unhealthy && self.cfg.param_changes && rng.chance(1, 2) {
                    // the operator changes the protocol parameters: the aggregator is down over the epoch change
                    let cur = self.w.cfg.protocol_parameters.clone().unwrap();
                    let ks = [5u64, 40, 70];
                    let p = match rng.below(4) {
                        0 => ProtocolParameters { k: *rng.pick(&ks), ..cur },
                        1 => ProtocolParameters { m: if cur.m == 100 { 120 } else { 100 }, ..cur },
                        2 => ProtocolParameters { phi_f: if cur.phi_f == 0.95 { 0.9 } else { 0.95 }, ..cur },
                        _ => ProtocolParameters { k: *rng.pick(&ks), m: 100 + 10 * rng.below(4), phi_f: *rng.pick(&[0.85, 0.9, 0.95]) },
                    };
                    self.w.restart_across_epoch_with_params(p).await;
                    for _ in 0..3 {
                        self.w.tick().await;
                    }
                    return;
                }
                let jump = if unhealthy && rng.chance(1, 2) { 2 } else { 1 };
                self.w.epoch_up(jump).await;
                self.w.tags.insert(format!("epoch-up-{}", jump));
                if unhealthy {
                    self.w.tags.insert("epoch-up-unhealthy".into());
                }
                if rng.chance(1, 4) {
                    // late registration: the round of the previous epoch is still open
                    let p = rng.below(self.w.n() as u64) as usize;
                    self.w.register(p, epoch + 1).await;
                    self.w.tags.insert("reg-late".into());
                }
                if rng.chance(2, 3) {
                    for _ in 0..3 {
                        self.w.tick().await;
                    }
                }
            }
            87..=91 => {
                let open: Vec<usize> = self.w.last_dump.oms.iter().filter(|o| !o.certified).map(|o| o.ent).collect();
                if !open.is_empty() {
                    let e = *rng.pick(&open);
                    self.w.expire(e).await;
                    self.w.tags.insert("expire".into());
                } else {
                    self.w.tick().await;
                }
            }
            92..=95 => {
                if self.cfg.restarts {
                    self.w.restart().await;
                    self.w.tags.insert("restart".into());
                } else {
                    self.w.tick().await;
                }
            }
            _ => {
                if let Some((f, sig)) = self.last.clone() {
                    self.w.submit(&f, &sig).await;
                    self.w.tags.insert("sig-repeated".into());
                } else {
                    self.w.tick().await;
                }
            }
        }
    }

    /// authenticated signatures for an entity of the current time point that has no open message yet:
    /// a mix of valid ones and one that signs another message, so that the hand-over at open-message
    /// creation meets both (registered + removed / skipped + kept)
    async fn early_burst(&mut self, rng: &mut Rng) {
        let tp = self.w.time_point().await;
        let avail = self.w.avail(&tp);
        let d = self.w.last_dump.clone();
        let Some(ent) = avail.iter().copied().find(|e| !d.oms.iter().any(|o| o.ent == *e)) else {
            self.random_signature(rng).await;
            return;
        };
        let ep = self.w.entities[ent].get_epoch_when_signed_entity_type_is_signed().0;
        let mut regs = self.w.regs.get(&(ep - 1)).cloned().unwrap_or_default();
        rng.shuffle(&mut regs);
        let other: Vec<usize> = d.oms.iter().map(|o| o.ent).collect();
        let mut done = false;
        for (i, p) in regs.into_iter().take(3).enumerate() {
            let msg_ent = if i == 1 && !other.is_empty() { *rng.pick(&other) } else { ent };
            if self.sign_and_submit(ent, p, ep - 1, true, msg_ent).await.is_some() {
                done = true;
            }
        }
        if done {
            self.w.tags.insert("early-burst".into());
        } else {
            self.w.tick().await;
        }
    }

    /// a signature with a randomly chosen target / signer set / message
    async fn random_signature(&mut self, rng: &mut Rng) {
        let tp = self.w.time_point().await;
        let epoch = tp.epoch.0;
        let avail = self.w.avail(&tp);
        let d = self.w.last_dump.clone();
        let mut targets: Vec<(usize, &'static str)> = vec![];
        for e in &avail {
            if !d.oms.iter().any(|o| o.ent == *e) {
                targets.push((*e, "early"));
            }
        }
        for o in &d.oms {
            let kind = if o.certified { "late-certified" } else if o.expired { "late-expired" } else if avail.contains(&o.ent) { "open" } else { "superseded" };
            targets.push((o.ent, kind));
        }
        if targets.is_empty() {
            self.w.tick().await;
            return;
        }
        let (ent, kind) = *rng.pick(&targets);
        let ent_epoch = self.w.entities[ent].get_epoch_when_signed_entity_type_is_signed().0;
        let signer = rng.below(self.w.n() as u64) as usize;
        // signer set: usually the one of the entity's epoch, sometimes a neighbouring key (stale signer)
        let key = match rng.below(5) {
            0 => ent_epoch.saturating_sub(2),
            1 => ent_epoch,
            _ => ent_epoch.saturating_sub(1),
        };
        // message: usually the entity's own, sometimes the message of another entity (never verifies for `ent`)
        let msg_ent = if rng.chance(1, 4) && self.w.entities.len() > 1 {
            let other: Vec<usize> = d.oms.iter().map(|o| o.ent).filter(|e| *e != ent).collect();
            if other.is_empty() { ent } else { *rng.pick(&other) }
        } else {
            ent
        };
        let auth = rng.chance(1, 2);
        let _ = epoch;
        // rarely under a party id nobody registered (the row's foreign key then fails in the store)
        let label = if rng.chance(1, 12) { self.w.n() + 7 } else { signer };
        if label != signer {
            self.w.tags.insert("sig-unregistered-label".into());
        }
        if self.sign_and_submit_as(ent, signer, label, key, auth, msg_ent).await.is_some() {
            self.w.tags.insert(format!("sig-target-{}", kind));
            if msg_ent != ent {
                self.w.tags.insert("sig-other-message".into());
            }
            if key + 1 != ent_epoch {
                self.w.tags.insert("sig-stale-signer-set".into());
            }
        } else {
            self.w.tick().await;
        }
    }
}

/// a complete history: bootstrap, `cfg.events` events, store checks on the way and at the end
pub async fn run_history(name: &str, cfg: &HistoryCfg, rng: &mut Rng, _reserved: Option<()>) -> World {
    let mut g = Gen::new(name, cfg).await;
    // bootstrap as the integration tests do: first tick in the genesis epoch opens the registration round
    g.w.tick().await;
    let all = !cfg.sparse_regs || rng.chance(1, 2);
    g.register_some(rng, all).await;
    if rng.chance(1, 3) {
        g.w.tick().await;
    }
    g.w.epoch_up(1).await;
    for _ in 0..3 {
        g.w.tick().await;
    }
    let mut next_check = 40;
    while g.w.events.len() < cfg.events {
        g.step(rng).await;
        if g.w.events.len() >= next_check {
            let at = format!("after event {}", g.w.events.len());
            g.w.check_store(&at).await;
            next_check += 40;
        }
    }
    if cfg.param_changes {
        // epilogue of the parameter-change histories: one more change, then enough productive epochs for messages to
        // be certified UNDER the new parameters (registered at E, signing at E + 2) and for the next epoch to link to them
        g.productive_epoch(rng).await;
        let cur = g.w.cfg.protocol_parameters.clone().unwrap();
        let p = ProtocolParameters { k: if cur.k == 5 { 40 } else { 5 }, m: if cur.m == 100 { 110 } else { 100 }, phi_f: if cur.phi_f == 0.95 { 0.9 } else { 0.95 } };
        g.w.restart_across_epoch_with_params(p).await;
        for _ in 0..3 {
            g.w.tick().await;
        }
        for _ in 0..3 {
            g.productive_epoch(rng).await;
            g.w.epoch_up(1).await;
            for _ in 0..3 {
                g.w.tick().await;
            }
        }
        g.productive_epoch(rng).await;
        let last = g.w.time_point().await.epoch.0;
        if g.w.last_dump.certs.iter().any(|c| c.epoch == last && g.w.params_of_key.contains_key(&(c.epoch - 1))) {
            g.w.tags.insert("certificate-under-new-parameters".into());
        }
    }
    // drain: give pending rounds a chance, then the final check on the store
    g.w.check_store("end of history").await;
    g.w
}
