#!/bin/bash
# like seeded/eval.sh (scratch worktree of HEAD + patch bind-mounted over /repo in a private mount namespace), plus a
# per-bin summary of what K and S saw.   usage: evalmut.sh <patch.diff>...
set -u
export VERIF_DRIVER=work/c06layers/Driver.lean
for PATCH in "$@"; do
  PATCH=$(readlink -f "$PATCH")
  NAME=$(basename "$PATCH" .diff)
  WT=/tmp/evalmut-wt-$$
  git -C /repo worktree add --detach "$WT" HEAD >/dev/null 2>&1 || { echo "cannot create worktree"; exit 2; }
  if ! git -C "$WT" apply "$PATCH"; then echo "PATCH DOES NOT APPLY: $NAME"; git -C /repo worktree remove --force "$WT"; continue; fi
  echo "=== C06 against $NAME"
  unshare -m bash -c "mount --bind $WT /repo && cd /verif && VERIF_NO_EVIDENCE=1 ./check C06 2>&1 | grep -v KNOWN-FINDING | tail -3 | cut -c1-400"
  git -C /repo worktree remove --force "$WT"
  python3 - <<'PY'
import json, os
from collections import Counter
known = {"stale-next-signers", "stale-after-failed-update"}
for b in ["c06", "c06b", "c06c", "c06s"]:
    d = "/verif/work/C06/" + b
    try:
        imp = open(d + "/impl.txt").read().splitlines(); mod = open(d + "/model.txt").read().splitlines()
    except OSError:
        print("  ", b, "no output"); continue
    k = sum(1 for i, m in zip(imp, mod) if i.split("\t", 2)[2] != m.split(" ## ")[0])
    sf = [json.loads(l) for l in open(d + "/sfail.jsonl") if l.strip()]
    c = Counter(s["class"] for s in sf if s["class"] not in known)
    ex = next((s["what"][:260] for s in sf if s["class"] not in known), "")
    print(f"   {b}: cases {len(imp)}  K disagreements {k}  S new {dict(c)}  {('e.g. ' + ex) if ex else ''}")
PY
done
