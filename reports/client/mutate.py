#!/usr/bin/env python3
"""apply one textual mutation to the scratch worktree, build the harness copy, run it, compare with the model"""
import subprocess, sys, json, os, collections
WT='/tmp/mut-client'
PROV=WT+'/mithril-client/src/cardano_database_client/proving.rs'
DIG=WT+'/internal/cardano-node/mithril-cardano-node-internal-database/src/digesters/cardano_immutable_digester.rs'
RNG=WT+'/mithril-client/src/cardano_database_client/immutable_file_range.rs'
UNX=WT+'/mithril-client/src/utils/unexpected_downloaded_file_verifier.rs'
ANC=WT+'/mithril-client/src/utils/ancillary_verifier.rs'
MAN=WT+'/internal/cardano-node/mithril-cardano-node-internal-database/src/entities/ancillary_files_manifest.rs'
TASK=WT+'/mithril-client/src/cardano_database_client/download_unpack/download_task.rs'
OPT=WT+'/mithril-client/src/cardano_database_client/download_unpack/download_unpack_options.rs'
INT=WT+'/mithril-client/src/cardano_database_client/download_unpack/internal_downloader.rs'
M = {
 'c10-per-name-dropped': ('c10', PROV, "            && files_not_verified.tampered_files.is_empty()\n            && files_not_verified.non_verifiable_files.is_empty()\n", ""),
 'c10-root-test-dropped': ('c10', PROV, "        Self::check_merkle_root_is_signed_by_certificate(\n            certificate,\n            &merkle_tree.compute_root()?,\n        )?;", "        let _ = (certificate, merkle_tree.compute_root()?);"),
 'c10-range-filter-off-by-one': ('c10', DIG, ".filter(|f| range.contains(&f.number))", ".filter(|f| range.contains(&(f.number + 1)))"),
 'c10-from-off-by-one': ('c10', RNG, "Ok(*from..=last_immutable_file_number)", "Ok(*from + 1..=last_immutable_file_number)"),
 'c10-beacon-filter-lt': ('c10', PROV, "Ok(immutable_file) => immutable_file.number <= last_immutable_file_number,", "Ok(immutable_file) => immutable_file.number < last_immutable_file_number,"),
 'c10-missing-skips-secondary': ('c10', PROV, '''            for immutable_type in ["chunk", "primary", "secondary"] {
                let file_name = format!("{immutable_file_number:05}.{immutable_type}");
                if !immutable_dir.join(&file_name).exists() {''', '''            for immutable_type in ["chunk", "primary"] {
                let file_name = format!("{immutable_file_number:05}.{immutable_type}");
                if !immutable_dir.join(&file_name).exists() {'''),
 'c10-non-regular-dropped': ('c10', PROV, "                    .is_ok_and(|metadata| !metadata.is_file())", "                    .is_ok_and(|metadata| !metadata.is_file() && false)"),
 'c10-tampered-not-reported': ('c10', PROV, "                    tampered: files_not_verified.tampered_files,", "                    tampered: vec![],"),
 'c19-cleanup-disabled': ('c19', INT, "        expected_files_after_download.remove_unexpected_files().await?;", "        let _ = expected_files_after_download;"),
 'c19-hash-test-skipped': ('c19', MAN, "            if actual_hash != *expected_hash {", "            if false && actual_hash != *expected_hash {"),
 'c19-signature-test-skipped': ('c19', ANC, "        self.verifier\n            .verify(&manifest.compute_hash(), &signature)\n            .map_err(AncillaryVerificationError::SignatureInvalid)?;", "        let _ = (&self.verifier, &signature);"),
 'c19-missing-signature-accepted': ('c19', ANC, "        let signature = manifest\n            .signature()\n            .ok_or(AncillaryVerificationError::SignatureMissing)?;\n        self.verifier\n            .verify(&manifest.compute_hash(), &signature)\n            .map_err(AncillaryVerificationError::SignatureInvalid)?;", "        if let Some(signature) = manifest.signature() {\n            self.verifier\n                .verify(&manifest.compute_hash(), &signature)\n                .map_err(AncillaryVerificationError::SignatureInvalid)?;\n        }"),
 'c19-verify-data-ignored': ('c19', ANC, "        manifest.verify_data(temp_ancillary_dir).await?;", "        let _ = manifest.verify_data(temp_ancillary_dir).await;"),
 'c19-regular-file-test-dropped': ('c19', MAN, "            if std::fs::symlink_metadata(&file_path).is_ok_and(|metadata| !metadata.is_file()) {", "            if false {"),
 'c19-regular-file-test-on-resolved-path': ('c19', MAN, "            if std::fs::symlink_metadata(&file_path).is_ok_and(|metadata| !metadata.is_file()) {", "            if std::fs::metadata(&file_path).is_ok_and(|metadata| !metadata.is_file()) {"),
 'c19-expected-range-plus-one': ('c19', UNX, "    0..=upper_bound", "    0..=upper_bound + 1"),
 'c19-tmp-dir-not-removed': ('c19', TASK, "                    if let Err(e) = tokio::fs::remove_dir_all(&ancillary_files_temp_dir).await {", "                    if let Err(e) = tokio::fs::metadata(&ancillary_files_temp_dir).await {"),
 'c19-override-test-dropped': ('c19', OPT, "        if !self.allow_override {", "        if false {"),
 'c19-move-before-verify': ('c19', TASK, "        let validated_manifest = ancillary_verifier.verify(ancillary_files_temp_dir).await?;\n        validated_manifest.move_to_final_location(target_dir).await", "        let validated_manifest = ancillary_verifier.verify(ancillary_files_temp_dir).await;\n        for l in [\"ledger\", \"volatile\"] {\n            let _ = tokio::fs::rename(ancillary_files_temp_dir.join(l), target_dir.join(l)).await;\n        }\n        validated_manifest?.move_to_final_location(target_dir).await"),
 'c19-compat-test-dropped': ('c19', OPT, "        if self.include_ancillary && !immutable_file_range.contains(&last_immutable_file_number) {", "        if false && !immutable_file_range.contains(&last_immutable_file_number) {"),
}
KNOWN = {'c10': {'digest-names-unbound'}, 'c19': {'foreign-entry', 'trio-outside-range', 'immutable-entry-kept-by-name'}}
def sh(cmd, **kw): return subprocess.run(cmd, shell=True, capture_output=True, text=True, **kw)
def run(name):
    b, path, old, new = M[name]
    src = open(path).read()
    if src.count(old) != 1:
        return f"{name}: PATTERN NOT FOUND ({src.count(old)})"
    open(path, 'w').write(src.replace(old, new))
    try:
        r = sh(f"cd /tmp/hmut && cargo build --offline -j 5 --bin {b} 2>&1 | grep -E '^error' -A6 | head -20")
        if r.stdout.strip():
            return f"{name}: DOES NOT COMPILE {r.stdout[:400]}"
        out = f"/tmp/hmut-out/{name}"
        os.makedirs(out, exist_ok=True)
        r = sh(f"TMPDIR=/verif/work/tmp /tmp/hmut-target/debug/{b} --tier quick --seed 1 --out {out}")
        if r.returncode != 0:
            return f"{name}: harness failed {r.stderr[-300:]}"
        sh(f"cd /verif/lean && lake env lean --run ../work/client/Driver.lean < {out}/req.txt > {out}/model.txt")
        imp = open(out+'/impl.txt').read().split('\n'); mod = open(out+'/model.txt').read().split('\n')
        kd = []
        for i, m in zip(imp, mod):
            if not i: continue
            idx, tag, o = i.split('\t', 2)
            if o != m: kd.append((idx, tag))
        c = collections.Counter(); first = {}
        for l in open(out+'/sfail.jsonl'):
            j = json.loads(l); c[j['class']] += 1; first.setdefault(j['class'], j['idx'])
        new = {k: v for k, v in c.items() if k not in KNOWN[b]}
        wit = json.load(open(out+'/meta.json'))['witnesses']
        rep = [k for k, v in wit.items() if v.startswith('reproduced')]
        verdict = 'CAUGHT-S' if new else ('CAUGHT-K' if kd else 'MISSED')
        return f"{name}: {verdict}; K disagreements {len(kd)} (first {kd[:3]}); new S classes {new} (first idx { {k: first[k] for k in new} }); witnesses reproduced {rep}"
    finally:
        open(path, 'w').write(src)
if __name__ == '__main__':
    names = sys.argv[1:] or list(M)
    for n in names:
        print(run(n), flush=True)
