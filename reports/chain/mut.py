#!/usr/bin/env python3
"""mutation trials in the scratch worktree /tmp/c13wt with the harness copy /tmp/c13mut/harness-chain"""
import subprocess, sys, json, collections, os
WT="/tmp/c13wt"
CH="internal/cardano-node/mithril-cardano-node-chain/src/"
PE="internal/mithril-persistence/src/database/"
DB="internal/cardano-node/mithril-cardano-node-internal-database/src/"
M = {
 # C13
 "M1-delete-bound": ("c13", PE+"query/cardano_block/delete_cardano_block_and_transactions.rs", 'WhereCondition::new("block_number > ?*", vec![threshold])', 'WhereCondition::new("block_number >= ?*", vec![threshold])'),
 "M2-root-invalidation": ("c13", PE+"query/block_range_root/delete_block_range_root.rs", 'WhereCondition::new("start >= ?*", vec![threshold])', 'WhereCondition::new("start > ?*", vec![threshold])'),
 "M3-resume-lowest": ("c13", PE+"query/cardano_block/get_cardano_block.rs", '"block_number = (select max(block_number) from cardano_block)"', '"block_number = (select min(block_number) from cardano_block)"'),
 "M4-truncate-early": ("c13", CH+"chain_scanner/chain_reader_block_streamer.rs", "roll_forwards.truncate(index_rollback + 1);", "roll_forwards.truncate(index_rollback);"),
 "M4b-truncate-late": ("c13", CH+"chain_scanner/chain_reader_block_streamer.rs", "roll_forwards.truncate(index_rollback + 1);", "roll_forwards.truncate(index_rollback + 2);"),
 "M5-buffer-kept": ("c13", CH+"chain_scanner/chain_reader_block_streamer.rs", """                        None => {
                            debug!(""", """                        None => {
                            if !roll_forwards.is_empty() {
                                return Ok(Some(ChainScannedBlocks::RollForwards(roll_forwards)));
                            }
                            debug!("""),
 "M6-forward-above-target": ("c13", CH+"chain_scanner/chain_reader_block_streamer.rs", "if parsed_block.block_number > self.until {", "if parsed_block.block_number > self.until + 1 {"),
 "M7-range-resume": ("c13", CH+"chain_importer/block_ranges_importer.rs", """    pub async fn run(&self, up_to_block_range_end: BlockNumber) -> StdResult<()> {
        let block_ranges = match self.transaction_store.get_highest_block_range().await?.map(
            |highest_stored_block_range| {
                BlockRange::all_block_ranges_in(
                    BlockRange::start(highest_stored_block_range.end)..=(up_to_block_range_end),""", """    pub async fn run(&self, up_to_block_range_end: BlockNumber) -> StdResult<()> {
        let block_ranges = match self.transaction_store.get_highest_block_range().await?.map(
            |highest_stored_block_range| {
                BlockRange::all_block_ranges_in(
                    BlockRange::start(highest_stored_block_range.end + 15)..=(up_to_block_range_end),"""),
 "M8-cap-boundary": ("c13", CH+"chain_scanner/chain_reader_block_streamer.rs", "if roll_forwards.len() >= self.max_roll_forwards_per_poll", "if roll_forwards.len() > self.max_roll_forwards_per_poll"),
 "M9-early-exit-gt": ("c13", CH+"chain_importer/blocks_and_transactions_importer.rs", ".is_some_and(|f| f.block_number >= up_to_beacon)", ".is_some_and(|f| f.block_number > up_to_beacon)"),
 "M10-anchor-slot-lt": ("c13", PE+"query/cardano_block/get_cardano_block.rs", "where slot_number <= ?*)", "where slot_number < ?*)"),
 "M11-last-polled-not-kept": ("c13", CH+"chain_importer/blocks_and_transactions_importer.rs", "            *self.last_polled_point.lock().await = Some(point);", "            let _ = point;"),
 "M12-revert-fix-a": ("c13", CH+"chain_scanner/chain_reader_block_streamer.rs", "let is_initial_rollback_to_start_point = self.last_polled_point.is_none()\n                    && rollback_slot_number == self.from.slot_number;", "let is_initial_rollback_to_start_point = rollback_slot_number == self.from.slot_number;"),
 "M13-legacy-root-invalidation": ("c13", PE+"query/block_range_root_legacy/delete_block_range_root.rs", '"start >= ?*"', '"start > ?*"'),
 # C12
 "N1-comparator-path-only": ("c12", DB+"entities/immutable_file.rs", "self.number.cmp(&other.number).then(self.path.cmp(&other.path))", "self.path.cmp(&other.path)"),
 "N2-beacon-lt": ("c12", DB+"digesters/cardano_immutable_digester.rs", ".filter(|f| f.number <= up_to_file_number)", ".filter(|f| f.number < up_to_file_number)"),
 "N3-cache-by-number": ("c12", DB+"digesters/cache/json_provider.rs", "let value = values.get(&immutable.filename).map(|f| f.to_owned());", 'let value = values.get(&format!("{:05}.chunk", immutable.number)).map(|f| f.to_owned());'),
 "N4-extension-dropped": ("c12", DB+"entities/immutable_file.rs", 'const IMMUTABLE_FILE_EXTENSIONS: [&str; 3] = ["chunk", "primary", "secondary"];', 'const IMMUTABLE_FILE_EXTENSIONS: [&str; 2] = ["chunk", "primary"];'),
 "N5-no-sort": ("c12", DB+"entities/immutable_file.rs", "        files.sort();\n\n        Ok(files)", "        Ok(files)"),
 "N6-cache-not-updated-by-name": ("c12", DB+"digesters/cache/memory_provider.rs", "let value = store.get(&immutable.filename).map(|f| f.to_owned());", "let value = store.values().next().map(|f| f.to_owned());"),
 "N7-last-check-dropped": ("c12", DB+"digesters/cardano_immutable_digester.rs", "Some(last_immutable_file) if last_immutable_file.number < up_to_file_number => {", "Some(last_immutable_file) if last_immutable_file.number + 1 < up_to_file_number => {"),
}
KNOWN={"rollback-below-store","rollback-into-pruned-range","partial-range-root","stale-noop-import","beacon-inside-stored-range"}
def sh(cmd, **kw): return subprocess.run(cmd, shell=True, text=True, capture_output=True, **kw)
def trial(name):
    b, f, old, new = M[name]
    sh(f"cd {WT} && git checkout -q -- .")
    p=os.path.join(WT,f); s=open(p).read()
    if s.count(old)<1:
        return f"{name}: PATTERN NOT FOUND"
    open(p,"w").write(s.replace(old,new,1))
    r=sh(f"cd /tmp/c13mut/harness-chain && cargo build --offline -j 5 --bin {b} 2>&1 | tail -3")
    if "Finished" not in r.stdout:
        sh(f"cd {WT} && git checkout -q -- .")
        return f"{name}: BUILD FAILED {r.stdout[-300:]}"
    out=f"/tmp/c13mut/out-{name}"
    os.makedirs(out,exist_ok=True)
    extra="--n 300" if b=="c13" else ""
    env=dict(os.environ, TMPDIR="/verif/work/tmp")
    r=subprocess.run(f"/tmp/c13mut/target/debug/{b} --tier quick --seed 1 --out {out} {extra}", shell=True, text=True, capture_output=True, env=env)
    sh(f"cd {WT} && git checkout -q -- .")
    if not os.path.exists(out+"/meta.json"):
        return f"{name}: HARNESS CRASHED rc={r.returncode} {r.stderr[-300:]}"
    sh(f"/verif/lean/.lake/build/bin/driver < {out}/req.txt > {out}/model.txt")
    imp=[l.rstrip("\n").split("\t",2) for l in open(out+"/impl.txt")]
    mod=[l.rstrip("\n").split(" ## ")[0] for l in open(out+"/model.txt")]
    bad=[(i,m) for i,m in zip(imp,mod) if i[2]!=m]
    c=collections.Counter(); new_s=collections.Counter(); ex=None
    for l in open(out+"/sfail.jsonl"):
        j=json.loads(l); c[j["class"]]+=1
        if j["class"] not in KNOWN:
            new_s[j["class"]]+=1
            ex=ex or j
    tags=collections.Counter(i[1] for i,m in bad)
    return f"{name}: cases={len(imp)} K-disagreements={len(bad)} (tags {dict(tags.most_common(4))}) new-S={dict(new_s)} first-S-case={(ex or {}).get('idx')}:{(ex or {}).get('what','')[:160]}"
if __name__=="__main__":
    for n in (sys.argv[1:] or list(M)):
        print(trial(n), flush=True)
