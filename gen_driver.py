#!/usr/bin/env python3
"""Regenerates lean/Driver.lean from the list of handler modules lean/MithrilModel/Handlers/Cxx.lean.
A request whose op starts with `cxx.` is dispatched to `Handlers.Cxx.handle`."""
import glob, os, sys
ROOT = os.path.dirname(os.path.abspath(__file__))
mods = sorted(os.path.basename(f)[:-5] for f in glob.glob(os.path.join(ROOT, "lean/MithrilModel/Handlers/C*.lean")))
OUT = os.path.join(ROOT, "lean/Driver.lean")
# development: `gen_driver.py --only C14,C15 --out work/agg/Driver.lean` writes a private driver
if "--only" in sys.argv:
    keep = sys.argv[sys.argv.index("--only") + 1].split(",")
    mods = [m for m in mods if m in keep]
if "--out" in sys.argv:
    OUT = os.path.abspath(sys.argv[sys.argv.index("--out") + 1])
out = ["import MithrilModel.Proto"] + [f"import MithrilModel.Handlers.{m}" for m in mods]
out += ["", "def dispatch (line : String) : String :=", "  match Proto.parseReq line with", "  | none => \"bad-request\"",
        "  | some r =>", "    let h : Option String :="]
first = True
for m in mods:
    kw = "if" if first else "else if"
    out.append(f"      {kw} r.op.startsWith \"{m.lower()}.\" then Handlers.{m}.handle r")
    first = False
out += ["      else none", "    h.getD \"bad-request\"", "",
        "partial def loop (hin : IO.FS.Stream) (hout : IO.FS.Stream) : IO Unit := do",
        "  let line ← hin.getLine", "  if line.isEmpty then return ()", "  hout.putStrLn (dispatch line)", "  loop hin hout", "",
        "def main : IO Unit := do", "  let hin ← IO.getStdin", "  let hout ← IO.getStdout", "  loop hin hout", "  hout.flush", ""]
open(OUT, "w").write("\n".join(out))
print("handlers:", mods)
