"""Per-property configuration of ./check: Lean modules and theorem lists (P obligations),
harness binaries (K/S obligations), anchors, and evidence texts."""

PROPS = {}
PENDING_REASON = {}

PROPS["C17"] = {
    "lean_modules": ["MithrilModel.Properties.C17"],
    "theorems": [
        "C17.C17_margin_blocks", "C17.C17_margin_txs", "C17.C17_monotone_blocks", "C17.C17_monotone_txs",
        "C17.C17_step_blocks", "C17.C17_whole_steps_blocks", "C17.C17_step_txs", "C17.C17_whole_steps_txs",
        "C17.C17_range_boundary", "C17.C17_adjusted_step_multiple", "C17.C17_first_step_note",
        "C17.C17_no_overflow", "C17.C17_overflow_note", "C17.C17_pure", "C17.C17_epoch0",
        "C17.C17_csd_previous", "C17.C17_epoch_cast_note", "C17.C17_entity_txs", "C17.C17_entity_blocks",
    ],
    "level_text": "All clauses (margin, monotonicity, whole steps, range boundary, purity, epoch-0 error) are Lean theorems over unbounded Nat "
                  "about a transliteration of the beacon arithmetic; the transliteration is compared with the real "
                  "SignedEntityConfig on an exhaustive small grid, the cube of 64-bit boundary values and random triples, and "
                  "the clauses are also evaluated directly on the implementation's outputs.",
    "level_note": "Trusted: Lean kernel (+ propext, Quot.sound), the harness and printer, rustc; overflow behaviour as in the dev profile. "
                  "The u64 machine model is proved equal to the Nat model for step + 30 <= 2^64.",
    "harness": [("harness", "c17")],
    "anchors": ["mithril-common/src/entities/signed_entity_config.rs", "mithril-common/src/entities/block_range.rs",
                "mithril-common/src/entities/block_number.rs", "mithril-common/src/entities/signed_entity_type.rs",
                "mithril-common/src/entities/epoch.rs", "mithril-common/src/entities/arithmetic_operation_wrapper.rs"],
    "rule": "cases = (discriminant, epoch, immutable, tip, security parameter, step): exhaustive grid 0..24 (quick) / 0..64 "
            "(thorough) for both block-number entities, the cube of 20 64-bit boundary values, epochs {0,1,2,2^63±1,2^64-1}, "
            "random mixed-magnitude triples; a case is non-trivial unless it is an epoch-only entity; distinct = distinct request lines",
    "trivial_tags": ["epoch", "noconfig"],
    "trusted_base": ["rustc/cargo; harness hcore/c17 and its canonical printer"],
    "assumptions": ["usize/u64 = 64 bit; dev-profile overflow checks (an arithmetic overflow is the outcome `panic`)"],
}

PROPS["C18"] = {
    "lean_modules": ["MithrilModel.Properties.C18"],
    "theorems": [
        "C18.C18_bounded", "C18.C18_fresh", "C18.C18_fresh_every_interleaving", "C18.C18_handout_fresh", "C18.C18_stale_not_readmitted",
        "C18.C18_tag_race_counterexample", "C18.C18_tag_race_repaired", "C18.C18_item_giveback_counterexample_prefix", "C18.C18_item_giveback_fixed",
        "Pool.run_inv",
    ],
    "level_text": "Freshness and the bound are Lean invariants over every state reachable by ANY interleaving of the calls the provers make "
                  "(acquire, explicit give-back, drop, refill, clear, reset, the one-step start_new_generation) by any number of users and for "
                  "any pool size (induction over call sequences, no side condition); the model is compared call by call with the real "
                  "ResourcePool on exhaustive short schedules and random protocol-shaped ones, freshness/bound are evaluated on the real pool's "
                  "hand-outs, the sequence of pool calls in compute_cache of both provers is read from the working tree and compared with the "
                  "protocol the theorem is about, and two sub-API schedules on real threads (through the cfg-guarded sync point) check that the "
                  "bound test and the generation test are made under the lock. The three defects found (item give-back, bound outside the "
                  "lock, tag race of the two-call refresh) are repaired; their counter-examples are kept. Wake-up is only exercised by a "
                  "real-thread test (partial).",
    "level_note": "Trusted: Lean kernel, harness; atomicity of each public call with respect to the queue is read from the lock "
                  "structure of resource_pool.rs (one critical section per call after the fix commits) and probed by the two sub-API "
                  "schedules, not verified; Condvar/OS scheduling is outside the model. The pool's API still offers the two-call refresh "
                  "(set_discriminant, clear): schedules using it are compared by K and counted, but lie outside the provers' protocol.",
    "harness": [("harness", "c18")],
    "anchors": ["internal/mithril-resource-pool/src/resource_pool.rs", "mithril-aggregator/src/services/prover.rs",
                "mithril-aggregator/src/services/prover_legacy.rs"],
    "rule": "case = (pool size, initial content, sequence of API calls by logical users: acquire, explicit give-back, drop, "
            "set_discriminant, clear, give_back_resource(refill), reset, start_new_generation) followed by a drain; exhaustive over a 12-letter "
            "alphabet to depth 4 (quick) / 6 (thorough) for sizes 1-2, plus random schedules of 5-60 calls, half following the provers' protocol "
            "(one-step generation change, refill interleaved with anything) and half with the two-call refresh of the API; the pool calls of "
            "compute_cache read from prover.rs and prover_legacy.rs; every schedule is non-trivial; distinct = distinct request lines",
    "trivial_tags": [],
    "trusted_base": ["rustc/cargo; harness hcore/c18"],
    "assumptions": ["each public call of ResourcePool is atomic w.r.t. the queue (lock structure as read, probed at the sync point)",
                    "liveness of Condvar wake-ups is not modelled; exercised by one real-thread test per run"],
    "goals_not_proved": ["C18_wake (T2) not stated as a theorem"],
}

PROPS["C08"] = {
    "lean_modules": ["MithrilModel.Properties.C08"],
    "theorems": [
        "C08.C08_mono_draw", "C08.C08_phi_one", "C08.phi_one_bits", "C08.C08_zero_stake", "C08.C08_true_correct",
        "C08.C08_false_correct", "C08.C08_exact", "C08.C08_mono_stake_early", "C08.exponent_mono_stake", "C08.C08_inexact_counterexample",
    ],
    "level_text": "Monotonicity in the draw, zero-stake loss, phi_f = 1 win and 'a win is never wrong' are unconditional Lean theorems "
                  "about an exact-rational transliteration of is_lottery_won/taylor_comparison; exactness (decision = comparison with "
                  "exp x outside the band 5x^(N+1)/(N+1)!) is proved against Mathlib's real exponential on the regime x <= 3/2. "
                  "The transliteration is compared decision-for-decision with the working tree's eligibility.rs (compiled into the "
                  "harness) on draws concentrated at threshold*(1 +- 2^-j); outside the proved regime the implementation's decisions "
                  "are judged against a 900-bit reference. The invalid error term for x > 2.66 is a proved counter-example and a known finding.",
    "level_note": "Trusted: Lean kernel + Mathlib (propext, Classical.choice, Quot.sound); f64::ln is an input of the model (its bits "
                  "come from the Rust side); num-bigint/num-rational are modelled by Lean Int/Rat; monotonicity in stake is "
                  "checked on generated pairs, not proved (goal listed).",
    "harness": [("harness", "c08")],
    "anchors": ["mithril-stm/src/proof_system/concatenation/eligibility.rs", "mithril-stm/src/proof_system/concatenation/signer.rs",
                "mithril-stm/src/proof_system/concatenation/single_signature.rs", "mithril-stm/src/signature_scheme/bls_multi_signature/signature.rs"],
    "rule": "signer phase: for real registrations every index 0..m of every produced single signature is a case (draw = Blake2b-512('map', msg, "
            "root, index, sigma) computed by the harness; observation = membership in the signature's index set), the produced signature must "
            "verify and must be rejected with one lost index added; purity phase: one grid in several argument-sharing orders. "
            "case = (phi_f bits, ln bits, 512-bit draw, stake, total): 20 phi_f values incl. next-after-0 and 1-2^-53, totals up to 2^64-1, "
            "stakes {0,1,t/3,t/2,t-1,t,random}, draws uniform / 0 / 2^512-1 / threshold*(1 +- 2^-j) with the threshold from a 1200-bit "
            "fixed-point exp, cross-stake probes, random mixes; non-trivial = everything except the two extreme draws; distinct request lines",
    "trivial_tags": ["extreme"],
    "trusted_base": ["rustc/cargo; harness hcore/c08 (includes /repo's eligibility.rs by #[path])", "Mathlib v4.33 (Real.exp, Complex.exp_bound')"],
    "assumptions": ["f64::ln(1-phi_f) is taken as computed by the platform libm", "num-integer backend (default feature); the rug backend is not modelled"],
    "goals_not_proved": ["C08_mono_stake in full (a 'lost' by FALL-THROUGH after 1000 undecided rounds at the larger stake is not excluded by C08_mono_stake_early; it lies inside the band): checked by S on generated pairs",
                         "exactness for 3/2 < x <= 2.65: judged against the 900-bit reference only"],
}

PROPS["C09"] = {
    "lean_modules": ["MithrilModel.Properties.C09"],
    "theorems": [
        "C09.C09_stm_sound", "C09.verifyBatch_ok_run", "C09.run_head_zero", "C09.C09_stm_rejects_length_mismatch",
        "C09.C09_stm_rejects_unsorted", "C09.C09_stm_empty_panic_note", "C09.C09_stm_root_injective",
        "C09.C09_mkproof_sound", "C09.C09_mkproof_dup_counterexample_prefix", "C09.C09_mkproof_node_as_leaf_counterexample",
        "C09.C09_map_sound", "C09.C09_map_exec_sound", "MapLink.verify_verified", "MapLink.contains_contains", "StmBatch.batch_sound", "Mmr.mkproof_value_sound", "Mmr.calcRoot_cover",
        "ExprTree.nested_sound", "ExprTree.claim_is_subtree_value", "MkProof.verify_contains_sound",
    ],
    "level_text": "Soundness of all three verifiers is proved in Lean for every proof object and every tree size: the STM batch-path "
                  "verifier (wrapper + level loop, conclusion 'claimed leaves are the committed ones at the stated positions' or a "
                  "hash collision or a path value that is not 32 bytes), the ckb-MMR verifier behind MKProof (value level, any injective "
                  "merge, any claimed MMR size; for the code after the duplicate-position fix) and nested MKMapProofs (any depth). The "
                  "transliterations run with Lean implementations of Blake2b/Blake2s and are compared with the real code on exhaustive "
                  "small trees/subsets and on single mutations of every proof component; accepted proofs are checked against the "
                  "committed set directly. Completeness of the STM tree (the batch path the tree GENERATES verifies, for every hash function, every "
                  "tree below 2^63 leaves and every strictly increasing in-range index list) is proved as well; completeness of the ckb-MMR "
                  "proof generator is checked exhaustively on small scope only.",
    "level_note": "Trusted: Lean kernel; the hash functions are parameters of the theorems (injectivity / collision disjunct) and are "
                  "only executed in the driver (validated against the blake2/sha2 crates every run); byte-level instantiation of the "
                  "MMR theorem needs equal-length splits (known findings node-as-leaf and concat-split are exactly its failure); the "
                  "executable MapProof.verify/contains are proved to establish the inductive Verified/Contains predicates (MapLink), so the nested soundness theorem applies to the very functions K validates.",
    "harness": [("harness", "c09"), ("harness", "c09b")],
    "anchors": ["mithril-stm/src/membership_commitment/merkle_tree/tree.rs", "mithril-stm/src/membership_commitment/merkle_tree/commitment.rs",
                "mithril-stm/src/membership_commitment/merkle_tree/path.rs", "internal/mithril-merkle-tree/src/merkle_tree.rs",
                "internal/mithril-merkle-tree/src/merkle_map.rs", "mithril-common/src/entities/mk_set_proof.rs"],
    "rule": "STM tree: all sizes 1..11 (17 thorough), all non-empty index subsets up to size 9 (13), generated path vs model, honest "
            "verification, and 25 kinds of single mutation (leaf replaced/moved/duplicated, out-of-range and 64-bit indices, unsorted, "
            "path value flipped/dropped/added/odd length, root and nr_leaves altered); MKProof: sizes 1..10 (17), subsets up to 7 (12), "
            "leaves of four shapes, mutations incl. duplicate positions, size altered, items altered; nested MKMapProof<BlockRange> of "
            "1-4 trees with sub-proof detached/swapped/re-keyed/tampered; hash vectors are trivial cases; distinct request lines",
    "trivial_tags": ["hash"],
    "trusted_base": ["rustc/cargo; harness bins c09, c09b; cfg-guarded wrappers mithril_stm::verif_hooks (hook H1)",
                     "ckb-merkle-mountain-range 0.6.1 is transliterated (Mmr.lean) and compared by K, not verified itself"],
    "assumptions": ["collision resistance / injectivity of Blake2b-256 and Blake2s-256 enter as hypotheses or disjuncts of the theorems"],
    "goals_not_proved": ["C09_mkproof_complete (proofs generated by the ckb MMR verify): exhaustive small-scope test only (the generator is third-party code, not modelled)",
                         "byte-level instantiation of C09_mkproof_sound for variable-length leaves is FALSE (known findings C09-node-as-leaf, C09-concat-split)"],
}

PROPS["C01"] = {
    "lean_modules": ["MithrilModel.Properties.C01"],
    "theorems": [
        "C01.C01_structural", "C01.C01_index_lt_m", "C01.C01_index_eq_m_counterexample_prefix", "C01.C01_batch",
        "C01.C01_batch_member_alone", "C01.C01_agg_bad_coeff_unique", "StmVerify.verifyM_structural", "StmVerify.batchVerify_members",
        "StmVerify.verifyM_of_preliminary", "C09.C09_stm_sound", "C08.C08_true_correct",
    ],
    "level_text": "The decision logic of aggregate and batch verification is a Lean model whose acceptance is proved to imply: >= k "
                  "indices, pairwise distinct, each in [0, m) and won for the claimed stake, batch path verified, aggregate BLS check "
                  "passed; batch acceptance implies each member's preliminary verification. Membership of the claimed (key, stake) pairs "
                  "follows from the C09 batch-path theorem, lottery exactness from C08. The model is compared verdict-and-error-class with "
                  "the real verifier on honest aggregates and ~35 kinds of structural mutation applied through the JSON form (index values "
                  "at the m boundary, copied/repeated indices, k-1 indices, swapped or forged parties and stakes, foreign sigmas, batch path "
                  "edits) and on batches with one bad member at each position; the six clauses are evaluated on every accepted case.",
    "level_note": "Oracle inputs of the model come from the real primitives (eligibility.rs compiled into the harness, batch-path wrapper, "
                  "BLS validity through the public single verifier). That each individual signature is valid follows from the aggregate "
                  "check only under the random-oracle assumption on the Blake2b-derived coefficients (trusted base); S checks it directly. "
                  "blst is trusted.",
    "harness": [("harness", "c01")],
    "anchors": ["mithril-stm/src/proof_system/concatenation/proof.rs", "mithril-stm/src/proof_system/concatenation/single_signature.rs",
                "mithril-stm/src/proof_system/concatenation/eligibility.rs", "mithril-stm/src/membership_commitment/merkle_tree/commitment.rs",
                "mithril-stm/src/signature_scheme/bls_multi_signature/signature.rs", "mithril-stm/src/protocol/aggregate_signature/signature.rs"],
    "rule": "world = registration of 1-8 real parties (equal stakes / one whale / random), m in 4..24, phi_f in {0.2,0.65,1}, k up to the "
            "covered indices; case = honest aggregate or one structural mutation of it (JSON re-encoding), or a batch of 1-3 (4 thorough) "
            "members with one bad member at each position; all cases non-trivial; distinct request lines",
    "trivial_tags": [],
    "trusted_base": ["rustc/cargo; harness bin c01; blst; serde_json", "random-oracle assumption for clause (6) (individual validity from the aggregate check) and for the per-member weights of the batch check (after fix b85be06a5; the model takes the conjunction of the members' aggregate bits)"],
    "assumptions": ["num-integer backend; default features (future_snark off)"],
    "goals_not_proved": ["clause (6) individually: the deterministic core (C01_agg_bad_coeff_unique) is proved, the probabilistic step over the hash-derived coefficients is an assumption; S checks each signature directly on every accepted case",
                         "CBOR / legacy byte re-encodings of aggregates are exercised under C05, not here"],
}

PROPS["C02"] = {
    "lean_modules": ["MithrilModel.Properties.C02"],
    "theorems": [
        "C02.C02_select_sound", "C02.C02_complete", "C02.C02_monotone", "C02.C02_monotone_offers", "C02.C02_order_independent",
        "C02.C02_invalid_ignored", "C02.C02_duplicate_counterexample_before_repair", "C02.C02_duplicate_repaired",
        "Clerk.select_sound", "Clerk.select_complete", "Clerk.normalize_noRepeat", "Clerk.normalize_covers", "Clerk.normalize_origin",
        "Clerk.selectMerged_monotone", "C02.C02_aggregate_verifies",
    ],
    "level_text": "Soundness of the selection, completeness and monotonicity are Lean theorems about a transliteration of "
                  "select_valid_signatures_for_k_indices for EVERY input list, with no side condition: whatever is handed over (repeated "
                  "copies, index-subset copies, invalid or other-message signatures, any order), if the valid signatures cover k distinct "
                  "indices the selection succeeds, extra material never turns success into failure, and success depends only on which valid "
                  "(key, index) pairs are offered. (Before the two fix: commits monotonicity was false: proved counter-example kept.) The "
                  "model is compared (selected (signer, indices) lists or the reported count) with the real Clerk on permutations, "
                  "duplications, index-subset copies, corrupted, other-message and unregistered-slot signatures, k swept around the covered "
                  "count; completeness, monotonicity, order independence, 'result verifies' and 'honest single signatures verify' are "
                  "evaluated on the real code.",
    "level_note": "The validity bit of each signature is the real SingleSignature::verify verdict (an unregistered signer_index counts as "
                  "invalid); sigma enters as the rank of its bytes. C02_aggregate_verifies (the selected set passes the C01 verifier model) "
                  "is proved under completeness hypotheses on the primitives (lottery verdicts of valid signatures, batch path of registered "
                  "leaves, BLS aggregate of valid signatures) and additionally checked by S on every successful aggregation.",
    "harness": [("harness", "c02")],
    "anchors": ["mithril-stm/src/proof_system/concatenation/clerk.rs", "mithril-stm/src/proof_system/concatenation/proof.rs",
                "mithril-stm/src/proof_system/concatenation/signer.rs", "mithril-common/src/protocol/multi_signer.rs"],
    "rule": "world = real registration (1-8 parties), m in 3..24, phi_f in {0.05,0.2,0.65,1}; case = a (base list, k), an extension of "
            "it by repeated copies / invalid material / same-sigma index-subset copies / more honest signatures / an unregistered slot at "
            "random positions, and a permutation of the extension; the same through mithril-common (entities::SingleSignature -> "
            "protocol::MultiSigner::aggregate_single_signatures / verify_single_signature on certified fixtures, with relabelled, re-slotted, "
            "index-subset and won_indexes-disagreeing copies); all non-trivial; distinct request lines",
    "trivial_tags": [],
    "trusted_base": ["rustc/cargo; harness bin c02; blst"],
    "assumptions": [],
    "goals_not_proved": [],
}

PROPS["C04"] = {
    "lean_modules": ["MithrilModel.Properties.C04"],
    "theorems": [
        "C04.C04_cert_single_segment", "C04.C04_field_previous_hash", "C04.C04_field_epoch", "C04.C04_field_signed_message",
        "C04.C04_field_avk", "C04.C04_field_signature", "C04.C04_field_ancillary_prover", "C04.C04_field_ancillary_verifier",
        "C04.C04_field_metadata", "C04.C04_meta_single_segment", "C04.C04_meta_network", "C04.C04_meta_version",
        "C04.C04_meta_initiated_at", "C04.C04_meta_sealed_at", "C04.C04_params", "C04.C04_meta_params", "C04.C04_party",
        "C04.C04_entity_collision", "C04.C04_entity_collision_cert", "C04.C04_entity_partial_msd", "C04.C04_entity_partial_cdb",
        "C04.C04_pm_single_value", "C04.C04_pm_digest_injective", "PmInj.preimage_injective", "PmInj.lex_pre", "CertModel.segs_single", "CertModel.hexOf_inj",
        "C04.C04_phi_ok", "C04.C04_phi_wrap_counterexample_before_repair", "C04.C04_phi_repaired", "CertModel.phiSeg_inj",
    ],
    "level_text": "Tamper evidence is proved field by field in Lean for the byte-exact model of the certificate hash pre-image (and the nested "
                  "metadata, parameter, party and protocol-message pre-images): two certificates that differ in one field have different hashes "
                  "or exhibit a SHA-256 collision, protocol parameters at U8F24 precision. The model's pre-image is hashed with a Lean SHA-256 "
                  "and compared bit for bit with try_compute_hash / compute_hash on random certificates of both kinds and every entity type; "
                  "the single-field sweep and the message/JSON round trip (shuffled field order, whitespace) are run on the real code. The "
                  "signed-entity variant collision is a proved counter-example and a known finding.",
    "level_note": "SHA-256 is a parameter of the theorems (collision disjunct); serde_json, chrono, the key/signature JSON-hex codecs and "
                  "fixed::U8F24 are exercised by K/S, not modelled beyond the U8F24 rounding. Digest injectivity of protocol messages over the honest "
                  "value grammar is proved by a verified lexer (PmInj); it is stated on the text, the ASCII text/bytes identification is by K.",
    "harness": [("harness", "c04")],
    "anchors": ["mithril-common/src/entities/certificate.rs", "mithril-common/src/entities/certificate_metadata.rs",
                "mithril-common/src/entities/protocol_message.rs", "mithril-common/src/entities/protocol_parameters.rs",
                "mithril-common/src/entities/signed_entity_type.rs", "mithril-common/src/messages/certificate.rs",
                "mithril-common/src/crypto_helper/types/protocol_key.rs"],
    "rule": "random certificates (genesis and standard, the five entity types, empty/long/non-ASCII strings, 0-40 signers, timestamps at "
            "the i64 limits and with nanoseconds, u64 extremes, phi_f incl. 0, 1 and next to 256) + for each the single-field sweep "
            "(16 fields) and the JSON re-serialisation; all cases non-trivial; distinct request lines",
    "trivial_tags": [],
    "trusted_base": ["rustc/cargo; harness bin c04; serde_json; chrono"],
    "assumptions": ["default features: ancillary prover/verifier data are uninhabited (future_snark off), so those two segments are empty"],
    "goals_not_proved": [
                         "C04_roundtrip (ofMessage (toMessage c) = c): S on the real code only",
                         "full single-field statement for the signed-entity VARIANT is FALSE (C04_entity_collision_cert): known finding C04-entity-variant"],
}

PROPS["C03"] = {
    "lean_modules": ["MithrilModel.Properties.C03"],
    "theorems": [
        "C03.C03_chain_sound", "C03.C03_finite", "C03.C03_rejects_nonchained_signers", "C03.C03_forward_link_counterexample_prefix",
        "C03.C03_cache_counterexample_prefix", "C03.ValidD_valid", "Chain.verifyChain_sound",
        "Chain.verifyChain_of_locally_good",
        "C03.C03_cache_poisoning_counterexample_before_repair", "C03.C03_cache_poisoning_repaired",
    ],
    "level_text": "Soundness of the common verifier (acceptance implies a finite valid chain to a genesis certificate under the configured key, "
                  "with exactly the property's link relation) and of the client's two loops with the verifier cache (under the cache "
                  "invariant) are Lean theorems over every retriever behaviour; both hold for the code after two fix commits whose "
                  "counter-examples are kept. The verifier model is compared, verdict and error class, with the real "
                  "MithrilCertificateVerifier over chains from CertificateChainBuilder with an adversarial retriever (fields altered with and "
                  "without rehashing, links re-targeted to every other certificate, adversary-signed certificates spliced, fake parents, "
                  "loops, dropped or wrong certificates, other genesis keys); every accepted case is re-walked against the specification.",
    "level_note": "Integrity bits of each served certificate are computed by the harness with the real primitives (C04 hash, STM verifier "
                  "of C01, Ed25519); hashes are abstract identifiers, collision-freeness enters as BindingOn U (binding among the certificates that exist in a session; the earlier HashBinding over all abstract records was refutable and the three theorems assuming it are no longer obligations). The client's cache loops "
                  "are modelled, proved and compared with the real mithril-client verifier (feature unstable, MemoryCertificateVerifierCache) on cold, warm and partially warm caches (bin c03c).",
    "harness": [("harness", "c03"), ("harness-client", "c03c")],
    "anchors": ["mithril-common/src/certificate_chain/certificate_verifier.rs", "mithril-common/src/entities/certificate.rs",
                "mithril-common/src/entities/epoch.rs", "mithril-common/src/crypto_helper/genesis/verifier.rs",
                "mithril-client/src/certificate_client/verify.rs"],
    "rule": "chain = 3-8 (12 thorough) certificates, 1-3 per epoch, constant or varying signer sets, both chaining methods; case = (start "
            "certificate, served map) for the honest provider and ~20 kinds of adversarial answers at every position; all non-trivial; "
            "distinct request lines",
    "trivial_tags": [],
    "trusted_base": ["rustc/cargo; harness bin c03; ed25519-dalek; STM verifier (C01)"],
    "assumptions": ["default features (future_snark off): only concatenation multi-signatures"],
    "goals_not_proved": [],
}

PROPS["C07"] = {
    "lean_modules": ["MithrilModel.Properties.C07"],
    "theorems": ["C07.C07_iff", "C07.C07_stake_from_distribution", "C07.C07_window", "C07.C07_window_empty",
                 "C07.C07_kes_bound_to_opcert", "C07.C07_duplicate_rejected", "Registration.register_iff",
                 "C07.C07_aggregator_store", "RegLeader.run_inv", "RegLeader.verifier_ok_certified",
                 "C07.C07_announced_evolutions_counterexample_before_repair", "C07.C07_foreign_duplicate_counterexample_before_repair",
                 "C07.C07_aggregator_repaired", "C07.C07_evolution_cap"],
    "level_text": "Acceptance of a registration is proved EQUIVALENT, in Lean, to the conjunction the property lists (an iff, so a missing or "
                  "mis-bound conjunct cannot hide), with the recorded stake read from the distribution only and the KES window exactly e-1..e+1 "
                  "capped at 64; and, for the aggregator (verifier + leader + stores as a state machine), an invariant proved for EVERY history of "
                  "rounds, chain KES periods and attempts: every stored registration meets every clause w.r.t. the values stored for it, one "
                  "registration per (round, party), no key held for two parties of a round. The decision model is compared (verdict, error class, "
                  "party id, recorded stake) with the real KeyRegWrapper::register, built without allow_skip_signer_certification, on a valid "
                  "registration and on every single-component alteration and all 2-splices of two pools' components, with real cold/KES/BLS "
                  "keys; the leader model is compared (every outcome, every stored row, the recorder) with the real "
                  "MithrilSignerRegistrationLeader + MithrilSignerRegistrationVerifier over the real sqlite stores on generated histories; every "
                  "accepted case and every stored row is re-checked clause by clause with the real primitives, and SignerBuilder::new must accept "
                  "the stored set.",
    "level_note": "Ed25519 (op-cert), Sum6 KES verification, BLS proof of possession and the bech32 pool id are uninterpreted primitives of the "
                  "models whose verdicts the harnesses obtain from the real libraries. The aggregator harness shares the aggregator's dev-dependency "
                  "feature allow_skip_signer_certification (uncertified registrations are then accepted by design; they are compared by K, "
                  "excluded from S; the production path is the one c07 builds).",
    "harness": [("harness", "c07"), ("harness-agg", "c07b")],
    "anchors": ["mithril-common/src/crypto_helper/cardano/key_certification.rs", "mithril-common/src/crypto_helper/cardano/opcert.rs",
                "mithril-common/src/crypto_helper/cardano/kes/verifier_standard.rs", "mithril-stm/src/protocol/key_registration/registration_entry.rs",
                "mithril-stm/src/protocol/key_registration/register.rs", "mithril-aggregator/src/services/signer_registration/verifier.rs",
                "mithril-aggregator/src/services/signer_registration/leader.rs"],
    "rule": "c07: for op-cert start periods {0,7} (+100 thorough) and signed KES evolutions {0,1,5,63} (+2,30,62): the valid registration, announced "
            "evolutions none/0/1/t-2..t+2/62..66/2^32/2^64-1, op-cert missing / each field altered / other pool's, KES signature missing / other "
            "pool's key / over another key, verification key and proof of possession swapped (with and without re-signing), all 2-splices, "
            "distributions with the pool absent / stake 0 / huge, claimed party ids, duplicate keys. c07b: histories of one round (sometimes not "
            "opened, closed or re-opened in between, epoch mismatches) with 2-7 attempts drawn from four pools' valid registrations, announced "
            "evolutions altered, another pool's key copied, re-registration with another key, claimed ids, invalid components, uncertified "
            "attempts; chain period inside / at the edges of / outside the KES window or absent; all non-trivial; distinct request lines",
    "trivial_tags": [],
    "trusted_base": ["rustc/cargo; harness bins c07, c07b; ed25519-dalek, kes-summed-ed25519, blst, bech32, sqlite"],
    "assumptions": ["c07: mithril-common built without the allow_skip_signer_certification feature", "c07b: built with it (cargo feature unification with the aggregator's test extensions)"],
    "goals_not_proved": ["the follower aggregator's synchronisation path (signers copied from a leader) is not modelled"],
}

PROPS["C06"] = {
    "lean_modules": ["MithrilModel.Properties.C06"],
    "theorems": ["C06.C06_perm_close", "C06.C06_perm_avk", "C06.C06_perm_slot", "C06.C06_overflow", "C06.C06_paths",
                 "RegClose.close_perm", "RegModel.avk_perm", "C09.C09_stm_root_injective"],
    "level_text": "Order independence of the closed registration, the total stake, the outcome class, the aggregate key and every signer slot is "
                  "a Lean theorem (sorting a permutation by the strict total order (stake, key bytes) gives the same list), and distinct "
                  "registration sets give distinct roots by the C09 root-injectivity theorem. The model computes the REAL aggregate key "
                  "(sorting + Merkle tree with the Lean Blake2b-256) and is compared bit for bit, together with every party's slot, with "
                  "the real STM registration + clerk for all permutations of up to 4 parties and sampled ones up to 10 (equal stakes, "
                  "neighbouring keys, totals at the 2^64 boundary), and with SignerBuilder::new on certified fixtures, also through the "
                  "JSON encodings of signer lists and of the key.",
    "level_note": "Keys are modelled as the big-endian number of their 96 bytes (the code's byte-wise comparison on equal lengths). The "
                  "three nodes' paths all go through SignerBuilder::new -> close_registration; the client's stake-distribution message path "
                  "is the same function and is not separately exercised here.",
    "harness": [("harness", "c06")],
    "anchors": ["mithril-stm/src/protocol/key_registration/register.rs", "mithril-stm/src/protocol/key_registration/closed_registration_entry.rs",
                "mithril-stm/src/proof_system/concatenation/aggregate_key.rs", "mithril-stm/src/membership_commitment/merkle_tree/tree.rs",
                "mithril-common/src/protocol/signer_builder.rs"],
    "rule": "set = 1-10 real BLS keys (random or neighbours in byte order) with stakes all equal / alternating / small with zeros / near 2^63 / "
            "total at 2^64-1 / random; case = one arrival order (all orders for <= 4 parties, 8 (30 thorough) sampled above), plus "
            "SignerBuilder on 5 (25) KES-certified fixtures in shuffled orders and through JSON; all non-trivial; distinct request lines",
    "trivial_tags": [],
    "trusted_base": ["rustc/cargo; harness bin c06; blst; serde_json"],
    "assumptions": [],
    "goals_not_proved": ["C06_dup_party_note (one party listed twice under different stakes: last entry wins) is outside the honest input space and not stated",
                         "C06_codec (key codec round trip) is checked by S only"],
}

PROPS["C05"] = {
    "lean_modules": ["MithrilModel.Properties.C05"],
    "theorems": ["C05.C05_total_single_signature", "C05.C05_total_registration_entry", "C05.C05_total_signature_with_party",
                 "C05.C05_total_batch_path", "C05.C05_total_concatenation_proof", "C05.C05_total_aggregate_signature",
                 "C05.C05_signature_with_party_panic_prefix", "C05.C05_signature_with_party_fixed", "C05.C05_bounded_loop",
                 "LegacyDec.singleSig_total", "LegacyDec.proof_total", "LegacyDec.idxLoop_ok_bound"],
    "level_text": "PARTIAL. For the hand-written legacy byte decoders of mithril-stm (single signature, registration entry, signature+party, "
                  "batch path, concatenation proof, aggregate signature) totality is a Lean theorem for EVERY input: the model spells out each "
                  "checked / unchecked addition and multiplication of the Rust code and is proved never to reach a panic outcome, for the code "
                  "after the fix commit (the pre-fix panic is kept as a proved counter-example); loop work is bounded by the input length. The "
                  "model is compared (ok + decoded value / err / panic) with the real from_bytes on hand-assembled legacy layouts truncated at "
                  "every length and with every 8-byte window set to 13 boundary values. The third-party codecs (ciborium, serde_json, bincode, "
                  "hex) are not modelled: for every public byte / hex / JSON entry point the harness runs honest encodings, round trips and "
                  "structure-aware and random mutations under a panic hook and a counting allocator — that part is a test, labelled as such.",
    "level_note": "Proof covers the legacy decoders only; BLS point validation is an oracle of the model; nested payloads that take the CBOR branch "
                  "are declared outside the model (counted in evidence). The unbounded recursion of MKMapProof::from_bytes (bincode, nested proofs) "
                  "is repaired (depth limit); the 200000-fold nested input is replayed in a child process every run.",
    "harness": [("harness", "c05")],
    "anchors": ["mithril-stm/src/codec.rs", "mithril-stm/src/proof_system/concatenation/proof.rs", "mithril-stm/src/protocol/aggregate_signature/signature.rs",
                "mithril-stm/src/protocol/single_signature/signature.rs", "mithril-stm/src/protocol/single_signature/signature_registered_party.rs",
                "mithril-stm/src/membership_commitment/merkle_tree/path.rs", "mithril-stm/src/membership_commitment/merkle_tree/commitment.rs",
                "mithril-common/src/crypto_helper/types/protocol_key.rs", "mithril-common/src/crypto_helper/codec/binary.rs",
                "internal/mithril-merkle-tree/src/merkle_tree.rs", "internal/mithril-merkle-tree/src/merkle_map.rs"],
    "rule": "K cases: legacy layouts of a single signature, a signature+party and an aggregate signature built from real components: honest, "
            "every truncation, every 8-byte window overwritten with {0,1,2,len-1,len,len+1,2^32,2^44,2^61,2^63,2^64-9,2^64-8,2^64-1} (all "
            "windows for short inputs, sampled for the aggregate), trailing garbage, the fixed-finding inputs; non-trivial = all; distinct "
            "request lines. In addition (not counted as cases) ~28 000 (quick) guarded decoder calls over 20 entry points",
    "trivial_tags": ["cbor-branch"],
    "trusted_base": ["rustc/cargo; harness bin c05 (panic hook, counting global allocator, child process for the stack-overflow witness)",
                     "ciborium, serde_json, bincode, hex: exercised, not modelled"],
    "assumptions": ["inputs are shorter than 2^63 bytes (every Rust slice is)", "dev-profile overflow checks"],
    "goals_not_proved": ["C05_alloc_bound as a quantitative theorem (every allocation <= c*|bytes|+c'): only the loop bound is proved; allocation is measured by the harness",
                         "C05_legacy_roundtrip is proved for the six legacy decoders against hand-assembled legacy layouts (the crate no longer has a legacy ENCODER: every to_bytes writes CBOR); the three envelope theorems keep an explicit routing hypothesis (first byte of a nested payload is not the CBOR version byte: true for blst-compressed keys and for counts < 2^56)",
                         "totality of the CBOR / JSON / bincode / hex paths: not modelled (fuzzed)"],
}

PROPS["C11"] = {
    "lean_modules": ["MithrilModel.Properties.C11"],
    "theorems": ["C11.C11_set_sound", "C11.C11_set_committed", "C11.C11_set_sound_v2", "C11.C11_empty_rejected", "C11.C11_roots_must_agree",
                 "C11.C11_leaf_injective", "C11.C11_leaf_slash_note", "C11.C11_stake_leaf_counterexample", "C11.C11_stake_partial",
                 "Proofs.verifyLegacy_sound", "Proofs.rootsLoop_sound", "C09.C09_map_sound", "C04.C04_pm_single_value", "C04.C04_pm_digest_injective"],
    "level_text": "Acceptance of a legacy or v2 proofs response is proved in Lean to imply: at least one part, every part's nested proof "
                  "verifies, all parts prove under the single returned root, every reported item's leaf is contained in its proof; with "
                  "C09_map_sound contained non-merge values are committed leaves of that root; the leaf encoders are injective on the honest "
                  "grammar; an altered root / block number / offset changes the recomputed digest (C04). The verifier models are compared "
                  "(verdict class and returned root) with the real message verifiers on honest responses of a real MKMap of block-range trees "
                  "and on ~25 kinds of tampering, the stake-distribution root with the Lean MMR builder (Blake2s), and membership, message "
                  "binding and distribution exactness are evaluated on the real results. The non-injective stake leaf is a known finding.",
    "level_note": "Builds on the C09 models (ckb MMR transliteration, nested map proofs) and the C04 digest model. The forged-item classes that "
                  "come from the missing leaf/node separation are C09's known findings and are exercised there (c09b). The aggregator-side "
                  "provers (prover.rs, prover_legacy.rs) are not in this harness: honest proofs come from the same MKMap::compute_proof they call.",
    "harness": [("harness", "c11")],
    "anchors": ["mithril-common/src/messages/cardano_transactions_proof.rs", "mithril-common/src/messages/proof_v2/cardano_transactions_proof.rs",
                "mithril-common/src/messages/proof_v2/cardano_blocks_proof.rs", "mithril-common/src/messages/proof_v2/verify.rs",
                "mithril-common/src/entities/mk_set_proof.rs", "mithril-common/src/entities/cardano_transactions_set_proof.rs",
                "mithril-common/src/entities/cardano_block_transaction_mktree_node.rs", "mithril-common/src/signable_builder/cardano_stake_distribution.rs",
                "mithril-client/src/message.rs"],
    "rule": "world = chain of 1-50 (120) blocks with 0-3 transactions each, legacy map (transaction hashes) and v2 map (Block/.., Tx/.. leaves) by "
            "block range; cases = honest / tampered legacy responses of 1-3 parts, honest / tampered v2 transaction and block responses, a "
            "stake distribution of 1-50 pools; all non-trivial; distinct request lines",
    "trivial_tags": [],
    "trusted_base": ["rustc/cargo; harness bin c11; serde_json, bincode (proof encodings)"],
    "assumptions": ["Blake2s-256 collision resistance enters through C09's hypotheses"],
    "goals_not_proved": [
                         "exactness of the verified stake distribution is FALSE in general (C11_stake_leaf_counterexample): known finding C11-stake-leaf; C11_stake_partial is the proved part"],
}


# property configurations contributed as separate files: props.d/Cxx.py defines `CONFIG = {...}`;
# props.d/Cxx+<name>.py defines `EXTEND = {...}`: lists are appended to, strings are appended (after a space) to
# the entry of Cxx (further harness bins, theorems, modules, anchors for layers built separately)
import glob as _glob, os as _os, importlib.util as _ilu
_files = sorted(_glob.glob(_os.path.join(_os.path.dirname(_os.path.abspath(__file__)), "props.d", "C*.py")))
for _f in [f for f in _files if "+" not in _os.path.basename(f)] + [f for f in _files if "+" in _os.path.basename(f)]:
    _name = _os.path.basename(_f)[:-3]
    _spec = _ilu.spec_from_file_location("props_" + _name.replace("+", "_"), _f)
    _m = _ilu.module_from_spec(_spec)
    _spec.loader.exec_module(_m)
    if "+" in _name:
        _base = PROPS[_name.split("+")[0]]
        for _k, _v in _m.EXTEND.items():
            if _k == "drop_theorems":
                # statements found vacuous / trivially true by the vacuity audit: no longer obligations (they stay in the
                # Lean files, flagged); each entry is (name, reason, replaced by)
                _base["theorems"] = [t for t in _base.get("theorems", []) if t not in [d[0] for d in _v]]
                _base["superseded_theorems"] = list(_base.get("superseded_theorems", [])) + [list(d) for d in _v]
                continue
            if isinstance(_v, list):
                _base[_k] = list(_base.get(_k, [])) + [x for x in _v if x not in _base.get(_k, [])]
            elif isinstance(_v, str):
                _base[_k] = (_base.get(_k, "") + " " + _v).strip()
            elif isinstance(_v, dict):
                _d = dict(_base.get(_k, {})); _d.update(_v); _base[_k] = _d
    else:
        PROPS[_name] = _m.CONFIG
