"""Per-property configuration of ./check: Lean modules and theorem lists (P obligations),
harness binaries (K/S obligations), anchors, and evidence texts."""

PROPS = {}
PENDING_REASON = {}

PROPS["C17"] = {
    "lean_modules": ["MithrilModel.Properties.C17"],
    "theorems": [
        "C17.C17_margin_blocks", "C17.C17_margin_txs", "C17.C17_monotone_blocks", "C17.C17_monotone_txs",
        "C17.C17_step_blocks", "C17.C17_whole_steps_blocks", "C17.C17_step_txs", "C17.C17_whole_steps_txs",
        "C17.C17_range_boundary", "C17.C17_adjusted_step_multiple", "C17.C17_first_step_note",
        "C17.C17_no_overflow", "C17.C17_overflow_note", "C17.C17_pure", "C17.C17_epoch0",
        "C17.C17_csd_previous", "C17.C17_epoch_cast_note", "C17.C17_entity_txs", "C17.C17_entity_blocks",
    ],
    "level_text": "All clauses (margin, monotonicity, whole steps, range boundary, purity, epoch-0 error) are Lean theorems over unbounded Nat "
                  "about a transliteration of the beacon arithmetic; the transliteration is compared with the real "
                  "SignedEntityConfig on an exhaustive small grid, the cube of 64-bit boundary values and random triples, and "
                  "the clauses are also evaluated directly on the implementation's outputs.",
    "level_note": "Trusted: Lean kernel (+ propext, Quot.sound), the harness and printer, rustc; overflow behaviour as in the dev profile. "
                  "The u64 machine model is proved equal to the Nat model for step + 30 <= 2^64.",
    "harness": [("hcore", "c17")],
    "anchors": ["mithril-common/src/entities/signed_entity_config.rs", "mithril-common/src/entities/block_range.rs",
                "mithril-common/src/entities/block_number.rs", "mithril-common/src/entities/signed_entity_type.rs",
                "mithril-common/src/entities/epoch.rs", "mithril-common/src/entities/arithmetic_operation_wrapper.rs"],
    "rule": "cases = (discriminant, epoch, immutable, tip, security parameter, step): exhaustive grid 0..24 (quick) / 0..64 "
            "(thorough) for both block-number entities, the cube of 20 64-bit boundary values, epochs {0,1,2,2^63±1,2^64-1}, "
            "random mixed-magnitude triples; a case is non-trivial unless it is an epoch-only entity; distinct = distinct request lines",
    "trivial_tags": ["epoch", "noconfig"],
    "trusted_base": ["rustc/cargo; harness hcore/c17 and its canonical printer"],
    "assumptions": ["usize/u64 = 64 bit; dev-profile overflow checks (an arithmetic overflow is the outcome `panic`)"],
}
