//! C06 harness, signer layer: the REAL `MithrilSingleSigner` of mithril-signer over the REAL signer `MithrilEpochService`
//! with its sqlite stake store and protocol-initializer store — the path by which a signer node derives, from the list of
//! registered signers the aggregator announces (`EpochSettingsMessage`) and from ITS OWN stake store, the key registration
//! it signs against — versus the Lean model (`RegPaths.associate` + `RegPaths.build` + slot).
//!
//! Sets of 2..8 KES-certified signers with real protocol initializers (fixtures of mithril-common; equal stakes or random
//! ones), one of them being "this node". The announced list comes in several orders, handed over directly or through the
//! JSON text of `EpochSettingsMessage` + `FromEpochSettingsAdapter`; the stake store also holds pools that did not register,
//! other stakes for the neighbouring epochs, another initializer for the neighbouring epochs, and the `next_signers` are a
//! different set. Error cases: a listed signer without stake, this node not listed, this node's stake changed since it
//! registered, a signer listed twice, another party's stake at 2^64-1 / all others zero, an empty list.
//!
//! What the signer computes is visible through the single signature it produces: its `signer_index` (the Merkle-tree
//! slot) and the aggregate key it is bound to (the signed bytes contain the Merkle root; the lottery uses the total stake).
//! K: outcome class, the slot, and the key under which the signature verifies — the key raw mithril-stm computes from the
//! (key, stake) pairs, printed only if the signature verifies under it — against the model's key (Blake2b in Lean) and slot.
//! S (real versus real): the aggregator-side path (`SignerBuilder::new` on the canonical list + `MultiSigner::
//! verify_single_signature`) accepts the signature and has the same key; the slot is the position of this node's entry
//! in raw mithril-stm's closed registration; every order / encoding of one set gives the same key and slot.
use std::collections::{BTreeMap, BTreeSet};
use std::sync::Arc;

use hutil::{hex, Args, Rng, Sink};
use mithril_common::crypto_helper::ProtocolInitializer;
use mithril_common::entities::{Epoch, ProtocolMessage, ProtocolMessagePartKey, ProtocolParameters, Signer, SignerWithStake, StakeDistribution, SupportedEra};
use mithril_common::messages::{EpochSettingsMessage, SignerMessagePart, TryFromMessageAdapter};
use mithril_common::protocol::{SignerBuilder, SignerBuilderError};
use mithril_common::test::builder::{MithrilFixtureBuilder, StakeDistributionGenerationMethod};
use mithril_common::test::double::Dummy;
use mithril_era::EraChecker;
use mithril_persistence::sqlite::ConnectionBuilder;
use mithril_persistence::store::StakeStorer;
use mithril_protocol_config::model::{MithrilNetworkConfiguration, MithrilNetworkConfigurationForEpoch, SignedEntityTypeConfiguration};
use mithril_signer::FromEpochSettingsAdapter;
use mithril_signer::database::repository::{ProtocolInitializerRepository, StakePoolStore};
use mithril_signer::services::{EpochService, MithrilEpochService, MithrilSingleSigner, SingleSigner};
use mithril_signer::store::ProtocolInitializerStorer;
use mithril_stm::{Clerk, KeyRegistration, MithrilMembershipDigest, Parameters, RegisterError, RegistrationEntry};

type D = MithrilMembershipDigest;

fn silence_stdout() {
    use std::os::fd::AsRawFd;
    if let Ok(f) = std::fs::OpenOptions::new().write(true).open("/dev/null") {
        unsafe { libc::dup2(f.as_raw_fd(), 1); }
        std::mem::forget(f);
    }
}

fn class_of(e: &anyhow::Error) -> String {
    let text = format!("{:?}", e);
    for c in e.chain() {
        if let Some(r) = c.downcast_ref::<RegisterError>() {
            return match r {
                RegisterError::UnregisteredInitializer => "unregistered".into(),
                RegisterError::EntryAlreadyRegistered(_) => "build:dupKey".into(),
                RegisterError::TotalStakeOverflow { .. } => "build:overflow".into(),
                RegisterError::ZeroTotalStake => "build:zero".into(),
                other => format!("other:{}", other),
            };
        }
        if let Some(SignerBuilderError::EmptySigners) = c.downcast_ref::<SignerBuilderError>() {
            return "build:empty".into();
        }
        if let Some(w) = c.downcast_ref::<mithril_common::crypto_helper::ProtocolRegistrationErrorWrapper>() {
            return match w {
                mithril_common::crypto_helper::ProtocolRegistrationErrorWrapper::PartyIdNonExisting => "build:unknownParty".into(),
                other => format!("registration:{}", other).chars().take(60).collect(),
            };
        }
    }
    if text.contains("NoStakeForSigner") || text.contains("NoValueError") || text.contains("No stake") { return "nostake".into(); }
    if text.contains("No protocol initializer") { return "noinitializer".into(); }
    format!("other:{}", text).chars().take(120).collect()
}

fn net_config(epoch: Epoch, pp: &ProtocolParameters) -> MithrilNetworkConfiguration {
    let for_epoch = MithrilNetworkConfigurationForEpoch {
        protocol_parameters: pp.clone(),
        enabled_signed_entity_types: BTreeSet::new(),
        signed_entity_types_config: SignedEntityTypeConfiguration { cardano_transactions: None, cardano_blocks_transactions: None },
    };
    MithrilNetworkConfiguration {
        epoch,
        configuration_for_aggregation: for_epoch.clone(),
        configuration_for_next_aggregation: for_epoch.clone(),
        configuration_for_registration: for_epoch,
    }
}

/// raw mithril-stm over (key, stake) pairs: the key text `root:n:total`, the AVK, and the ordered entries
fn stm_registration(entries: &[(mithril_stm::VerificationKeyProofOfPossessionForConcatenation, u64)], params: &Parameters)
    -> Option<(String, mithril_stm::AggregateVerificationKey<D>, Vec<(Vec<u8>, u64)>)> {
    let mut reg = KeyRegistration::initialize();
    for (k, s) in entries {
        reg.register_by_entry(&RegistrationEntry::new(*k, *s).ok()?).ok()?;
    }
    let closed = reg.close_registration(params).ok()?;
    let clerk = Clerk::<D>::new_clerk_from_closed_key_registration(params, &closed);
    let avk = clerk.compute_aggregate_verification_key();
    let v = serde_json::to_value(avk.to_concatenation_aggregate_verification_key()).ok()?;
    let root: Vec<u8> = v["mt_commitment"]["root"].as_array()?.iter().map(|x| x.as_u64().unwrap() as u8).collect();
    let text = format!("{}:{}:{}", hex(&root), v["mt_commitment"]["nr_leaves"], v["total_stake"]);
    let mut order = vec![];
    for i in 0..entries.len() as u64 {
        if let Ok((vk, st)) = clerk.get_concatenation_registered_party_for_index(&i) { order.push((vk.to_bytes().to_vec(), st)); }
    }
    Some((text, avk, order))
}

struct Case {
    tag: &'static str,
    /// the announced current signers, in the order announced
    list: Vec<Signer>,
    /// the signer node's stake store for the signer retrieval epoch
    stakes: Vec<(String, u64)>,
    via_json: bool,
    honest: bool,
}

fn main() {
    silence_stdout();
    let args = Args::parse();
    let mut rng = Rng::new(args.seed);
    let mut sink = Sink::new(&args);
    let rt = tokio::runtime::Builder::new_current_thread().enable_all().build().unwrap();
    // phi_f = 1: the node wins every lottery, so it always produces the signature that shows what it computed
    let pp = ProtocolParameters { k: 2, m: 6, phi_f: 1.0 };
    let stm_params: Parameters = pp.clone().into();
    let logger = slog::Logger::root(slog::Discard, slog::o!());
    let mut pm = ProtocolMessage::new();
    pm.set_message_part(ProtocolMessagePartKey::SnapshotDigest, "c06s".to_string());
    let msg = pm.compute_hash();
    let mut ids: BTreeMap<String, usize> = BTreeMap::new();
    let mut id = |s: &str| -> usize { let n = ids.len() + 1; *ids.entry(s.to_string()).or_insert(n) };
    let epoch = Epoch(10);

    let nsets = if args.thorough() { 120 } else { 28 };
    for si in 0..nsets {
        let n = 2 + (si % 7) as usize;
        let mut seed = [0u8; 32];
        seed[0] = (si / 7) as u8;
        seed[1] = 40 + (args.seed % 5) as u8;
        let method = if si % 2 == 0 { StakeDistributionGenerationMethod::Uniform(9) } else { StakeDistributionGenerationMethod::RandomDistribution { seed: [si as u8; 32], min_stake: 1 } };
        let fixture = MithrilFixtureBuilder::default()
            .with_signers(n)
            .with_protocol_parameters(pp.clone())
            .with_party_id_seed(seed)
            .with_stake_distribution(method)
            .build();
        let sf = fixture.signers_fixture();
        let base: Vec<SignerWithStake> = fixture.signers_with_stake();
        let base_stakes: Vec<(String, u64)> = base.iter().map(|s| (s.party_id.clone(), s.stake)).collect();
        // pools that did not register
        let extra: Vec<(String, u64)> = (0..3).map(|j| (format!("pool1notregistered{}x{}", si, j), rng.range(1, 500))).collect();
        let self_idx = rng.below(n as u64) as usize;
        let me = &sf[self_idx];
        let my_party = me.signer_with_stake.party_id.clone();
        let my_init: ProtocolInitializer = me.protocol_initializer.clone();
        let my_vk = hex(&me.signer_with_stake.verification_key_for_concatenation.vk.to_bytes());
        let my_stake = me.signer_with_stake.stake;

        let signers_of = |l: &[SignerWithStake]| -> Vec<Signer> { Signer::vec_from(l.to_vec()) };
        let with_extra = |s: &[(String, u64)]| -> Vec<(String, u64)> { let mut v = s.to_vec(); v.extend(extra.clone()); v };
        let mut cases: Vec<Case> = vec![];
        cases.push(Case { tag: "order-as-built", list: signers_of(&base), stakes: with_extra(&base_stakes), via_json: false, honest: true });
        let mut rev = base.clone();
        rev.reverse();
        cases.push(Case { tag: "order-reversed", list: signers_of(&rev), stakes: base_stakes.clone(), via_json: true, honest: true });
        for r in 0..(if args.thorough() { 5 } else { 3 }) {
            let mut p = base.clone();
            rng.shuffle(&mut p);
            cases.push(Case { tag: "order-shuffled", list: signers_of(&p), stakes: with_extra(&base_stakes), via_json: r % 2 == 0, honest: true });
        }
        {
            // another party's stake is another one in this node's store: another set (another key, maybe another slot)
            let mut st = base_stakes.clone();
            let j = (self_idx + 1) % n;
            st[j].1 = st[j].1 + 1 + rng.range(0, 30);
            let mut p = base.clone();
            rng.shuffle(&mut p);
            cases.push(Case { tag: "other-set-stake-of-another-party", list: signers_of(&p), stakes: with_extra(&st), via_json: true, honest: false });
        }
        {
            let mut p = base.clone();
            rng.shuffle(&mut p);
            let j = (self_idx + 1) % n;
            let st: Vec<(String, u64)> = base_stakes.iter().filter(|(pid, _)| *pid != base[j].party_id).cloned().collect();
            cases.push(Case { tag: "err-listed-signer-without-stake", list: signers_of(&p), stakes: with_extra(&st), via_json: false, honest: false });
        }
        {
            let p: Vec<SignerWithStake> = base.iter().filter(|s| s.party_id != my_party).cloned().collect();
            cases.push(Case { tag: "err-this-node-not-listed", list: signers_of(&p), stakes: with_extra(&base_stakes), via_json: true, honest: false });
        }
        {
            let mut st = base_stakes.clone();
            st[self_idx].1 += 1;
            cases.push(Case { tag: "err-own-stake-changed-since-registration", list: signers_of(&base), stakes: st, via_json: false, honest: false });
        }
        {
            let mut p = base.clone();
            rng.shuffle(&mut p);
            let dup = p[rng.below(n as u64) as usize].clone();
            p.insert(rng.below(n as u64 + 1) as usize, dup);
            cases.push(Case { tag: "err-signer-listed-twice", list: signers_of(&p), stakes: base_stakes.clone(), via_json: true, honest: false });
        }
        {
            // the stake store keeps stakes as i64 (a larger one panics in the store: not a value a chain can produce):
            // every other party at 2^63-1 — from three parties on the total passes 2^64
            let mut st = base_stakes.clone();
            for (k, x) in st.iter_mut().enumerate() { if k != self_idx { x.1 = i64::MAX as u64; } }
            cases.push(Case { tag: if n >= 3 { "err-total-overflow" } else { "other-set-huge-stake" }, list: signers_of(&base), stakes: st, via_json: false, honest: false });
        }
        {
            let mut st = base_stakes.clone();
            for (k, x) in st.iter_mut().enumerate() { if k != self_idx { x.1 = 0; } }
            cases.push(Case { tag: "other-set-all-others-zero", list: signers_of(&base), stakes: st, via_json: true, honest: false });
        }
        if si % 5 == 0 {
            cases.push(Case { tag: "err-empty-list", list: vec![], stakes: base_stakes.clone(), via_json: true, honest: false });
        }

        let mut first: Option<String> = None;
        for case in cases {
            if !sink.wanted() { sink.skip(); continue; }
            // ---- the real signer node: sqlite stores, epoch service, single signer
            let conn = Arc::new(ConnectionBuilder::open_memory().with_migrations(mithril_signer::database::migration::get_migrations()).build().unwrap());
            let stake_store = Arc::new(StakePoolStore::new(conn.clone(), None));
            let init_store = Arc::new(ProtocolInitializerRepository::new(conn.clone(), None));
            let retrieval = epoch.offset_to_signer_retrieval_epoch().unwrap();
            let sd: StakeDistribution = case.stakes.iter().cloned().collect();
            rt.block_on(stake_store.save_stakes(retrieval, sd.clone())).unwrap();
            // the neighbouring epochs hold OTHER stakes and ANOTHER initializer
            let other_sd: StakeDistribution = case.stakes.iter().map(|(p, s)| (p.clone(), if *s > 1_000_000 { s - 3 } else { s + 3 })).collect();
            rt.block_on(stake_store.save_stakes(epoch, other_sd.clone())).unwrap();
            rt.block_on(stake_store.save_stakes(Epoch(*retrieval - 1), other_sd)).unwrap();
            let other_init = sf[(self_idx + 1) % n].protocol_initializer.clone();
            rt.block_on(init_store.save_protocol_initializer(retrieval, my_init.clone())).unwrap();
            rt.block_on(init_store.save_protocol_initializer(epoch, other_init.clone())).unwrap();
            rt.block_on(init_store.save_protocol_initializer(Epoch(*retrieval - 1), other_init)).unwrap();
            let mut service = MithrilEpochService::new(Arc::new(EraChecker::new(SupportedEra::dummy(), Epoch(0))), stake_store.clone(), init_store.clone(), logger.clone());
            // the announced lists, directly or through the JSON text of the epoch-settings message
            let next_list: Vec<Signer> = signers_of(&base[..1]);
            let (current, next) = if case.via_json {
                #[allow(deprecated)]
                let message = EpochSettingsMessage {
                    epoch,
                    signer_registration_protocol_parameters: None,
                    current_signers: SignerMessagePart::from_signers(case.list.clone()),
                    next_signers: SignerMessagePart::from_signers(next_list.clone()),
                    cardano_transactions_signing_config: None,
                };
                let text = serde_json::to_string(&message).unwrap();
                let back: EpochSettingsMessage = serde_json::from_str(&text).unwrap();
                let rs = FromEpochSettingsAdapter::try_adapt(back).unwrap();
                (rs.current_signers, rs.next_signers)
            } else {
                (case.list.clone(), next_list.clone())
            };
            rt.block_on(service.inform_epoch_settings(epoch, net_config(epoch, &pp), current, next)).unwrap();
            let single_signer = MithrilSingleSigner::new(my_party.clone(), Arc::new(tokio::sync::RwLock::new(service)), logger.clone());
            let res = rt.block_on(single_signer.compute_single_signature(&pm));

            // ---- references (no signer code): raw mithril-stm over the pairs this node's inputs define
            let pairs: Option<Vec<(mithril_stm::VerificationKeyProofOfPossessionForConcatenation, u64)>> =
                case.list.iter().map(|s| sd.get(&s.party_id).map(|st| (*s.verification_key_for_concatenation, *st))).collect();
            let stm = pairs.as_ref().and_then(|p| stm_registration(p, &stm_params));
            let out = match &res {
                Err(e) => format!("err {}", class_of(e)),
                Ok(None) => "none".to_string(),
                Ok(Some(sig)) => {
                    let ps = sig.to_protocol_signature();
                    let under = match &stm {
                        Some((text, avk, _)) => {
                            if ps.verify(&stm_params, &me.signer_with_stake.verification_key_for_concatenation.vk, &my_stake, avk, msg.as_bytes()).is_ok() { text.clone() } else { "unverifiable".into() }
                        }
                        None => "unverifiable".into(),
                    };
                    format!("ok {} slot={}", under, ps.signer_index)
                }
            };
            let req = format!(
                "c06.signer self=({},{}) signers=[{}] stakes=[{}]",
                my_vk, my_stake,
                case.list.iter().map(|s| {
                    let pool = s.operational_certificate.as_ref().and_then(|o| o.compute_protocol_party_id().ok()).unwrap_or_else(|| s.party_id.clone());
                    format!("({},{},{})", id(&s.party_id), id(&pool), hex(&s.verification_key_for_concatenation.vk.to_bytes()))
                }).collect::<Vec<_>>().join(","),
                case.stakes.iter().map(|(p, s)| format!("({},{})", id(p), s)).collect::<Vec<_>>().join(",")
            );
            let i = sink.case(case.tag, &req, &out);

            // ---- S
            if let Ok(Some(sig)) = &res {
                let ps = sig.to_protocol_signature();
                // the aggregator-side path on the canonical list (sorted by party id) with the same stakes
                let mut canonical: Vec<SignerWithStake> = case.list.iter().filter_map(|s| sd.get(&s.party_id).map(|st| SignerWithStake::from_signer(s.clone(), *st))).collect();
                canonical.sort_by(|a, b| a.party_id.cmp(&b.party_id));
                match SignerBuilder::new(&canonical, &pp) {
                    Err(e) => sink.sfail(i, "path-dependent-outcome", &format!("the signer signs, the aggregator-side SignerBuilder refuses the same set: {}", class_of(&e)), &req),
                    Ok(b) => {
                        let ms = b.build_multi_signer();
                        if let Err(e) = ms.verify_single_signature(&pm, sig) {
                            sink.sfail(i, "path-dependent-key", &format!("the aggregator-side multi-signer built from the same set rejects the signer's signature: {}", format!("{:?}", e).chars().take(160).collect::<String>()), &req);
                        }
                        let v = serde_json::to_value(ms.compute_aggregate_verification_key().to_concatenation_aggregate_verification_key()).unwrap();
                        let root: Vec<u8> = v["mt_commitment"]["root"].as_array().unwrap().iter().map(|x| x.as_u64().unwrap() as u8).collect();
                        let text = format!("{}:{}:{}", hex(&root), v["mt_commitment"]["nr_leaves"], v["total_stake"]);
                        if let Some((stm_text, _, _)) = &stm {
                            if *stm_text != text { sink.sfail(i, "path-dependent-key", "aggregator-side SignerBuilder and raw mithril-stm disagree on the key of the same set", &req); }
                        }
                    }
                }
                match &stm {
                    None => sink.sfail(i, "path-dependent-outcome", "the signer signs although raw mithril-stm cannot close a registration over the same pairs", &req),
                    Some((_, _, order)) => {
                        let want = order.iter().position(|(vk, st)| hex(vk) == my_vk && *st == my_stake);
                        if want != Some(ps.signer_index as usize) {
                            sink.sfail(i, "wrong-slot", &format!("signer_index {} but this node's entry sits at position {:?} of the closed registration", ps.signer_index, want), &req);
                        }
                        if !out.contains("unverifiable") {} else { sink.sfail(i, "path-dependent-key", "the signature does not verify under the key raw mithril-stm computes from the same pairs", &req); }
                    }
                }
                if case.tag.starts_with("err-") { sink.sfail(i, "accepted-bad-input", &format!("the signer signed in a case that must be refused ({})", case.tag), &req); }
            } else if case.honest {
                sink.sfail(i, "path-dependent-outcome", &format!("the signer does not sign on an honest set: {}", out), &req);
            }
            if case.honest {
                match &first { None => first = Some(out.clone()), Some(f) => if *f != out { sink.sfail(i, "order-dependent-key", &format!("key / slot differ between two orders or encodings of one set: '{}' vs '{}'", f, out), &req); } }
            }
        }
    }
    let _ = Dummy::dummy as fn() -> SupportedEra;
    sink.finish();
}
