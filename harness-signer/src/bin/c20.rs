//! C20 — correspondence harness for the signer.
//!
//! The REAL signer (state machine, runner, certifier, epoch service, single signer, sqlite stores, HTTP
//! aggregator client, production publisher wiring) runs against /repo's own fake aggregator
//! (`tests/test_extensions/fake_aggregator_http.rs`, mounted by `#[path]`) through a small reverse proxy
//! owned by the harness. The proxy injects the network faults (aggregator down, registration round not
//! open, failing registration / publication, dropped registration) and records every request body, which
//! is the observation "what did the aggregator receive". The aggregator has its own chain observer, so
//! its epoch can lag behind or run ahead of the signer's (stale / early epoch settings). A decorator
//! around the signed-beacon store injects failures of `mark_beacon_as_signed`. A restart drops every
//! service and the sqlite connections and rebuilds them on the same database files.
//!
//! One case = one run of 30–200 events. K: after every event the state label, the cycle result, the
//! registration requests, the signatures received by the aggregator and the three tables, against the
//! Lean model `Signer.step`. S (on the real behaviour): once-ness, the signature verifies under the key
//! registered two epochs earlier (a real `SignerBuilder`/`MultiSigner` built from the aggregator's
//! registrations under the protocol's offsets, with the stake distribution in force), the signed message
//! is the one such an aggregator computes, never a publication without an eligible registration.
use std::collections::{BTreeMap, BTreeSet, HashMap};
use std::fmt::Write as _;
use std::path::{Path, PathBuf};
use std::sync::atomic::{AtomicBool, AtomicU64, Ordering};
use std::sync::{Arc, Mutex};
use std::time::Duration;

use async_trait::async_trait;
use hutil::{Args, Rng, Sink};

mod test_extensions {
    #[path = "/repo/mithril-signer/tests/test_extensions/fake_aggregator_http.rs"]
    mod fake_aggregator_http;
    pub use fake_aggregator_http::FakeAggregatorHttpServer;
}
use test_extensions::FakeAggregatorHttpServer;

use mithril_aggregator_client::AggregatorHttpClient;
use mithril_cardano_node_chain::{
    chain_importer::CardanoChainDataImporter,
    test::double::{DumbBlockScanner, FakeChainObserver},
};
use mithril_cardano_node_internal_database::{
    signable_builder::CardanoDatabaseSignableBuilder,
    test::double::{DumbImmutableDigester, DumbImmutableFileObserver},
};
use mithril_common::{
    StdResult,
    api_version::APIVersionProvider,
    crypto_helper::{KesSigner, KesSignerStandard, ProtocolAggregateVerificationKeyForConcatenation, ProtocolSignerVerificationKeyForConcatenation},
    entities::{
        BlockNumber, ChainPoint, Epoch, ProtocolMessage, ProtocolMessagePartKey, ProtocolParameters,
        SignedEntityType, SignedEntityTypeDiscriminants, SignerWithStake, SingleSignature, SingleSignatureAuthenticationStatus,
        SlotNumber, StakeDistribution, SupportedEra, TimePoint,
    },
    messages::{RegisterSignatureMessageHttp, RegisterSignerMessage, SignedEntityTypeMessage, SignerMessagePart},
    protocol::SignerBuilder,
    signable_builder::{
        CardanoBlocksTransactionsSignableBuilder, CardanoStakeDistributionSignableBuilder, CardanoTransactionsSignableBuilder,
        MithrilSignableBuilderService, MithrilStakeDistributionSignableBuilder, SignableBuilder,
        SignableBuilderServiceDependencies, StakeDistributionRetriever,
    },
    test::{builder::MithrilFixtureBuilder, double::Dummy},
};
use mithril_era::{EraChecker, EraMarker, EraReader, adapters::EraReaderDummyAdapter};
use mithril_persistence::sqlite::SqliteConnection;
use mithril_protocol_config::{
    http::HttpMithrilNetworkConfigurationProvider,
    model::{MithrilNetworkConfigurationForEpoch, SignedEntityTypeConfiguration},
    test::double::FakeMithrilNetworkConfigurationProviderWithEpochMarkers,
};
use mithril_signed_entity_lock::SignedEntityTypeLock;
use mithril_signed_entity_preloader::{CardanoTransactionsPreloader, CardanoTransactionsPreloaderActivation};
use mithril_signer::{
    Configuration, MetricsService, RuntimeError, SignerRunner, SignerState, StateMachine,
    database::repository::{ProtocolInitializerRepository, SignedBeaconRepository, SignerCardanoChainDataRepository, StakePoolStore},
    dependency_injection::{DependenciesBuilder, SignerDependencyContainer},
    entities::BeaconToSign,
    services::{
        EpochPruningTask, MithrilEpochService, MithrilSingleSigner, SignaturePublishRetryPolicy, SignaturePublisher,
        SignaturePublisherDelayer, SignaturePublisherNoop, SignaturePublisherRetrier, SignedBeaconStore, SignerCertifierService,
        SignerChainDataImporter, SignerSignableSeedBuilder, SignerSignedEntityConfigProvider, SignerUpkeepService,
    },
    store::{MKTreeStoreSqlite, ProtocolInitializerStorer},
};
use mithril_ticker::{MithrilTickerService, TickerService};

// ------------------------------------------------------------------------------------------- logging

static LOST: AtomicBool = AtomicBool::new(false);
static VERBOSE: AtomicBool = AtomicBool::new(false);

struct Recorder;
impl slog::Drain for Recorder {
    type Ok = ();
    type Err = slog::Never;
    fn log(&self, record: &slog::Record, _values: &slog::OwnedKVList) -> Result<(), slog::Never> {
        if record.level().is_at_least(slog::Level::Warning) {
            let m = format!("{}", record.msg());
            if m.contains("all lotteries were lost") {
                LOST.store(true, Ordering::SeqCst);
            }
            if VERBOSE.load(Ordering::Relaxed) {
                eprintln!("[{}] {}", record.level(), m);
            }
        } else if VERBOSE.load(Ordering::Relaxed) && record.level().is_at_least(slog::Level::Info) {
            eprintln!("[{}] {}", record.level(), record.msg());
        }
        Ok(())
    }
}
fn logger() -> slog::Logger {
    slog::Logger::root(Arc::new(slog::Fuse(Recorder)), slog::o!())
}

// ------------------------------------------------------------------------------------------- proxy

#[derive(Default, Clone, Debug)]
struct Faults {
    down: bool,
    round_closed: bool,
    reg_fail: bool,
    reg_drop: bool,
    pub_fail: u64,
}

#[derive(Clone)]
struct PostRec {
    rec_epoch: u64,
    vk: String,
    delivered: bool,
}

#[derive(Default)]
struct ProxyLog {
    posts: Vec<PostRec>,
    pubs: Vec<RegisterSignatureMessageHttp>,
    pub_attempts: u64,
}

#[derive(Clone)]
struct ProxyState {
    faults: Arc<Mutex<Faults>>,
    log: Arc<Mutex<ProxyLog>>,
    upstream: String,
    client: reqwest::Client,
}

fn status(code: u16) -> axum::response::Response {
    let mut r = axum::response::Response::new(axum::body::Body::from("\"injected\""));
    *r.status_mut() = axum::http::StatusCode::from_u16(code).unwrap();
    r.headers_mut().insert("content-type", "application/json".parse().unwrap());
    r
}

async fn proxy(axum::extract::State(st): axum::extract::State<ProxyState>, req: axum::extract::Request) -> axum::response::Response {
    let (parts, body) = req.into_parts();
    let bytes = match axum::body::to_bytes(body, 64 << 20).await {
        Ok(b) => b,
        Err(_) => return status(400),
    };
    let path = parts.uri.path().to_string();
    let mut sig_msg: Option<RegisterSignatureMessageHttp> = None;
    {
        let mut f = st.faults.lock().unwrap();
        if f.down {
            return status(500);
        }
        if path == "/register-signer" {
            let m: RegisterSignerMessage = match serde_json::from_slice(&bytes) {
                Ok(m) => m,
                Err(_) => return status(400),
            };
            let verdict = if f.round_closed {
                Some(550)
            } else if f.reg_fail {
                Some(500)
            } else if f.reg_drop {
                Some(201)
            } else {
                None
            };
            st.log.lock().unwrap().posts.push(PostRec {
                rec_epoch: m.epoch.0,
                vk: m.verification_key_for_concatenation.clone(),
                delivered: verdict.is_none(),
            });
            if let Some(code) = verdict {
                return status(code);
            }
        }
        if path == "/register-signatures" {
            st.log.lock().unwrap().pub_attempts += 1;
            if f.pub_fail > 0 {
                f.pub_fail -= 1;
                return status(500);
            }
            sig_msg = serde_json::from_slice(&bytes).ok();
            if sig_msg.is_none() {
                return status(400);
            }
        }
    }
    let url = format!("{}{}", st.upstream.trim_end_matches('/'), parts.uri.path_and_query().map(|p| p.as_str()).unwrap_or("/"));
    let mut rb = st.client.request(parts.method.clone(), url);
    for (k, v) in parts.headers.iter() {
        let n = k.as_str();
        if n != "host" && n != "content-length" {
            rb = rb.header(k, v);
        }
    }
    let resp = match rb.body(bytes.to_vec()).send().await {
        Ok(r) => r,
        Err(_) => return status(502),
    };
    let code = resp.status();
    let headers = resp.headers().clone();
    let body = resp.bytes().await.unwrap_or_default();
    if let Some(m) = sig_msg {
        if code.is_success() {
            st.log.lock().unwrap().pubs.push(m);
        }
    }
    let mut r = axum::response::Response::new(axum::body::Body::from(body));
    *r.status_mut() = code;
    for (k, v) in headers.iter() {
        let n = k.as_str();
        if n != "content-length" && n != "transfer-encoding" && n != "connection" {
            r.headers_mut().insert(k.clone(), v.clone());
        }
    }
    r
}

// ------------------------------------------------------------------------------------------- fault-injecting store decorator

struct FaultyBeaconStore {
    inner: Arc<SignedBeaconRepository>,
    mark_fail: Arc<AtomicU64>,
    mark_failed: Arc<AtomicU64>,
}

#[async_trait]
impl SignedBeaconStore for FaultyBeaconStore {
    async fn filter_out_already_signed_entities(&self, entities: Vec<SignedEntityType>) -> StdResult<Vec<SignedEntityType>> {
        self.inner.filter_out_already_signed_entities(entities).await
    }
    async fn mark_beacon_as_signed(&self, entity: &BeaconToSign) -> StdResult<()> {
        if self.mark_fail.load(Ordering::SeqCst) > 0 {
            self.mark_fail.fetch_sub(1, Ordering::SeqCst);
            self.mark_failed.fetch_add(1, Ordering::SeqCst);
            anyhow::bail!("injected: signed beacon store unavailable");
        }
        self.inner.mark_beacon_as_signed(entity).await
    }
}

// ------------------------------------------------------------------------------------------- world

const N_PARTIES: usize = 5;

fn stake_of(party: usize, version: u64) -> u64 {
    (party as u64 + 1) * 1000 + version * 7 * (party as u64 % 3 + 1)
}
fn version_of_own_stake(stake: u64) -> u64 {
    (stake - 1000) / 7
}

struct Fixture {
    signers: Vec<SignerWithStake>, // base fixture signers (party 0 = the signer under test's party id)
}

struct World {
    dir: PathBuf,
    chain: Arc<FakeChainObserver>,
    imm: Arc<DumbImmutableFileObserver>,
    ticker: Arc<MithrilTickerService>,
    agg_chain: Arc<FakeChainObserver>,
    fake_agg: Arc<FakeAggregatorHttpServer>,
    proxy_url: String,
    proxy_task: tokio::task::JoinHandle<()>,
    faults: Arc<Mutex<Faults>>,
    plog: Arc<Mutex<ProxyLog>>,
    mark_fail: Arc<AtomicU64>,
    mark_failed: Arc<AtomicU64>,
    party_id: String,
    params: ProtocolParameters,
    params_switch: Option<(u64, ProtocolParameters)>,
    attempts: u8,
    retention: Option<usize>,
    base: Vec<SignerWithStake>,
}

struct Incarnation {
    sm: Arc<StateMachine>,
    conn: Arc<SqliteConnection>,
    ini_store: Arc<ProtocolInitializerRepository>,
}

fn signers_with_version(base: &[SignerWithStake], v: u64) -> Vec<SignerWithStake> {
    base.iter()
        .enumerate()
        .map(|(i, s)| {
            let mut s = s.clone();
            s.stake = stake_of(i, v);
            s
        })
        .collect()
}

impl World {
    /// protocol parameters in force at epoch `e`
    fn params_at(&self, e: u64) -> ProtocolParameters {
        match &self.params_switch { Some((s, other)) if e >= *s => other.clone(), _ => self.params.clone() }
    }
}

impl World {
    async fn new(name: &str, fx: &Fixture, e0: u64, imm0: u64, sv0: u64, params: ProtocolParameters, params_switch: Option<(u64, ProtocolParameters)>, attempts: u8,
                 retention: Option<usize>, cfg: &[(u64, Vec<SignedEntityTypeDiscriminants>)]) -> World {
        let dir = mithril_common::test::TempDir::create("c20", &format!("{}-{}", name, std::process::id()));
        let tp = |e: u64| TimePoint {
            epoch: Epoch(e),
            immutable_file_number: imm0,
            chain_point: ChainPoint { slot_number: SlotNumber(100), block_number: BlockNumber(100), block_hash: "block_hash-100".to_string() },
        };
        let chain = Arc::new(FakeChainObserver::new(Some(tp(e0))));
        chain.set_signers(signers_with_version(&fx.signers, sv0)).await;
        let imm = Arc::new(DumbImmutableFileObserver::new());
        imm.shall_return(Some(imm0)).await;
        let ticker = Arc::new(MithrilTickerService::new(chain.clone(), imm.clone()));

        let agg_chain = Arc::new(FakeChainObserver::new(Some(tp(e0))));
        let agg_imm = Arc::new(DumbImmutableFileObserver::new());
        agg_imm.shall_return(Some(imm0)).await;
        let agg_ticker = Arc::new(MithrilTickerService::new(agg_chain.clone(), agg_imm));
        let fake_agg = Arc::new(
            FakeAggregatorHttpServer::spawn(agg_ticker, Arc::new(FakeMithrilNetworkConfigurationProviderWithEpochMarkers::default()), logger())
                .expect("fake aggregator"),
        );
        fake_agg.release_epoch_settings().await;
        // the markers of the entity types, plus one where the protocol parameters change
        let params_of = |e: u64| match &params_switch { Some((s, other)) if e >= *s => other.clone(), _ => params.clone() };
        let mut markers: Vec<(u64, Vec<SignedEntityTypeDiscriminants>)> = cfg.to_vec();
        if let Some((s, _)) = &params_switch {
            if !markers.iter().any(|(e, _)| e == s) {
                let ds = markers.iter().filter(|(e, _)| e <= s).max_by_key(|(e, _)| *e).map(|(_, d)| d.clone()).unwrap_or_else(|| markers[0].1.clone());
                markers.push((*s, ds));
                markers.sort_by_key(|(e, _)| *e);
            }
        }
        for (e, ds) in &markers {
            fake_agg
                .set_network_configuration_marker(
                    Epoch(*e),
                    MithrilNetworkConfigurationForEpoch {
                        protocol_parameters: params_of(*e),
                        enabled_signed_entity_types: ds.iter().cloned().collect::<BTreeSet<_>>(),
                        signed_entity_types_config: SignedEntityTypeConfiguration { cardano_transactions: None, cardano_blocks_transactions: None },
                    },
                )
                .await;
        }

        let faults = Arc::new(Mutex::new(Faults::default()));
        let plog = Arc::new(Mutex::new(ProxyLog::default()));
        let st = ProxyState { faults: faults.clone(), log: plog.clone(), upstream: fake_agg.url().to_string(), client: reqwest::Client::new() };
        let listener = tokio::net::TcpListener::bind("127.0.0.1:0").await.expect("bind proxy");
        let addr = listener.local_addr().unwrap();
        let app = axum::Router::new().fallback(proxy).with_state(st);
        let proxy_task = tokio::spawn(async move {
            let _ = axum::serve(listener, app).await;
        });
        World {
            dir,
            chain,
            imm,
            ticker,
            agg_chain,
            fake_agg,
            proxy_url: format!("http://{}/", addr),
            proxy_task,
            faults,
            plog,
            mark_fail: Arc::new(AtomicU64::new(0)),
            mark_failed: Arc::new(AtomicU64::new(0)),
            party_id: fx.signers[0].party_id.clone(),
            params,
            params_switch,
            attempts,
            retention,
            base: fx.signers.clone(),
        }
    }

    /// build every service of the signer from scratch on the database files of this world (start or restart)
    async fn start_signer(&self) -> Incarnation {
        let mut config = Configuration {
            db_directory: self.dir.join("db"),
            data_stores_directory: self.dir.join("stores"),
            store_retention_limit: self.retention,
            ..Configuration::new_sample(&self.party_id)
        };
        // private copies of the fixture's KES key and operational certificate (the shared directory may be
        // rewritten by another harness process building the same fixture)
        let keys = self.dir.join("keys");
        if !keys.exists() {
            std::fs::create_dir_all(&keys).expect("keys dir");
            for (src, name) in [(&config.kes_secret_key_path, "kes.sk"), (&config.operational_certificate_path, "opcert.cert")] {
                std::fs::copy(src.as_ref().expect("fixture key material"), keys.join(name)).expect("copy key material");
            }
        }
        config.kes_secret_key_path = Some(keys.join("kes.sk"));
        config.operational_certificate_path = Some(keys.join("opcert.cert"));
        let logger = logger();
        let dependencies_builder = DependenciesBuilder::new(&config, logger.clone());
        let sqlite_connection = Arc::new(dependencies_builder.build_main_sqlite_connection("signer.db").await.expect("main db"));
        let sqlite_connection_cardano_transaction_pool =
            dependencies_builder.build_cardano_tx_sqlite_connection_pool("cardano_tx.db", 1).await.map(Arc::new).expect("tx db");
        let retention = config.store_retention_limit.map(|l| l as u64);

        let chain_observer = self.chain.clone();
        let ticker_service = self.ticker.clone();
        let digester = Arc::new(DumbImmutableDigester::default().with_digest("DIGEST"));
        let protocol_initializer_store = Arc::new(ProtocolInitializerRepository::new(sqlite_connection.clone(), retention));
        let stake_store = Arc::new(StakePoolStore::new(sqlite_connection.clone(), retention));
        let era_reader_adapter = Arc::new(EraReaderDummyAdapter::from_markers(vec![EraMarker {
            name: SupportedEra::dummy().to_string(),
            epoch: Some(Epoch(0)),
        }]));
        let era_reader = Arc::new(EraReader::new(era_reader_adapter.clone()));
        let era_epoch_token = era_reader.read_era_epoch_token(ticker_service.get_current_epoch().await.unwrap()).await.unwrap();
        let era_checker = Arc::new(EraChecker::new(era_epoch_token.get_current_supported_era().unwrap(), era_epoch_token.get_current_epoch()));
        let api_version_provider = Arc::new(APIVersionProvider::new(era_checker.clone()));

        let mithril_stake_distribution_signable_builder = Arc::new(MithrilStakeDistributionSignableBuilder::default());
        let block_scanner = Arc::new(DumbBlockScanner::new());
        let chain_data_store = Arc::new(SignerCardanoChainDataRepository::new(sqlite_connection_cardano_transaction_pool.clone()));
        let transactions_importer = Arc::new(SignerChainDataImporter::new(Arc::new(CardanoChainDataImporter::new(
            block_scanner.clone(),
            chain_data_store.clone(),
            logger.clone(),
        ))));
        let block_range_root_retriever = chain_data_store.clone();
        let cardano_transactions_builder =
            Arc::new(CardanoTransactionsSignableBuilder::<MKTreeStoreSqlite>::new(transactions_importer.clone(), block_range_root_retriever.clone()));
        let cardano_blocks_transactions_builder =
            Arc::new(CardanoBlocksTransactionsSignableBuilder::<MKTreeStoreSqlite>::new(transactions_importer.clone(), block_range_root_retriever));
        let cardano_stake_distribution_builder = Arc::new(CardanoStakeDistributionSignableBuilder::new(stake_store.clone()));
        let cardano_database_signable_builder = Arc::new(CardanoDatabaseSignableBuilder::new(digester.clone(), Path::new(""), logger.clone()));
        let epoch_service = Arc::new(tokio::sync::RwLock::new(MithrilEpochService::new(
            era_checker.clone(),
            stake_store.clone(),
            protocol_initializer_store.clone(),
            logger.clone(),
        )));
        let single_signer = Arc::new(MithrilSingleSigner::new(config.party_id.to_owned().unwrap_or_default(), epoch_service.clone(), logger.clone()));
        let signable_seed_builder_service = Arc::new(SignerSignableSeedBuilder::new(epoch_service.clone(), protocol_initializer_store.clone()));
        let signable_builders_dependencies = SignableBuilderServiceDependencies::new(
            mithril_stake_distribution_signable_builder,
            cardano_transactions_builder,
            cardano_blocks_transactions_builder,
            cardano_stake_distribution_builder,
            cardano_database_signable_builder,
        );
        let signable_builder_service =
            Arc::new(MithrilSignableBuilderService::new(signable_seed_builder_service, signable_builders_dependencies, logger.clone()));
        let metrics_service = Arc::new(MetricsService::new(logger.clone()).unwrap());
        let signed_entity_type_lock = Arc::new(SignedEntityTypeLock::default());
        let cardano_transactions_preloader = Arc::new(CardanoTransactionsPreloader::new(
            signed_entity_type_lock.clone(),
            transactions_importer.clone(),
            BlockNumber(0),
            chain_observer.clone(),
            logger.clone(),
            Arc::new(CardanoTransactionsPreloaderActivation::new(true)),
        ));
        let signed_beacon_repository = Arc::new(SignedBeaconRepository::new(sqlite_connection.clone(), retention));
        // pruning tasks as in the production dependency builder
        let upkeep_service = Arc::new(SignerUpkeepService::new(
            sqlite_connection.clone(),
            sqlite_connection_cardano_transaction_pool,
            signed_entity_type_lock.clone(),
            vec![
                signed_beacon_repository.clone() as Arc<dyn EpochPruningTask>,
                stake_store.clone() as Arc<dyn EpochPruningTask>,
                protocol_initializer_store.clone() as Arc<dyn EpochPruningTask>,
            ],
            logger.clone(),
        ));
        let aggregator_client = AggregatorHttpClient::builder(self.proxy_url.clone()).with_logger(logger.clone()).build().map(Arc::new).expect("client");
        let network_configuration_service = Arc::new(HttpMithrilNetworkConfigurationProvider::new(aggregator_client.clone(), logger.clone()));
        // publisher wiring as in the production dependency builder (no DMQ): delayer(retrier(noop), retrier(http))
        let signature_publisher: Arc<dyn SignaturePublisher> = Arc::new(SignaturePublisherDelayer::new(
            Arc::new(SignaturePublisherRetrier::new(Arc::new(SignaturePublisherNoop), SignaturePublishRetryPolicy::never())),
            Arc::new(SignaturePublisherRetrier::new(
                aggregator_client.clone(),
                SignaturePublishRetryPolicy { attempts: self.attempts, delay_between_attempts: Duration::from_millis(1) },
            )),
            Duration::from_millis(1),
            logger.clone(),
        ));
        let beacon_store = Arc::new(FaultyBeaconStore {
            inner: signed_beacon_repository.clone(),
            mark_fail: self.mark_fail.clone(),
            mark_failed: self.mark_failed.clone(),
        });
        let certifier = Arc::new(SignerCertifierService::new(
            beacon_store,
            Arc::new(SignerSignedEntityConfigProvider::new(epoch_service.clone())),
            signed_entity_type_lock.clone(),
            single_signer.clone(),
            signature_publisher,
            logger.clone(),
        ));
        let kes_signer = Some(Arc::new(KesSignerStandard::new(
            config.kes_secret_key_path.clone().expect("kes key of the fixture"),
            config.operational_certificate_path.clone().expect("opcert of the fixture"),
        )) as Arc<dyn KesSigner>);

        let services = SignerDependencyContainer {
            signers_registration_retriever: aggregator_client.clone(),
            ticker_service: ticker_service.clone(),
            chain_observer: chain_observer.clone(),
            digester: digester.clone(),
            protocol_initializer_store: protocol_initializer_store.clone(),
            single_signer: single_signer.clone(),
            stake_store: stake_store.clone(),
            era_checker: era_checker.clone(),
            era_reader,
            api_version_provider,
            signable_builder_service,
            metrics_service: metrics_service.clone(),
            signed_entity_type_lock: Arc::new(SignedEntityTypeLock::default()),
            cardano_transactions_preloader,
            upkeep_service,
            epoch_service,
            certifier,
            signer_registration_publisher: aggregator_client.clone(),
            kes_signer,
            network_configuration_service,
        };
        let runner = Box::new(SignerRunner::new(config, services, logger.clone()));
        let sm = Arc::new(StateMachine::new(SignerState::Init, runner, Duration::from_secs(5), metrics_service, logger));
        Incarnation { sm, conn: sqlite_connection, ini_store: protocol_initializer_store }
    }
}

impl Drop for World {
    fn drop(&mut self) {
        self.proxy_task.abort();
        let _ = std::fs::remove_dir_all(&self.dir);
    }
}

// ------------------------------------------------------------------------------------------- events

#[derive(Clone, Debug)]
enum Ev {
    Tick,
    Restart,
    EpochUp(u64),
    AggEpochUp,
    ImmUp(u64),
    RegOthers(Vec<usize>), // parties (0 = impostor registration under the signer's party id with the fixture key)
    Down(bool),
    RoundClosed(bool),
    RegFail(bool),
    RegDrop(bool),
    PubFail(u64),
    MarkFail(u64),
}

fn disc_letter(d: &SignedEntityTypeDiscriminants) -> &'static str {
    match d {
        SignedEntityTypeDiscriminants::MithrilStakeDistribution => "m",
        SignedEntityTypeDiscriminants::CardanoStakeDistribution => "c",
        SignedEntityTypeDiscriminants::CardanoDatabase => "d",
        _ => "x",
    }
}

fn show_entity(e: &SignedEntityType) -> String {
    match e {
        SignedEntityType::MithrilStakeDistribution(ep) => format!("m{}", ep.0),
        SignedEntityType::CardanoStakeDistribution(ep) => format!("c{}", ep.0),
        SignedEntityType::CardanoDatabase(b) => format!("d{}.{}", b.epoch.0, b.immutable_file_number),
        other => format!("x{:?}", other).replace([' ', ',', '(', ')', '[', ']'], "_"),
    }
}

struct RunCfg {
    e0: u64,
    imm0: u64,
    sv0: u64,
    cfg: Vec<(u64, Vec<SignedEntityTypeDiscriminants>)>,
    attempts: u8,
    retention: Option<usize>,
    params: ProtocolParameters,
    /// from this epoch on the network runs with these other protocol parameters (a parameter update)
    params_switch: Option<(u64, ProtocolParameters)>,
}

/// everything observed in one run
struct RunOut {
    req: String,
    imp: String,
    sfails: Vec<(String, String)>,
    n_pubs: usize,
    n_posts: usize,
    n_lost: usize,
    n_restarts: usize,
    n_mark_failed: u64,
    epochs: u64,
    n_events: usize,
    states: BTreeSet<String>,
    results: BTreeMap<String, u64>,
}

/// the harness's own bookkeeping of the environment (used by the generator and by S, never by K)
struct Book {
    epoch: u64,
    agg_epoch: u64,
    imm: u64,
    stake_ver: u64,
    stake_ver_of_epoch: BTreeMap<u64, u64>,
    registered_others: BTreeMap<u64, BTreeSet<usize>>, // recording epoch -> parties registered by the harness
    key_ids: HashMap<String, u64>,
    next_key: u64,
    faults: Faults,
    mark_fail: u64,
    dropped_recs: BTreeSet<u64>,   // recording epochs for which the signer's registration was silently dropped
    impostor_recs: BTreeSet<u64>,  // recording epochs with a registration of another key under the signer's party id
}

struct Runner<'a> {
    w: &'a World,
    inc: Option<Incarnation>,
    book: Book,
    evs: Vec<String>,
    obs: Vec<String>,
    seen_posts: usize,
    seen_pubs: usize,
    out: RunOut,
    /// entity -> (event index of the previous publication, mark failed right after it)
    published: HashMap<String, (usize, bool)>,
    prev_beacons: Vec<String>,
    prev_tables: String,
    cfg: &'a RunCfg,
}

impl<'a> Runner<'a> {
    fn key_id(&mut self, vk: &str) -> u64 {
        if let Some(k) = self.book.key_ids.get(vk) {
            return *k;
        }
        let k = self.book.next_key;
        self.book.next_key += 1;
        self.book.key_ids.insert(vk.to_string(), k);
        k
    }

    async fn apply(&mut self, ev: &Ev) {
        let w = self.w;
        let mut res = "-".to_string();
        let mut lost_now = false;
        let mark_failed_before = w.mark_failed.load(Ordering::SeqCst);
        let ev_text = match ev {
            Ev::Tick => {
                LOST.store(false, Ordering::SeqCst);
                // the cycle runs in its own task so that a panic of the signer is an outcome, not the end of the harness
                let sm = self.inc.as_ref().unwrap().sm.clone();
                let r = tokio::spawn(async move { sm.cycle().await }).await;
                res = match r {
                    Ok(Ok(())) => "ok".to_string(),
                    Ok(Err(e @ RuntimeError::KeepState { .. })) => {
                        if VERBOSE.load(Ordering::Relaxed) {
                            eprintln!("keep-state: {:?}", e);
                        }
                        "keep".to_string()
                    }
                    Ok(Err(RuntimeError::Critical { .. })) => "crit".to_string(),
                    Err(_) => {
                        let n = self.evs.len();
                        self.sfail("panic", format!("event {n}: the signer's cycle panicked"));
                        "panic".to_string()
                    }
                };
                let lost = LOST.swap(false, Ordering::SeqCst);
                if lost {
                    self.out.n_lost += 1;
                }
                lost_now = lost;
                // the proxy consumed part of the failure budget
                self.book.faults.pub_fail = w.faults.lock().unwrap().pub_fail;
                self.book.mark_fail = w.mark_fail.load(Ordering::SeqCst);
                format!("(t,{})", lost as u8)
            }
            Ev::Restart => {
                self.inc = None; // drops the state machine, every service and the sqlite connections
                self.inc = Some(w.start_signer().await);
                self.out.n_restarts += 1;
                "(rs)".to_string()
            }
            Ev::EpochUp(v) => {
                let e = w.chain.next_epoch().await.expect("epoch");
                w.chain.set_signers(signers_with_version(&w.base, *v)).await;
                self.book.epoch = e.0;
                self.book.stake_ver = *v;
                self.book.stake_ver_of_epoch.insert(e.0, *v);
                format!("(eu,{})", v)
            }
            Ev::AggEpochUp => {
                let e = w.agg_chain.next_epoch().await.expect("epoch");
                self.book.agg_epoch = e.0;
                "(au)".to_string()
            }
            Ev::ImmUp(n) => {
                self.book.imm += n;
                w.imm.shall_return(Some(self.book.imm)).await;
                format!("(iu,{})", n)
            }
            Ev::RegOthers(ps) => {
                let rec = self.book.agg_epoch + 1;
                let mut items = vec![];
                for p in ps {
                    let signer: mithril_common::entities::Signer = w.base[*p].clone().into();
                    let part: SignerMessagePart = signer.into();
                    w.fake_agg.register_signer(Epoch(rec), part).await;
                    self.book.registered_others.entry(rec).or_default().insert(*p);
                    if *p == 0 {
                        self.book.impostor_recs.insert(rec);
                    }
                    items.push(format!("({},{})", p, 1000 + p));
                }
                format!("(ro,[{}])", items.join(","))
            }
            Ev::Down(b) => {
                w.faults.lock().unwrap().down = *b;
                self.book.faults.down = *b;
                format!("(dn,{})", *b as u8)
            }
            Ev::RoundClosed(b) => {
                w.faults.lock().unwrap().round_closed = *b;
                self.book.faults.round_closed = *b;
                format!("(rc,{})", *b as u8)
            }
            Ev::RegFail(b) => {
                w.faults.lock().unwrap().reg_fail = *b;
                self.book.faults.reg_fail = *b;
                format!("(rf,{})", *b as u8)
            }
            Ev::RegDrop(b) => {
                w.faults.lock().unwrap().reg_drop = *b;
                self.book.faults.reg_drop = *b;
                format!("(rd,{})", *b as u8)
            }
            Ev::PubFail(n) => {
                w.faults.lock().unwrap().pub_fail = *n;
                self.book.faults.pub_fail = *n;
                format!("(pf,{})", n)
            }
            Ev::MarkFail(n) => {
                w.mark_fail.store(*n, Ordering::SeqCst);
                self.book.mark_fail = *n;
                format!("(mf,{})", n)
            }
        };
        let idx = self.evs.len();
        self.evs.push(ev_text);
        *self.out.results.entry(res.clone()).or_insert(0) += 1;
        let mark_failed_now = w.mark_failed.load(Ordering::SeqCst) > mark_failed_before;

        // ---- observation
        let (posts, pubs): (Vec<PostRec>, Vec<RegisterSignatureMessageHttp>) = {
            let l = w.plog.lock().unwrap();
            (l.posts[self.seen_posts..].to_vec(), l.pubs[self.seen_pubs..].to_vec())
        };
        self.seen_posts += posts.len();
        self.seen_pubs += pubs.len();
        let post_keys: Vec<u64> = posts.iter().map(|p| self.key_id(&p.vk)).collect();
        for p in posts.iter() {
            if !p.delivered && self.book.faults.reg_drop && !self.book.faults.round_closed && !self.book.faults.reg_fail {
                self.book.dropped_recs.insert(p.rec_epoch);
            }
        }
        let inc = self.inc.as_ref().unwrap();
        let label = match inc.sm.get_state().await {
            SignerState::Init => "I".to_string(),
            SignerState::Unregistered { epoch } => format!("U{}", epoch.0),
            SignerState::ReadyToSign { epoch } => format!("R{}", epoch.0),
            SignerState::RegisteredNotAbleToSign { epoch } => format!("N{}", epoch.0),
        };
        self.out.states.insert(label.chars().next().unwrap().to_string());
        let mut o = String::new();
        let _ = write!(o, "{}/{}/r[", label, res);
        for (i, p) in posts.iter().enumerate() {
            let _ = write!(o, "{}({},{},{})", if i > 0 { "," } else { "" }, p.rec_epoch, post_keys[i], p.delivered as u8);
        }
        o.push_str("]/p[");
        for (i, m) in pubs.iter().enumerate() {
            let e = match &m.signed_entity_type {
                SignedEntityTypeMessage::Known(e) => show_entity(e),
                _ => "unknown".to_string(),
            };
            let _ = write!(o, "{}{}", if i > 0 { "," } else { "" }, e);
        }
        o.push_str("]/i[");
        // protocol_initializer table through the store API, mapped to key numbers
        let inis = inc.ini_store.get_last_protocol_initializer(10_000).await.unwrap_or_default();
        let mut ini_pairs: Vec<(u64, u64)> = vec![];
        for (e, pi) in inis.iter() {
            let vk: ProtocolSignerVerificationKeyForConcatenation = pi.verification_key_for_concatenation().into();
            let k = vk.to_json_hex().ok().and_then(|h| self.book.key_ids.get(&h).cloned()).unwrap_or(9999);
            ini_pairs.push((e.0, k));
        }
        ini_pairs.sort();
        o.push_str(&ini_pairs.iter().map(|(e, k)| format!("({},{})", e, k)).collect::<Vec<_>>().join(","));
        o.push_str("]/s[");
        let mut stake_pairs: Vec<(u64, u64)> = vec![];
        {
            let mut st = inc.conn.prepare("select epoch, stake from stake_pool where stake_pool_id = ? order by epoch").unwrap();
            st.bind((1, w.party_id.as_str())).unwrap();
            while let Ok(sqlite::State::Row) = st.next() {
                let e: i64 = st.read(0).unwrap();
                let s: i64 = st.read(1).unwrap();
                stake_pairs.push((e as u64, version_of_own_stake(s as u64)));
            }
        }
        stake_pairs.sort();
        o.push_str(&stake_pairs.iter().map(|(e, k)| format!("({},{})", e, k)).collect::<Vec<_>>().join(","));
        let mut beacons: Vec<String> = vec![];
        {
            let mut st = inc.conn.prepare("select epoch, signed_entity_type_id, beacon from signed_beacon order by rowid").unwrap();
            while let Ok(sqlite::State::Row) = st.next() {
                let e: i64 = st.read(0).unwrap();
                let t: i64 = st.read(1).unwrap();
                let b: String = st.read(2).unwrap();
                let ent = match t {
                    0 => format!("m{}", b.trim()),
                    1 => format!("c{}", b.trim()),
                    4 => {
                        let v: serde_json::Value = serde_json::from_str(&b).unwrap_or_default();
                        format!("d{}.{}", v["epoch"], v["immutable_file_number"])
                    }
                    _ => format!("x{}", t),
                };
                beacons.push(format!("{}:{}", e, ent));
            }
        }
        let _ = write!(o, "]/b{}", beacons.len());
        self.obs.push(o);
        self.obs.push(beacons.join(",")); // kept aside; only the last one is printed
        let beacons = beacons;

        // ---- S: the property evaluated on what the real signer did
        for m in pubs.iter() {
            self.out.n_pubs += 1;
            self.check_publication(idx, m, mark_failed_now).await;
        }
        self.out.n_posts += posts.len();
        // a beacon is marked as signed only once its signature reached the aggregator (or no lottery was won)
        let new_rows: Vec<String> = beacons.iter().filter(|b| !self.prev_beacons.contains(*b)).cloned().collect();
        for row in new_rows {
            let ent = row.split(':').nth(1).unwrap_or("").to_string();
            if !self.published.contains_key(&ent) && !lost_now {
                self.sfail("marked-without-publication", format!("event {idx}: {ent} is marked as signed but the aggregator never received its signature"));
            }
        }
        self.prev_beacons = beacons;
        // a restart keeps the three tables
        let tables = self.obs[self.obs.len() - 2].splitn(5, '/').nth(4).unwrap_or("").to_string() + "|" + &self.obs[self.obs.len() - 1];
        if matches!(ev, Ev::Restart) && idx > 0 && tables != self.prev_tables {
            self.sfail("state-lost-on-restart", format!("event {idx}: tables before the restart {} and after it {}", self.prev_tables, tables));
        }
        self.prev_tables = tables;
    }

    fn sfail(&mut self, class: &str, what: String) {
        self.out.sfails.push((class.to_string(), what));
    }

    /// the signer set an aggregator derives for signing epoch `t` from the registrations it received, under the protocol's
    /// offsets: recorded under `t + RETRIEVAL(-1)`, i.e. sent during `t - 2`, with the stake distribution of epoch `t - 2`
    async fn reference_signers(&self, list_epoch: u64, stake_epoch: u64) -> Result<Vec<SignerWithStake>, String> {
        let parts = self.w.fake_agg.get_registered_signers(&Epoch(list_epoch)).await.unwrap_or_default();
        let signers = SignerMessagePart::try_into_signers(parts).map_err(|e| format!("registrations do not decode: {e}"))?;
        let ver = *self.book.stake_ver_of_epoch.get(&stake_epoch).ok_or(format!("no stake distribution known for epoch {stake_epoch}"))?;
        let mut out = vec![];
        for s in signers {
            let party = self.w.base.iter().position(|b| b.party_id == s.party_id).ok_or("unknown party")?;
            out.push(SignerWithStake::from_signer(s, stake_of(party, ver)));
        }
        Ok(out)
    }

    async fn check_publication(&mut self, idx: usize, m: &RegisterSignatureMessageHttp, mark_failed_now: bool) {
        let entity = match &m.signed_entity_type {
            SignedEntityTypeMessage::Known(e) => e.clone(),
            _ => {
                self.sfail("unknown-entity", format!("event {idx}: unknown signed entity type published"));
                return;
            }
        };
        let name = show_entity(&entity);
        let t = self.book.epoch;
        // (1) at most one signature per signed entity and beacon
        if let Some((prev_idx, prev_mark_failed)) = self.published.get(&name).cloned() {
            if prev_mark_failed {
                self.sfail(
                    "republish-after-mark-failure",
                    format!("event {idx}: {name} published again; the previous publication (event {prev_idx}) was followed by a failed mark_beacon_as_signed"),
                );
            } else {
                self.sfail("republish", format!("event {idx}: {name} published twice (first at event {prev_idx})"));
            }
        }
        self.published.insert(name.clone(), (idx, mark_failed_now));
        // the entity belongs to the current epoch
        if entity.get_epoch_when_signed_entity_type_is_signed().0 != t {
            self.sfail("wrong-epoch-entity", format!("event {idx}: {name} published while the chain is at epoch {t}"));
        }
        if m.party_id != self.w.party_id {
            self.sfail("wrong-party", format!("event {idx}: signature published for party {}", m.party_id));
        }
        // (3) a registration of this signer, eligible for the current epoch, exists: sent two epochs ago for recording epoch t-1
        let own_vk: Option<String> = {
            let l = self.w.plog.lock().unwrap();
            l.posts.iter().rev().find(|p| p.delivered && p.rec_epoch + 1 == t).map(|p| p.vk.clone())
        };
        if own_vk.is_none() {
            self.sfail("unregistered-publish", format!("event {idx}: {name} published at epoch {t} but no registration was delivered for recording epoch {}", t.saturating_sub(1)));
        }
        // (2) accepted by an aggregator that derived its signer set from the same registrations under the offsets
        if t < 2 {
            self.sfail("unregistered-publish", format!("event {idx}: publication at epoch {t} < 2"));
            return;
        }
        let cur = match self.reference_signers(t - 1, t - 2).await {
            Ok(v) if !v.is_empty() => v,
            Ok(_) => {
                self.sfail("rejected", format!("event {idx}: {name}: the aggregator has no signer registered for epoch {t}"));
                return;
            }
            Err(e) => {
                self.sfail("rejected", format!("event {idx}: {name}: {e}"));
                return;
            }
        };
        if let Some(vk) = &own_vk {
            let listed = cur.iter().any(|s| s.party_id == self.w.party_id && s.verification_key_for_concatenation.to_json_hex().ok().as_ref() == Some(vk));
            if !listed {
                self.sfail("wrong-key", format!("event {idx}: {name}: the key registered two epochs earlier is not in the aggregator's signer set for epoch {t}"));
            }
        }
        let signature = match m.signature.clone().try_into() {
            Ok(s) => SingleSignature {
                party_id: m.party_id.clone(),
                signature: s,
                won_indexes: m.won_indexes.clone(),
                authentication_status: SingleSignatureAuthenticationStatus::Unauthenticated,
            },
            Err(_) => {
                self.sfail("rejected", format!("event {idx}: {name}: signature does not decode"));
                return;
            }
        };
        // (markers are indexed by recording epoch: the parameters in force at signing epoch t are those of the marker of t - 1)
        let builder = match SignerBuilder::new(&cur, &self.w.params_at(t - 1)) {
            Ok(b) => b,
            Err(e) => {
                self.sfail("rejected", format!("event {idx}: {name}: key registration of the aggregator's signer set fails: {e:#}"));
                return;
            }
        };
        let multi_signer = builder.build_multi_signer();
        if let Err(e) = multi_signer.verify_single_signature(&m.signed_message, &signature) {
            self.sfail("rejected", format!("event {idx}: {name} at epoch {t}: MultiSigner built from the registrations of epoch {} rejects the signature: {e:#}", t - 2));
        }
        // the signed message is the one the aggregator computes for this entity
        match self.reference_message(&entity, t).await {
            Ok(pm) => {
                if pm.compute_hash() != m.signed_message {
                    self.sfail("wrong-message", format!("event {idx}: {name} at epoch {t}: signed message differs from the aggregator's protocol message {:?}", pm));
                }
            }
            Err(e) => self.sfail("wrong-message", format!("event {idx}: {name}: reference message cannot be computed: {e}")),
        }
    }

    /// protocol message an aggregator at epoch `t` computes: entity part + next AVK (registrations recorded under `t`,
    /// stake distribution of epoch `t - 1`) + next protocol parameters + current epoch
    async fn reference_message(&self, entity: &SignedEntityType, t: u64) -> Result<ProtocolMessage, String> {
        let mut pm = match entity {
            SignedEntityType::MithrilStakeDistribution(e) => {
                MithrilStakeDistributionSignableBuilder::default().compute_protocol_message(*e).await.map_err(|e| format!("{e:#}"))?
            }
            SignedEntityType::CardanoStakeDistribution(e) => {
                struct Fixed(StakeDistribution);
                #[async_trait]
                impl StakeDistributionRetriever for Fixed {
                    async fn retrieve(&self, _epoch: Epoch) -> StdResult<Option<StakeDistribution>> {
                        Ok(Some(self.0.clone()))
                    }
                }
                // CardanoStakeDistribution(t-1) = the distribution the node reports during epoch t
                let ver = *self.book.stake_ver_of_epoch.get(&t).ok_or("no stake version")?;
                let dist: StakeDistribution = self.w.base.iter().enumerate().map(|(i, s)| (s.party_id.clone(), stake_of(i, ver))).collect();
                CardanoStakeDistributionSignableBuilder::new(Arc::new(Fixed(dist))).compute_protocol_message(*e).await.map_err(|e| format!("{e:#}"))?
            }
            SignedEntityType::CardanoDatabase(b) => {
                let digester = Arc::new(DumbImmutableDigester::default().with_digest("DIGEST"));
                CardanoDatabaseSignableBuilder::new(digester, Path::new(""), logger()).compute_protocol_message(b.clone()).await.map_err(|e| format!("{e:#}"))?
            }
            _ => return Err("entity type outside the harness".to_string()),
        };
        let next = self.reference_signers(t, t - 1).await?;
        let avk: ProtocolAggregateVerificationKeyForConcatenation = SignerBuilder::new(&next, &self.w.params_at(t))
            .map_err(|e| format!("next signer set: {e:#}"))?
            .compute_aggregate_verification_key()
            .to_concatenation_aggregate_verification_key()
            .to_owned()
            .into();
        pm.set_message_part(ProtocolMessagePartKey::NextAggregateVerificationKey, avk.to_json_hex().map_err(|e| format!("{e:#}"))?);
        pm.set_message_part(ProtocolMessagePartKey::NextProtocolParameters, self.w.params_at(t).compute_hash());
        pm.set_message_part(ProtocolMessagePartKey::CurrentEpoch, t.to_string());
        Ok(pm)
    }
}

// ------------------------------------------------------------------------------------------- generator

struct Gen {
    rng: Rng,
    len: usize,
    epoch_starts: Vec<usize>, // event indices at which an epoch change begins
    faulty: bool,
    mark_faults: bool,
    pending_off: Vec<(usize, Ev)>, // (event index at which to emit, event)
    pending_epoch: Option<(usize, Ev)>,
}

impl Gen {
    /// `n_epochs` epochs over `len` events: mostly long enough to register and sign, now and then a very short one
    fn new(seed: u64, len: usize, n_epochs: u64, faulty: bool, mark_faults: bool) -> Gen {
        let mut rng = Rng::new(seed);
        let n = n_epochs as usize;
        // weights: the first two epochs (registration only) are shorter, one epoch in six is very short
        let mut w: Vec<u64> = (0..n).map(|i| if i < 2 { 2 } else { 4 }).collect();
        for x in w.iter_mut().skip(1) {
            if rng.chance(1, 10) {
                *x = 0;
            } else {
                *x += rng.below(3);
            }
        }
        let tot: u64 = w.iter().sum::<u64>().max(1);
        let mut epoch_starts = vec![];
        let mut at = 0usize;
        for x in w.iter().take(n - 1) {
            at += ((*x as usize * len) / tot as usize).max(1 + rng.below(3) as usize);
            epoch_starts.push(at.min(len.saturating_sub(1)));
        }
        Gen { rng, len, epoch_starts, faulty, mark_faults, pending_off: vec![], pending_epoch: None }
    }

    fn next(&mut self, i: usize, b: &Book) -> Ev {
        // scheduled follow-ups first
        if let Some((at, _)) = &self.pending_epoch {
            if *at <= i {
                return self.pending_epoch.take().unwrap().1;
            }
        }
        if let Some(pos) = self.pending_off.iter().position(|(at, _)| *at <= i) {
            return self.pending_off.remove(pos).1;
        }
        let skew = b.agg_epoch as i64 - b.epoch as i64;
        if self.epoch_starts.first().map(|at| *at <= i).unwrap_or(false) && skew == 0 && self.pending_epoch.is_none() {
            self.epoch_starts.remove(0);
            // epoch change: who sees it first, and how many events later the other follows
            let gap = *self.rng.pick(&[0usize, 0, 0, 0, 1, 2, 4, 7]);
            let v = if self.rng.chance(1, 2) { b.stake_ver + 1 } else { b.stake_ver };
            if self.faulty && self.rng.chance(2, 5) {
                // a registration fault that is in force when the signer tries to register in the new epoch
                let dur = self.rng.range(3, 9) as usize;
                let (on, off) = match self.rng.below(5) {
                    0 => (Ev::Down(true), Ev::Down(false)),
                    1 => (Ev::RoundClosed(true), Ev::RoundClosed(false)),
                    2 => (Ev::RegFail(true), Ev::RegFail(false)),
                    _ => (Ev::RegDrop(true), Ev::RegDrop(false)),
                };
                self.pending_off.push((i + 1, on));
                self.pending_off.push((i + 1 + dur, off));
            }
            if self.rng.chance(2, 3) {
                self.pending_epoch = Some((i + 1 + gap, Ev::AggEpochUp));
                return Ev::EpochUp(v);
            } else {
                self.pending_epoch = Some((i + 1 + gap, Ev::EpochUp(v)));
                return Ev::AggEpochUp;
            }
        }
        // other parties register for the aggregator's recording epoch; a party registers once per epoch
        let rec = b.agg_epoch + 1;
        let done = b.registered_others.get(&rec).cloned().unwrap_or_default();
        let mut cand: Vec<usize> = (1..N_PARTIES).filter(|p| !done.contains(p)).collect();
        // the signer's own registration was dropped: somebody else may register another key under its party id
        if b.dropped_recs.contains(&rec) && !b.impostor_recs.contains(&rec) && self.rng.chance(1, 3) {
            return Ev::RegOthers(vec![0]);
        }
        if !cand.is_empty() && self.rng.chance(if done.is_empty() { 30 } else { 6 }, 100) {
            if !self.rng.chance(2, 3) {
                self.rng.shuffle(&mut cand);
                let n = self.rng.range(1, cand.len() as u64) as usize;
                cand.truncate(n);
                cand.sort();
            }
            return Ev::RegOthers(cand);
        }
        let r = self.rng.below(1000);
        if r < 60 {
            return Ev::ImmUp(self.rng.range(1, 3));
        }
        if r < 85 {
            return Ev::Restart;
        }
        if self.faulty && r < 175 {
            let dur = self.rng.range(1, 4) as usize;
            let k = self.rng.below(if self.mark_faults { 8 } else { 6 });
            match k {
                0 if !b.faults.down => {
                    self.pending_off.push((i + 1 + dur, Ev::Down(false)));
                    return Ev::Down(true);
                }
                1 if !b.faults.round_closed => {
                    self.pending_off.push((i + 1 + dur, Ev::RoundClosed(false)));
                    return Ev::RoundClosed(true);
                }
                2 if !b.faults.reg_fail => {
                    self.pending_off.push((i + 1 + dur, Ev::RegFail(false)));
                    return Ev::RegFail(true);
                }
                3 if !b.faults.reg_drop => {
                    self.pending_off.push((i + 1 + dur * 2, Ev::RegDrop(false)));
                    return Ev::RegDrop(true);
                }
                4 | 5 => return Ev::PubFail(self.rng.range(1, 5)),
                6 | 7 => return Ev::MarkFail(self.rng.range(1, 2)),
                _ => {}
            }
        }
        Ev::Tick
    }
}

async fn run_case(name: &str, fx: &Fixture, cfg: &RunCfg, seed: u64, len: usize, faulty: bool, mark_faults: bool, n_epochs: u64,
                  script: Option<Vec<Ev>>) -> RunOut {
    let w = World::new(name, fx, cfg.e0, cfg.imm0, cfg.sv0, cfg.params.clone(), cfg.params_switch.clone(), cfg.attempts, cfg.retention, &cfg.cfg).await;
    let inc = w.start_signer().await;
    let mut book = Book {
        epoch: cfg.e0,
        agg_epoch: cfg.e0,
        imm: cfg.imm0,
        stake_ver: cfg.sv0,
        stake_ver_of_epoch: BTreeMap::new(),
        registered_others: BTreeMap::new(),
        key_ids: HashMap::new(),
        next_key: 0,
        faults: Faults::default(),
        mark_fail: 0,
        dropped_recs: BTreeSet::new(),
        impostor_recs: BTreeSet::new(),
    };
    book.stake_ver_of_epoch.insert(cfg.e0, cfg.sv0);
    for (i, s) in fx.signers.iter().enumerate() {
        if let Ok(h) = s.verification_key_for_concatenation.to_json_hex() {
            book.key_ids.insert(h, 1000 + i as u64);
        }
    }
    let out = RunOut {
        req: String::new(),
        imp: String::new(),
        sfails: vec![],
        n_pubs: 0,
        n_posts: 0,
        n_lost: 0,
        n_restarts: 0,
        n_mark_failed: 0,
        epochs: 0,
        n_events: 0,
        states: BTreeSet::new(),
        results: BTreeMap::new(),
    };
    let mut r = Runner { w: &w, inc: Some(inc), book, evs: vec![], obs: vec![], seen_posts: 0, seen_pubs: 0, out, published: HashMap::new(), prev_beacons: vec![], prev_tables: String::new(), cfg };
    match script {
        Some(evs) => {
            for ev in evs.iter() {
                r.apply(ev).await;
            }
        }
        None => {
            let mut g = Gen::new(seed, len, n_epochs, faulty, mark_faults);
            let mut i = 0;
            while i < g.len || g.pending_epoch.is_some() {
                let ev = g.next(i, &r.book);
                r.apply(&ev).await;
                i += 1;
            }
        }
    }
    // request line and implementation line
    let cfg_txt = r
        .cfg
        .cfg
        .iter()
        .map(|(e, ds)| format!("({},[{}])", e, ds.iter().map(disc_letter).collect::<Vec<_>>().join(",")))
        .collect::<Vec<_>>()
        .join(",");
    let req = format!(
        "c20.run e0={} imm0={} sv0={} cfg=[{}] att={} ret={} evs=[{}]",
        cfg.e0,
        cfg.imm0,
        cfg.sv0,
        cfg_txt,
        cfg.attempts,
        cfg.retention.map(|r| r.to_string()).unwrap_or("x".to_string()),
        r.evs.join(",")
    );
    let n = r.obs.len() / 2;
    let mut imp = String::new();
    for i in 0..n {
        if i > 0 {
            imp.push(';');
        }
        imp.push_str(&r.obs[2 * i]);
        if i + 1 == n {
            let _ = write!(imp, "/B[{}]", r.obs[2 * i + 1]);
        }
    }
    let mut out = r.out;
    out.req = req;
    out.imp = imp;
    out.n_mark_failed = w.mark_failed.load(Ordering::SeqCst);
    out.epochs = r.book.epoch - cfg.e0 + 1;
    out.n_events = r.evs.len();
    drop(r.inc);
    out
}

fn all_discs() -> Vec<SignedEntityTypeDiscriminants> {
    vec![
        SignedEntityTypeDiscriminants::MithrilStakeDistribution,
        SignedEntityTypeDiscriminants::CardanoStakeDistribution,
        SignedEntityTypeDiscriminants::CardanoDatabase,
    ]
}

/// the witness of the known finding: publish succeeds, `mark_beacon_as_signed` fails, the next tick publishes again
fn witness_script() -> Vec<Ev> {
    let mut evs = vec![Ev::RegOthers(vec![1, 2]), Ev::Tick, Ev::Tick];
    evs.extend([Ev::EpochUp(0), Ev::AggEpochUp, Ev::RegOthers(vec![1, 2]), Ev::Tick, Ev::Tick]);
    evs.extend([Ev::EpochUp(0), Ev::AggEpochUp, Ev::Tick, Ev::Tick]);
    // now ReadyToSign at epoch e0 + 2
    evs.extend([Ev::MarkFail(1), Ev::Tick, Ev::Tick, Ev::Tick]);
    evs
}

#[tokio::main(flavor = "multi_thread", worker_threads = 4)]
async fn main() {
    let args = Args::parse();
    hutil::quiet_panics();
    if std::env::var("C20_VERBOSE").is_ok() {
        VERBOSE.store(true, Ordering::Relaxed);
    }
    let mut sink = Sink::new(&args);
    let params_std = ProtocolParameters { k: 5, m: 100, phi_f: 0.65 };
    let params_low = ProtocolParameters { k: 2, m: 30, phi_f: 0.3 };
    let fx = Fixture {
        signers: MithrilFixtureBuilder::default().with_signers(N_PARTIES).with_protocol_parameters(params_std.clone()).build().signers_with_stake(),
    };
    let n_runs: usize = args.extra.get("runs").and_then(|v| v.parse().ok()).unwrap_or(if args.thorough() { 600 } else { 90 });
    let mut rng = Rng::new(args.seed ^ 0xC20);
    let mut totals: BTreeMap<String, u64> = BTreeMap::new();
    let mut states: BTreeSet<String> = BTreeSet::new();
    let mut add = |k: &str, v: u64| *totals.entry(k.to_string()).or_insert(0) += v;

    // ---- case 0: witness of the known finding (also a K case)
    {
        let cfg = RunCfg { e0: 1, imm0: 1, sv0: 0, cfg: vec![(0, all_discs())], attempts: 2, retention: None, params: params_std.clone(), params_switch: None };
        if sink.wanted() {
            let out = run_case("witness", &fx, &cfg, 0, 0, false, true, 3, Some(witness_script())).await;
            let idx = sink.case("witness", &out.req, &out.imp);
            let dup: Vec<&(String, String)> = out.sfails.iter().filter(|(c, _)| c == "republish-after-mark-failure").collect();
            sink.witness(
                "C20-republish-after-mark-failure",
                !dup.is_empty(),
                &dup.first().map(|(_, w)| w.clone()).unwrap_or("no repeated publication after the injected mark failure".to_string()),
            );
            for (c, w) in out.sfails.iter() {
                sink.sfail(idx, c, w, &out.req);
            }
        } else {
            sink.skip();
        }
    }

    for run in 0..n_runs {
        // every choice of the case derives from the seed, whether or not the case is executed
        let mut r = rng.fork();
        let kind = run % 6;
        let (faulty, mark_faults) = match kind {
            0 | 1 => (false, false),
            5 => (true, true),
            _ => (true, false),
        };
        let len = if args.thorough() { r.range(30, 200) } else { *r.pick(&[30u64, 40, 50, 60, 80, 100, 120, 160, 200]) } as usize;
        let n_epochs = r.range(3, (len as u64 / 10).clamp(3, 6));
        let e0 = *r.pick(&[1u64, 1, 2, 3, 7]);
        let imm0 = r.range(1, 9);
        let sv0 = r.below(3);
        let mut cfg_markers = vec![(0u64, if r.chance(3, 4) { all_discs() } else { let mut d = all_discs(); d.remove(r.range(1, 2) as usize); d })];
        if r.chance(1, 2) {
            let mut d = all_discs();
            let k = r.below(4);
            if k < 3 {
                d.remove(k as usize);
            }
            cfg_markers.push((e0 + r.range(1, 3), d));
        }
        let attempts = *r.pick(&[1u8, 2, 2, 3]);
        let retention = if r.chance(1, 3) { Some(r.range(1, 3) as usize) } else { None };
        let low = r.chance(1, 4);
        // a protocol parameter update taking effect at some epoch of the run (every third run)
        let params_switch = if r.chance(1, 3) { Some((e0 + r.range(1, 4), if low { params_std.clone() } else { params_low.clone() })) } else { None };
        let cfg = RunCfg { e0, imm0, sv0, cfg: cfg_markers, attempts, retention, params: if low { params_low.clone() } else { params_std.clone() }, params_switch };
        let tag = match (faulty, mark_faults, retention.is_some(), low) {
            (false, _, false, false) => "plain",
            (false, _, true, _) => "plain-retention",
            (false, _, false, true) => "plain-lowphi",
            (true, true, _, _) => "faults-mark",
            (true, false, true, _) => "faults-retention",
            (true, false, false, true) => "faults-lowphi",
            (true, false, false, false) => "faults",
        };
        if !sink.wanted() {
            sink.skip();
            continue;
        }
        let seed = r.u64();
        let out = run_case(&format!("run{}", run), &fx, &cfg, seed, len, faulty, mark_faults, n_epochs, None).await;
        let idx = sink.case(tag, &out.req, &out.imp);
        for (c, w) in out.sfails.iter() {
            sink.sfail(idx, c, w, &out.req);
        }
        add("publications", out.n_pubs as u64);
        add("registration_requests", out.n_posts as u64);
        add("lotteries_all_lost", out.n_lost as u64);
        add("restarts", out.n_restarts as u64);
        add("mark_failures", out.n_mark_failed);
        add("epochs", out.epochs);
        add("events", out.n_events as u64);
        for (k, v) in out.results.iter() {
            add(&format!("result_{}", k), *v);
        }
        states.extend(out.states.iter().cloned());
    }
    for (k, v) in totals.iter() {
        sink.note(k, &v.to_string());
    }
    sink.note("states_seen", &states.into_iter().collect::<Vec<_>>().join(""));
    sink.finish();
}
