fn main() {
    let _ = mithril_signer::SignerState::Init;
}
