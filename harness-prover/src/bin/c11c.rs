//! C11 harness, client layer: the paths of mithril-client that turn a VERIFIED proof / a delivered stake
//! distribution into the protocol message that is compared with the certificate —
//! `MessageBuilder::compute_cardano_transactions_proofs_message`, `compute_cardano_transactions_proofs_v2_message`,
//! `compute_cardano_blocks_proofs_message`, `compute_cardano_stake_distribution_message` (the distribution fetched
//! through the real `CardanoStakeDistributionClient`) and `MithrilCertificate::match_message`.
//!
//! K  per case one request `c11.rebuild`: the certificate's own protocol message, the parts the builder is
//!    expected to overwrite with the values of the response, and the certificate's signed digest — the Lean model
//!    (`ClientMsg.rebuild`, SHA-256 in Lean) answers the digest of the rebuilt message and the verdict of
//!    `match_message`; plus the stake-distribution root of what the client delivered (`c11.mkroot`).
//! S  `match_message` is true iff the message rebuilt from the response equals, part by part, the message that was
//!    signed (root, block number, offset / epoch and distribution, and every other part of the certificate's message) —
//!    the signed values and the response values are altered in turn. The oracle compares values; it calls neither the
//!    builder nor the digest.
use std::collections::BTreeMap;
use std::sync::Arc;

use async_trait::async_trait;
use hutil::{hex, Args, Rng, Sink};
use mithril_client::cardano_stake_distribution_client::{CardanoStakeDistributionAggregatorRequest, CardanoStakeDistributionClient};
use mithril_client::{CardanoStakeDistribution, CardanoStakeDistributionListItem, MessageBuilder, MithrilCertificate, MithrilResult};
use mithril_common::crypto_helper::{MKMap, MKMapNode, MKTree, MKTreeNode, MKTreeStoreInMemory, ProtocolMkProof};
use mithril_common::entities::{
    BlockNumber, BlockNumberOffset, BlockRange, CardanoBlock, CardanoTransaction, Epoch, EpochSpecifier, IntoMKTreeNode, ProtocolMessage,
    ProtocolMessagePartKey as K, SlotNumber,
};
use mithril_common::messages::{
    CardanoBlockMessagePart, CardanoBlocksProofsMessage, CardanoTransactionMessagePart, CardanoTransactionsProofsMessage,
    CardanoTransactionsProofsV2Message, CardanoTransactionsSetProofMessagePart, MkSetProofMessagePart,
};
use mithril_common::test::double::Dummy;

type S = MKTreeStoreInMemory;
type Map = MKMap<BlockRange, MKMapNode<BlockRange, S>, S>;

fn map_of(leaves_by_range: &BTreeMap<u64, Vec<Vec<u8>>>) -> Map {
    let entries: Vec<(BlockRange, MKMapNode<BlockRange, S>)> = leaves_by_range
        .iter()
        .map(|(start, ls)| {
            let nodes: Vec<MKTreeNode> = ls.iter().map(|l| MKTreeNode::new(l.clone())).collect();
            (BlockRange::from_block_number(BlockNumber(*start)), MKMapNode::Tree(Arc::new(MKTree::<S>::new(&nodes).unwrap())))
        })
        .collect();
    MKMap::new(&entries).unwrap()
}

/// ordinal of a part key in the order of the message's map (the order of the enum)
fn ord(k: &K) -> usize {
    let all = [
        K::SnapshotDigest, K::CardanoTransactionsMerkleRoot, K::CardanoBlocksTransactionsMerkleRoot, K::NextAggregateVerificationKey,
        K::NextProtocolParameters, K::CurrentEpoch, K::LatestBlockNumber, K::CardanoBlocksTransactionsBlockNumberOffset,
        K::CardanoStakeDistributionEpoch, K::CardanoStakeDistributionMerkleRoot, K::CardanoDatabaseMerkleRoot,
    ];
    let mut sorted = all.to_vec();
    sorted.sort();
    sorted.iter().position(|x| x == k).expect("a part key outside the table")
}

fn parts_line(pm: &BTreeMap<K, String>) -> String {
    format!("[{}]", pm.iter().map(|(k, v)| format!("({},{})", ord(k), hex(v.as_bytes()))).collect::<Vec<_>>().join(","))
}
fn sets_line(sets: &[(K, String)]) -> String {
    format!("[{}]", sets.iter().map(|(k, v)| format!("({},{})", ord(k), hex(v.as_bytes()))).collect::<Vec<_>>().join(","))
}

/// a certificate as the client holds it after the chain verification: `signed_message` is the digest the
/// multi-signature was verified over; `own` is the protocol message the certificate carries
fn certificate(own: &ProtocolMessage, signed_digest: &str) -> MithrilCertificate {
    let mut c = MithrilCertificate::dummy();
    c.protocol_message = own.clone();
    c.signed_message = signed_digest.to_string();
    c
}

fn pm_of(parts: &BTreeMap<K, String>) -> ProtocolMessage {
    let mut pm = ProtocolMessage::new();
    for (k, v) in parts {
        pm.set_message_part(*k, v.clone());
    }
    pm
}

struct Requester(Option<CardanoStakeDistribution>);
#[async_trait]
impl CardanoStakeDistributionAggregatorRequest for Requester {
    async fn list_latest(&self) -> MithrilResult<Vec<CardanoStakeDistributionListItem>> {
        Ok(vec![])
    }
    async fn get_by_hash(&self, _hash: &str) -> MithrilResult<Option<CardanoStakeDistribution>> {
        Ok(self.0.clone())
    }
    async fn get_by_epoch(&self, _s: EpochSpecifier) -> MithrilResult<Option<CardanoStakeDistribution>> {
        Ok(self.0.clone())
    }
}

/// one case: the certificate's own message, what was signed, what the builder returned, what it had to write
#[allow(clippy::too_many_arguments)]
fn judge(sink: &mut Sink, tag: &str, own: &BTreeMap<K, String>, signed: &BTreeMap<K, String>, cert: &MithrilCertificate, rebuilt: &ProtocolMessage, sets: &[(K, String)], known_class: Option<&'static str>) {
    let matches = cert.match_message(rebuilt);
    let req = format!("c11.rebuild cert={} set={} signed={}", parts_line(own), sets_line(sets), cert.signed_message);
    let i = sink.case(tag, &req, &format!("{} {}", rebuilt.compute_hash(), matches as u8));
    // oracle: the certificate's own parts, overwritten with the response's values, against the signed parts
    let mut expect = own.clone();
    for (k, v) in sets {
        expect.insert(*k, v.clone());
    }
    let same = expect == *signed;
    if matches != same {
        let diff: Vec<String> = expect.iter().filter(|(k, v)| signed.get(*k) != Some(*v)).map(|(k, v)| format!("{}: rebuilt {} signed {}", k, &v[..v.len().min(24)], signed.get(k).map(|s| &s[..s.len().min(24)]).unwrap_or("-"))).collect();
        let class = known_class.unwrap_or(if matches { "message-binding" } else { "message-rejected" });
        sink.sfail(i, class, &format!("{}: match_message = {} although the message built from the response {} the signed one ({})", tag, matches, if same { "is" } else { "is not" }, diff.join("; ")), &req);
    }
}

fn main() {
    let args = Args::parse();
    let mut rng = Rng::new(args.seed);
    let mut sink = Sink::new(&args);
    let rt = tokio::runtime::Builder::new_current_thread().enable_all().build().unwrap();
    let builder = MessageBuilder::new();
    let worlds = if args.thorough() { 300 } else { 40 };

    for _w in 0..worlds {
        // ---- a chain and its two certified trees -----------------------------------------------------------------------
        let nblocks = rng.range(2, if args.thorough() { 90 } else { 45 });
        let mut txs: Vec<CardanoTransaction> = vec![];
        let mut blocks: Vec<CardanoBlock> = vec![];
        for b in 0..nblocks {
            let bh = hex(&rng.bytes(32));
            let slot = b * 20 + rng.below(20);
            blocks.push(CardanoBlock::new(bh.clone(), BlockNumber(b), SlotNumber(slot)));
            for _ in 0..rng.range(if b == 0 { 1 } else { 0 }, 3) {
                txs.push(CardanoTransaction::new(hex(&rng.bytes(32)), BlockNumber(b), SlotNumber(slot), bh.clone()));
            }
        }
        let mut legacy: BTreeMap<u64, Vec<Vec<u8>>> = BTreeMap::new();
        let mut v2: BTreeMap<u64, Vec<Vec<u8>>> = BTreeMap::new();
        for t in &txs { legacy.entry(t.block_number.0 / 15 * 15).or_default().push(t.transaction_hash.clone().into_bytes()); }
        for b in &blocks { v2.entry(b.block_number.0 / 15 * 15).or_default().push(b.clone().into_mk_tree_node().to_vec()); }
        for t in &txs { v2.entry(t.block_number.0 / 15 * 15).or_default().push(t.clone().into_mk_tree_node().to_vec()); }
        // "another tree": the same chain with one more transaction — a valid proof under a root that was not signed
        let extra = CardanoTransaction::new(hex(&rng.bytes(32)), BlockNumber(0), blocks[0].slot_number, blocks[0].block_hash.clone());
        let mut legacy_o = legacy.clone(); legacy_o.entry(0).or_default().push(extra.transaction_hash.clone().into_bytes());
        let mut v2_o = v2.clone(); v2_o.entry(0).or_default().push(extra.clone().into_mk_tree_node().to_vec());
        let (lm, lmo, vm, vmo) = (map_of(&legacy), map_of(&legacy_o), map_of(&v2), map_of(&v2_o));
        let lroot = lm.compute_root().unwrap().to_hex();
        let vroot = vm.compute_root().unwrap().to_hex();
        let latest = nblocks - 1;
        let offset = rng.below(200);
        let epoch = rng.range(1, 900);
        let avk = hex(&rng.bytes(40));
        let npp = hex(&rng.bytes(16));
        let pick_tx = |rng: &mut Rng| -> Vec<CardanoTransaction> { let mut q: Vec<_> = txs.iter().filter(|_| rng.chance(1, 4)).cloned().collect(); if q.is_empty() { q.push(txs[0].clone()); } q };
        let pick_blk = |rng: &mut Rng| -> Vec<CardanoBlock> { let mut q: Vec<_> = blocks.iter().filter(|_| rng.chance(1, 5)).cloned().collect(); if q.is_empty() { q.push(blocks[0].clone()); } q };
        // the other parts every certificate message carries
        let common: BTreeMap<K, String> = BTreeMap::from([(K::NextAggregateVerificationKey, avk.clone()), (K::NextProtocolParameters, npp.clone()), (K::CurrentEpoch, epoch.to_string())]);
        // alterations of what was signed / of the certificate's own copy
        let alter = |rng: &mut Rng, parts: &BTreeMap<K, String>, k: K| -> BTreeMap<K, String> {
            let mut p = parts.clone();
            let v = p.get(&k).cloned().unwrap_or_default();
            let nv = if !v.is_empty() && v.bytes().all(|c| c.is_ascii_digit()) { (v.parse::<u64>().unwrap() + rng.range(1, 3)).to_string() } else { let mut b = v.into_bytes(); if b.is_empty() { b.push(b'0') } else { let i = rng.below(b.len() as u64) as usize; b[i] = if b[i] == b'0' { b'1' } else { b'0' }; } String::from_utf8(b).unwrap() };
            p.insert(k, nv);
            p
        };

        // ================================================================ legacy transactions ===============================
        {
            let mut signed = common.clone();
            signed.insert(K::CardanoTransactionsMerkleRoot, lroot.clone());
            signed.insert(K::LatestBlockNumber, latest.to_string());
            let digest = pm_of(&signed).compute_hash();
            let q = pick_tx(&mut rng);
            let hashes: Vec<String> = q.iter().map(|t| t.transaction_hash.clone()).collect();
            let mk = |m: &Map, latest: u64| {
                let proof = m.compute_proof(&hashes.iter().map(|h| MKTreeNode::from(h.clone())).collect::<Vec<_>>()).unwrap();
                CardanoTransactionsProofsMessage::new("cert", vec![CardanoTransactionsSetProofMessagePart { transactions_hashes: hashes.clone(), proof: ProtocolMkProof::new(proof).to_json_hex().unwrap() }], vec![], BlockNumber(latest))
            };
            // (tag, certificate's own parts, signed parts, response)
            let mut cases: Vec<(&str, BTreeMap<K, String>, BTreeMap<K, String>, CardanoTransactionsProofsMessage)> = vec![
                ("legacy-honest", signed.clone(), signed.clone(), mk(&lm, latest)),
                ("legacy-response-block-number-altered", signed.clone(), signed.clone(), mk(&lm, latest + rng.range(1, 30))),
                ("legacy-response-block-number-lower", signed.clone(), signed.clone(), mk(&lm, latest.saturating_sub(1))),
                ("legacy-response-proof-under-other-root", signed.clone(), signed.clone(), mk(&lmo, latest)),
                ("legacy-signed-other-block-number", signed.clone(), alter(&mut rng, &signed, K::LatestBlockNumber), mk(&lm, latest)),
                ("legacy-signed-other-root", signed.clone(), alter(&mut rng, &signed, K::CardanoTransactionsMerkleRoot), mk(&lm, latest)),
                ("legacy-signed-other-avk", signed.clone(), alter(&mut rng, &signed, K::NextAggregateVerificationKey), mk(&lm, latest)),
                ("legacy-signed-other-epoch", signed.clone(), alter(&mut rng, &signed, K::CurrentEpoch), mk(&lm, latest)),
                // the certificate's OWN copy of the overwritten parts does not matter, of the others it does
                ("legacy-own-root-garbled", alter(&mut rng, &signed, K::CardanoTransactionsMerkleRoot), signed.clone(), mk(&lm, latest)),
                ("legacy-own-block-number-garbled", alter(&mut rng, &signed, K::LatestBlockNumber), signed.clone(), mk(&lm, latest)),
                ("legacy-own-avk-garbled", alter(&mut rng, &signed, K::NextAggregateVerificationKey), signed.clone(), mk(&lm, latest)),
                ("legacy-own-parameters-garbled", alter(&mut rng, &signed, K::NextProtocolParameters), signed.clone(), mk(&lm, latest)),
            ];
            { let mut own = signed.clone(); own.remove(&K::LatestBlockNumber); own.remove(&K::CardanoTransactionsMerkleRoot); cases.push(("legacy-own-without-the-parts", own, signed.clone(), mk(&lm, latest))); }
            { let mut own = signed.clone(); own.insert(K::SnapshotDigest, hex(&rng.bytes(32))); cases.push(("legacy-own-extra-part", own, signed.clone(), mk(&lm, latest))); }
            { let mut s2 = signed.clone(); s2.insert(K::CardanoBlocksTransactionsBlockNumberOffset, offset.to_string()); cases.push(("legacy-signed-with-extra-part", signed.clone(), s2, mk(&lm, latest))); }
            for (tag, own, sgn, resp) in cases {
                if !sink.wanted() { sink.skip(); continue; }
                let d = if sgn == signed { digest.clone() } else { pm_of(&sgn).compute_hash() };
                let cert = certificate(&pm_of(&own), &d);
                let verified = match resp.verify() { Ok(v) => v, Err(e) => { sink.note(&format!("verify-failed-{}", tag), &format!("{:?}", e)); sink.skip(); continue; } };
                let rebuilt = builder.compute_cardano_transactions_proofs_message(&cert, &verified);
                let root = { let mut pm = ProtocolMessage::new(); verified.fill_protocol_message(&mut pm); pm.get_message_part(&K::CardanoTransactionsMerkleRoot).cloned().unwrap_or_default() };
                let sets = vec![(K::CardanoTransactionsMerkleRoot, root), (K::LatestBlockNumber, resp.latest_block_number.to_string())];
                judge(&mut sink, tag, &own, &sgn, &cert, &rebuilt, &sets, None);
            }
        }

        // ================================================================ v2 transactions and blocks ========================
        for kind_tx in [true, false] {
            let mut signed = common.clone();
            signed.insert(K::CardanoBlocksTransactionsMerkleRoot, vroot.clone());
            signed.insert(K::LatestBlockNumber, latest.to_string());
            signed.insert(K::CardanoBlocksTransactionsBlockNumberOffset, offset.to_string());
            let qt = pick_tx(&mut rng);
            let qb = pick_blk(&mut rng);
            // a response: (map the proof is made from, latest block number, offset)
            let variants: Vec<(&str, bool, u64, u64, BTreeMap<K, String>, BTreeMap<K, String>)> = vec![
                ("honest", false, latest, offset, signed.clone(), signed.clone()),
                ("response-block-number-altered", false, latest + rng.range(1, 30), offset, signed.clone(), signed.clone()),
                ("response-offset-altered", false, latest, offset + rng.range(1, 9), signed.clone(), signed.clone()),
                ("response-offset-and-block-swapped", false, offset, latest, signed.clone(), signed.clone()),
                ("response-proof-under-other-root", true, latest, offset, signed.clone(), signed.clone()),
                ("signed-other-block-number", false, latest, offset, signed.clone(), alter(&mut rng, &signed, K::LatestBlockNumber)),
                ("signed-other-offset", false, latest, offset, signed.clone(), alter(&mut rng, &signed, K::CardanoBlocksTransactionsBlockNumberOffset)),
                ("signed-other-root", false, latest, offset, signed.clone(), alter(&mut rng, &signed, K::CardanoBlocksTransactionsMerkleRoot)),
                ("signed-other-epoch", false, latest, offset, signed.clone(), alter(&mut rng, &signed, K::CurrentEpoch)),
                ("own-root-garbled", false, latest, offset, alter(&mut rng, &signed, K::CardanoBlocksTransactionsMerkleRoot), signed.clone()),
                ("own-offset-garbled", false, latest, offset, alter(&mut rng, &signed, K::CardanoBlocksTransactionsBlockNumberOffset), signed.clone()),
                ("own-avk-garbled", false, latest, offset, alter(&mut rng, &signed, K::NextAggregateVerificationKey), signed.clone()),
                ("own-without-the-parts", false, latest, offset, common.clone(), signed.clone()),
                ("signed-legacy-root-key-instead", false, latest, offset, signed.clone(), { let mut s2 = signed.clone(); s2.remove(&K::CardanoBlocksTransactionsMerkleRoot); s2.insert(K::CardanoTransactionsMerkleRoot, vroot.clone()); s2 }),
            ];
            for (name, other, lat, off, own, sgn) in variants {
                if !sink.wanted() { sink.skip(); continue; }
                let tag = format!("{}-{}", if kind_tx { "v2tx" } else { "v2blk" }, name);
                let cert = certificate(&pm_of(&own), &pm_of(&sgn).compute_hash());
                let m = if other { &vmo } else { &vm };
                let (rebuilt, root) = if kind_tx {
                    let proof = m.compute_proof(&qt.iter().map(|t| t.clone().into_mk_tree_node()).collect::<Vec<_>>()).unwrap();
                    let part = MkSetProofMessagePart::<CardanoTransactionMessagePart> { items: qt.iter().cloned().map(Into::into).collect(), proof: ProtocolMkProof::new(proof).to_bytes_hex().unwrap() };
                    let resp = CardanoTransactionsProofsV2Message::new("cert", Some(part), vec![], BlockNumber(lat), BlockNumberOffset(off));
                    let verified = resp.verify().unwrap();
                    (builder.compute_cardano_transactions_proofs_v2_message(&cert, &verified), verified.certified_merkle_root().to_string())
                } else {
                    let proof = m.compute_proof(&qb.iter().map(|t| t.clone().into_mk_tree_node()).collect::<Vec<_>>()).unwrap();
                    let part = MkSetProofMessagePart::<CardanoBlockMessagePart> { items: qb.iter().cloned().map(Into::into).collect(), proof: ProtocolMkProof::new(proof).to_bytes_hex().unwrap() };
                    let resp = CardanoBlocksProofsMessage::new("cert", Some(part), vec![], BlockNumber(lat), BlockNumberOffset(off));
                    let verified = resp.verify().unwrap();
                    (builder.compute_cardano_blocks_proofs_message(&cert, &verified), verified.certified_merkle_root().to_string())
                };
                let sets = vec![(K::CardanoBlocksTransactionsMerkleRoot, root), (K::LatestBlockNumber, lat.to_string()), (K::CardanoBlocksTransactionsBlockNumberOffset, off.to_string())];
                judge(&mut sink, &tag, &own, &sgn, &cert, &rebuilt, &sets, None);
            }
        }

        // ================================================================ stake distribution ================================
        {
            let npools = rng.range(1, 40) as usize;
            let mut sd: BTreeMap<String, u64> = BTreeMap::new();
            for _ in 0..npools { sd.insert(format!("pool1{}", hex(&rng.bytes(26))), rng.range(10, 1 << 40)); }
            let sd_epoch = rng.range(1, 900);
            let root_of = |d: &BTreeMap<String, u64>| -> String {
                // the certified root of a distribution: the aggregator-side signable builder's own function
                mithril_common::signable_builder::CardanoStakeDistributionSignableBuilder::compute_merkle_tree_from_stake_distribution(d.clone()).unwrap().compute_root().unwrap().to_hex()
            };
            let leaves_of = |d: &BTreeMap<String, u64>| -> Vec<String> { d.iter().map(|(k, v)| format!("{}{}", k, v)).collect() };
            let mut signed = common.clone();
            signed.insert(K::CardanoStakeDistributionEpoch, sd_epoch.to_string());
            signed.insert(K::CardanoStakeDistributionMerkleRoot, root_of(&sd));
            let (k0, v0) = sd.iter().next().map(|(k, v)| (k.clone(), *v)).unwrap();
            let (kl, vl) = sd.iter().next_back().map(|(k, v)| (k.clone(), *v)).unwrap();
            // delivered distributions
            let mut deliveries: Vec<(&str, BTreeMap<String, u64>, u64)> = vec![("sd-honest", sd.clone(), sd_epoch)];
            deliveries.push(("sd-epoch-altered", sd.clone(), sd_epoch + 1));
            { let mut d = sd.clone(); d.insert(k0.clone(), v0 + 1); deliveries.push(("sd-stake-altered", d, sd_epoch)); }
            { let mut d = sd.clone(); d.remove(&k0); d.insert(format!("{}x", k0), v0); deliveries.push(("sd-pool-renamed", d, sd_epoch)); }
            { let mut d = sd.clone(); d.insert(format!("pool1{}", hex(&rng.bytes(26))), 1); deliveries.push(("sd-pool-added", d, sd_epoch)); }
            if sd.len() > 1 { let mut d = sd.clone(); d.remove(&kl); deliveries.push(("sd-pool-removed", d, sd_epoch)); }
            if sd.len() > 1 { let mut d = sd.clone(); d.insert(k0.clone(), vl); d.insert(kl.clone(), v0); deliveries.push(("sd-stakes-swapped", d, sd_epoch)); }
            {
                // a digit moved from the stake into the identifier: same leaf (the known finding) when the order is kept
                let digits = v0.to_string();
                if digits.len() >= 2 && !digits[1..].starts_with('0') {
                    let mut d = sd.clone(); d.remove(&k0); d.insert(format!("{}{}", k0, &digits[..1]), digits[1..].parse().unwrap());
                    deliveries.push(("sd-digit-moved", d, sd_epoch));
                }
            }
            for (tag, delivered, ep) in deliveries {
                if !sink.wanted() { sink.skip(); sink.skip(); continue; }
                let msg = CardanoStakeDistribution { epoch: Epoch(ep), hash: "sd-hash".into(), certificate_hash: "cert".into(), stake_distribution: delivered.clone().into_iter().collect(), created_at: Default::default() };
                // through the real client (a pass-through of what the aggregator answers)
                let client = CardanoStakeDistributionClient::new(Arc::new(Requester(Some(msg))));
                let got = rt.block_on(client.get_by_epoch(Epoch(ep))).unwrap().unwrap();
                let cert = certificate(&pm_of(&signed), &pm_of(&signed).compute_hash());
                let rebuilt = builder.compute_cardano_stake_distribution_message(&cert, &got).unwrap();
                let got_map: BTreeMap<String, u64> = got.stake_distribution.iter().map(|(k, v)| (k.clone(), *v)).collect();
                // K: the root the client computed, against the Lean tree builder over the delivered leaves
                let leaves = leaves_of(&got_map);
                sink.case(&format!("{}-root", tag), &format!("c11.mkroot leaves=[{}]", leaves.iter().map(|l| hex(l.as_bytes())).collect::<Vec<_>>().join(",")), &format!("ok {}", rebuilt.get_message_part(&K::CardanoStakeDistributionMerkleRoot).cloned().unwrap_or_default()));
                // S: exactness of the verified distribution — equal leaves with another mapping is the known class
                let same_mapping = got_map == sd;
                let same_leaves = leaves == leaves_of(&sd);
                let sets = vec![(K::CardanoStakeDistributionEpoch, got.epoch.to_string()), (K::CardanoStakeDistributionMerkleRoot, root_of(&got_map))];
                judge(&mut sink, tag, &signed, &signed, &cert, &rebuilt, &sets, None);
                let matches = cert.match_message(&rebuilt);
                if matches && !(same_mapping && ep == sd_epoch) {
                    let class = if same_leaves && ep == sd_epoch { "stake-leaf" } else { "stake-distribution" };
                    sink.sfail(sink.next_index() - 1, class, &format!("{}: the delivered distribution (epoch {}) is not the certified mapping (epoch {}) but its message matches the certificate", tag, ep, sd_epoch), "stake distribution");
                }
                if !matches && same_mapping && ep == sd_epoch {
                    sink.sfail(sink.next_index() - 1, "message-rejected", &format!("{}: the certified distribution is rejected", tag), "stake distribution");
                }
            }
            // the certificate signed another epoch / another root
            for (tag, key) in [("sd-signed-other-epoch", K::CardanoStakeDistributionEpoch), ("sd-signed-other-root", K::CardanoStakeDistributionMerkleRoot), ("sd-signed-other-avk", K::NextAggregateVerificationKey)] {
                let sgn = alter(&mut rng, &signed, key); // before the replay filter: every run draws the same numbers
                if !sink.wanted() { sink.skip(); continue; }
                let msg = CardanoStakeDistribution { epoch: Epoch(sd_epoch), hash: "sd-hash".into(), certificate_hash: "cert".into(), stake_distribution: sd.clone().into_iter().collect(), created_at: Default::default() };
                let cert = certificate(&pm_of(&signed), &pm_of(&sgn).compute_hash());
                let rebuilt = builder.compute_cardano_stake_distribution_message(&cert, &msg).unwrap();
                let sets = vec![(K::CardanoStakeDistributionEpoch, sd_epoch.to_string()), (K::CardanoStakeDistributionMerkleRoot, root_of(&sd))];
                judge(&mut sink, tag, &signed, &sgn, &cert, &rebuilt, &sets, None);
            }
        }
    }
    sink.finish();
}
