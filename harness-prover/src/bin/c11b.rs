//! C11 harness, aggregator layer: histories through the REAL `MithrilProverService` (prover.rs: blocks and
//! transactions of the blocks-and-transactions tree) and the REAL `LegacyMithrilProverService`
//! (prover_legacy.rs) over the REAL sqlite transaction store (`CardanoTransactionRepository` behind the
//! aggregator's `AggregatorCardanoChainDataRepository`, file database with the real migrations), filled by the
//! REAL `CardanoChainDataImporter` (blocks, block-range roots of both tables) from a scripted block scanner,
//! with the REAL `ResourcePool`-backed Merkle-map cache (`compute_cache`).
//!
//! K  (a) one request per history (`c11.history`): the chain, imports, signed beacons, cache computations and
//!        proof requests, versus the Lean model `Prover.run`: per request the outcome class, the items
//!        reported as certified, the items reported as not certified, and the identity of the Merkle root
//!        (ordinal of first appearance among the roots signed / proved in the history);
//!    (b) one request per produced proof (`c11.v2` / `c11.legacy`): the proof as the client receives it,
//!        replayed through the Lean verifier model (verdict + root, Blake2s in Lean).
//! S  real vs real, with the harness's own copy of the chain as the oracle: every produced answer verifies
//!    with the real client-side verifier; every reported-certified item is stored at or below the beacon with
//!    exactly these fields; every requested item stored at or below the beacon is certified, none of the
//!    reported non-certified ones is; the certified root is the root the real signable builder signed for the
//!    beacon the cache was computed for; in the certification flow (sign, cache, ask — same beacon) no
//!    request is refused.
#[path = "../../../harness/core/src/common/mkjson.rs"]
mod mkjson;
#[allow(dead_code)]
#[path = "/repo/mithril-aggregator/src/message_adapters/to_cardano_transactions_proof_message.rs"]
mod legacy_adapter;

use std::collections::{BTreeMap, BTreeSet};
use std::path::{Path, PathBuf};
use std::sync::{Arc, Mutex};

use async_trait::async_trait;
use hutil::{hex, Args, Rng, Sink};
use mithril_aggregator::database::repository::AggregatorCardanoChainDataRepository;
use mithril_aggregator::services::{
    AggregatorChainDataImporter, LegacyMithrilProverService, LegacyProverService, MithrilProverService, ProverService,
};
use mithril_cardano_node_chain::chain_importer::{CardanoChainDataImporter, ChainDataImporter};
use mithril_cardano_node_chain::chain_scanner::{BlockScanner, BlockStreamer, ChainScannedBlocks};
use mithril_cardano_node_chain::entities::{RawCardanoPoint, ScannedBlock};
use mithril_common::crypto_helper::{MKTreeStoreInMemory, ProtocolMkProof};
use mithril_common::entities::{
    BlockNumber, BlockNumberOffset, CardanoBlock, CardanoTransaction, CardanoTransactionsSnapshot, IntoMKTreeNode,
    ProtocolMessagePartKey, SignedEntityType, SlotNumber,
};
use mithril_common::messages::{
    CardanoBlockMessagePart, CardanoBlocksProofsMessage, CardanoTransactionMessagePart, CardanoTransactionsProofsMessage,
    CardanoTransactionsProofsV2Message, MkSetProofMessagePart,
};
use mithril_common::signable_builder::{
    BlockRangeRootRetriever, BlocksTransactionsImporter, CardanoBlocksTransactionsSignableBuilder,
    CardanoTransactionsSignableBuilder, LegacyBlockRangeRootRetriever, SignableBuilder, SignedEntity, TransactionsImporter,
};
use mithril_common::StdResult;
use mithril_persistence::database::cardano_transaction_migration;
use mithril_persistence::sqlite::{ConnectionBuilder, ConnectionOptions};
use mkjson::MP;

type S = MKTreeStoreInMemory;

// ------------------------------------------------------------------------------------------ the HTTP front
/// The REAL router of the aggregator (`DependenciesBuilder::create_http_routes`: proof_routes.rs handlers, hash
/// validator, sanitising, message adapters) over the provers of the current history and a signed-entity service that
/// answers the beacon of the "last certificate".
mod front {
    use super::*;
    use mithril_aggregator::dependency_injection::DependenciesBuilder;
    use mithril_aggregator::services::SignedEntityService;
    use mithril_aggregator::ServeCommandConfiguration;
    use mithril_common::entities::{
        CardanoBlocksTransactionsSnapshot, CardanoDatabaseSnapshot, CardanoStakeDistribution, Certificate, Epoch, MithrilStakeDistribution,
    };
    use tokio::task::JoinHandle;
    use warp::Filter;

    #[derive(Default)]
    pub struct Switch2(pub Mutex<Option<Arc<MithrilProverService<S>>>>);
    #[async_trait]
    impl ProverService for Switch2 {
        async fn compute_blocks_proofs(&self, up_to: BlockNumber, hashes: &[String]) -> StdResult<Option<mithril_common::entities::MkSetProof<CardanoBlock>>> {
            let p = self.0.lock().unwrap().clone().unwrap();
            p.compute_blocks_proofs(up_to, hashes).await
        }
        async fn compute_transactions_proofs(&self, up_to: BlockNumber, hashes: &[String]) -> StdResult<Option<mithril_common::entities::MkSetProof<CardanoTransaction>>> {
            let p = self.0.lock().unwrap().clone().unwrap();
            p.compute_transactions_proofs(up_to, hashes).await
        }
        async fn compute_cache(&self, up_to: BlockNumber) -> StdResult<()> {
            let p = self.0.lock().unwrap().clone().unwrap();
            p.compute_cache(up_to).await
        }
    }
    #[derive(Default)]
    pub struct SwitchL(pub Mutex<Option<Arc<LegacyMithrilProverService<S>>>>);
    #[async_trait]
    impl LegacyProverService for SwitchL {
        async fn compute_transactions_proofs(&self, up_to: BlockNumber, hashes: &[String]) -> StdResult<Vec<mithril_common::entities::CardanoTransactionsSetProof>> {
            let p = self.0.lock().unwrap().clone().unwrap();
            p.compute_transactions_proofs(up_to, hashes).await
        }
        async fn compute_cache(&self, up_to: BlockNumber) -> StdResult<()> {
            let p = self.0.lock().unwrap().clone().unwrap();
            p.compute_cache(up_to).await
        }
    }
    /// the beacon (and tip) of the last certified snapshots
    #[derive(Default)]
    pub struct Entities {
        pub v2: Mutex<Option<(u64, u64)>>,
        pub legacy: Mutex<Option<u64>>,
    }
    #[async_trait]
    impl SignedEntityService for Entities {
        async fn create_artifact(&self, _t: SignedEntityType, _c: &Certificate) -> StdResult<JoinHandle<StdResult<()>>> {
            Err(anyhow::anyhow!("not driven"))
        }
        async fn get_last_signed_cardano_database_snapshots(&self, _n: usize) -> StdResult<Vec<SignedEntity<CardanoDatabaseSnapshot>>> { Ok(vec![]) }
        async fn get_signed_cardano_database_snapshot_by_id(&self, _i: &str) -> StdResult<Option<SignedEntity<CardanoDatabaseSnapshot>>> { Ok(None) }
        async fn get_last_signed_mithril_stake_distributions(&self, _n: usize) -> StdResult<Vec<SignedEntity<MithrilStakeDistribution>>> { Ok(vec![]) }
        async fn get_signed_mithril_stake_distribution_by_id(&self, _i: &str) -> StdResult<Option<SignedEntity<MithrilStakeDistribution>>> { Ok(None) }
        async fn get_last_cardano_transaction_snapshot(&self) -> StdResult<Option<SignedEntity<CardanoTransactionsSnapshot>>> {
            Ok(self.legacy.lock().unwrap().map(|u| SignedEntity {
                signed_entity_id: "se-legacy".into(),
                signed_entity_type: SignedEntityType::CardanoTransactions(Epoch(1), BlockNumber(u)),
                certificate_id: "cert-legacy".into(),
                artifact: CardanoTransactionsSnapshot::new("root".into(), BlockNumber(u)),
                created_at: Default::default(),
            }))
        }
        async fn get_last_cardano_blocks_transactions_snapshot(&self) -> StdResult<Option<SignedEntity<CardanoBlocksTransactionsSnapshot>>> {
            Ok(self.v2.lock().unwrap().map(|(u, off)| SignedEntity {
                signed_entity_id: "se-v2".into(),
                signed_entity_type: SignedEntityType::CardanoBlocksTransactions(Epoch(1), BlockNumber(u), BlockNumberOffset(off)),
                certificate_id: "cert-v2".into(),
                artifact: CardanoBlocksTransactionsSnapshot::new("root".into(), BlockNumber(u), BlockNumberOffset(off)),
                created_at: Default::default(),
            }))
        }
        async fn get_last_signed_cardano_stake_distributions(&self, _n: usize) -> StdResult<Vec<SignedEntity<CardanoStakeDistribution>>> { Ok(vec![]) }
    }

    pub struct Front {
        routes: warp::filters::BoxedFilter<(warp::reply::Response,)>,
        pub prover2: Arc<Switch2>,
        pub proverl: Arc<SwitchL>,
        pub entities: Arc<Entities>,
    }
    impl Front {
        pub fn new(rt: &tokio::runtime::Runtime, scratch: &Path) -> Front {
            let prover2 = Arc::new(Switch2::default());
            let proverl = Arc::new(SwitchL::default());
            let entities = Arc::new(Entities::default());
            let dir = scratch.join("aggregator");
            std::fs::create_dir_all(&dir).unwrap();
            let configuration = ServeCommandConfiguration {
                data_stores_directory: dir.join("stores"),
                db_directory: dir.join("db"),
                snapshot_directory: dir.join("snapshots"),
                ..ServeCommandConfiguration::new_sample(dir.join("sample"))
            };
            let mut builder = DependenciesBuilder::new(logger(), Arc::new(configuration));
            builder.signed_entity_service = Some(entities.clone());
            builder.prover_service = Some(prover2.clone());
            builder.legacy_prover_service = Some(proverl.clone());
            let routes = rt.block_on(async { builder.create_http_routes().await }).expect("the aggregator's HTTP routes");
            let routes = routes.map(|r| warp::reply::Reply::into_response(r)).boxed();
            Front { routes, prover2, proverl, entities }
        }
        /// GET on the real router: (status, body)
        pub fn get(&self, rt: &tokio::runtime::Runtime, path: &str) -> (u16, String) {
            let routes = self.routes.clone();
            let path = format!("/aggregator{}", path);
            let r = rt.block_on(async move { warp::test::request().method("GET").path(&path).reply(&routes).await });
            (r.status().as_u16(), String::from_utf8_lossy(r.body()).to_string())
        }
    }
}

fn logger() -> slog::Logger {
    slog::Logger::root(slog::Discard, slog::o!())
}

// ------------------------------------------------------------------------------------------ the chain

#[derive(Clone, Debug, PartialEq)]
struct Blk {
    number: u64,
    id: u64,
    slot: u64,
    txs: Vec<u64>,
}

fn h64(id: u64) -> String {
    format!("{:064x}", id)
}
fn id_of(h: &str) -> Option<u64> {
    if h.len() == 64 && h[..48].bytes().all(|c| c == b'0') { u64::from_str_radix(&h[48..], 16).ok() } else { None }
}
fn hash_bytes(id: u64) -> Vec<u8> {
    let mut v = vec![0u8; 24];
    v.extend_from_slice(&id.to_be_bytes());
    v
}

/// the node as the importer sees it: blocks after `from` (by slot) up to `until`, in batches
struct Scanner {
    chain: Arc<Mutex<Vec<Blk>>>,
    batch: usize,
}
struct Streamer {
    batches: std::collections::VecDeque<Vec<ScannedBlock>>,
    last: Option<RawCardanoPoint>,
}
#[async_trait]
impl BlockScanner for Scanner {
    async fn scan(&self, from: Option<RawCardanoPoint>, until: BlockNumber) -> StdResult<Box<dyn BlockStreamer>> {
        let chain = self.chain.lock().unwrap();
        let from_slot = from.as_ref().map(|p| *p.slot_number);
        let sel: Vec<&Blk> = chain.iter().filter(|b| from_slot.map(|s| b.slot > s).unwrap_or(true) && b.number <= *until).collect();
        let last = sel.last().map(|b| RawCardanoPoint::new(SlotNumber(b.slot), hash_bytes(b.id))).or(from);
        let batches = sel
            .chunks(self.batch.max(1))
            .map(|c| c.iter().map(|b| ScannedBlock::new(hash_bytes(b.id), BlockNumber(b.number), SlotNumber(b.slot), b.txs.iter().map(|t| h64(*t)).collect::<Vec<_>>())).collect())
            .collect();
        Ok(Box::new(Streamer { batches, last }))
    }
}
#[async_trait]
impl BlockStreamer for Streamer {
    async fn poll_next(&mut self) -> StdResult<Option<ChainScannedBlocks>> {
        Ok(self.batches.pop_front().map(ChainScannedBlocks::RollForwards))
    }
    fn last_polled_point(&self) -> Option<RawCardanoPoint> {
        self.last.clone()
    }
}

// ------------------------------------------------------------------------------------------ the node under test

struct Node {
    rt: Arc<tokio::runtime::Runtime>,
    db: PathBuf,
    repo: Arc<AggregatorCardanoChainDataRepository>,
    importer: Arc<CardanoChainDataImporter>,
    prover2: Arc<MithrilProverService<S>>,
    proverl: Arc<LegacyMithrilProverService<S>>,
}

fn make_template(path: &Path) {
    let _ = std::fs::remove_file(path);
    let conn = ConnectionBuilder::open_file(path)
        .with_options(&[ConnectionOptions::EnableForeignKeys])
        .with_migrations(cardano_transaction_migration::get_migrations())
        .build()
        .unwrap();
    drop(conn);
}

impl Node {
    fn new(rt: Arc<tokio::runtime::Runtime>, template: &Path, db: PathBuf, chain: Arc<Mutex<Vec<Blk>>>, batch: usize, pool2: usize, pooll: usize) -> Node {
        std::fs::copy(template, &db).unwrap();
        let pool = ConnectionBuilder::open_file(&db)
            .with_options(&[ConnectionOptions::EnableForeignKeys])
            .with_migrations(cardano_transaction_migration::get_migrations())
            .build_pool(2)
            .unwrap();
        let repo = Arc::new(AggregatorCardanoChainDataRepository::new(Arc::new(pool)));
        let importer = Arc::new(CardanoChainDataImporter::new(Arc::new(Scanner { chain, batch }), repo.clone(), logger()));
        let prover2 = Arc::new(MithrilProverService::<S>::new(repo.clone(), repo.clone(), pool2, logger()));
        let proverl = Arc::new(LegacyMithrilProverService::<S>::new(repo.clone(), repo.clone(), pooll, logger()));
        Node { rt, db, repo, importer, prover2, proverl }
    }
    fn import(&self, n: u64) -> Result<(), String> {
        let imp = self.importer.clone();
        self.rt.block_on(async move { imp.import(BlockNumber(n)).await }).map_err(|e| format!("{:?}", e))
    }
    fn counts(&self) -> (usize, usize, usize) {
        let repo = self.repo.clone();
        self.rt.block_on(async move {
            (repo.get_all_blocks().await.unwrap().len(), repo.get_all_block_range_root().unwrap().len(), repo.get_all_legacy_block_range_root().unwrap().len())
        })
    }
    /// the root the REAL signable builder signs for the beacon (through the real importer, as in production)
    fn sign2(&self, u: u64) -> Option<String> {
        let retriever: Arc<dyn BlockRangeRootRetriever<S>> = self.repo.clone();
        let imp: Arc<dyn ChainDataImporter> = self.importer.clone();
        let importer: Arc<dyn BlocksTransactionsImporter> = Arc::new(AggregatorChainDataImporter::new(imp));
        let b = CardanoBlocksTransactionsSignableBuilder::<S>::new(importer, retriever);
        let r = self.rt.block_on(async move { b.compute_protocol_message((BlockNumber(u), BlockNumberOffset(0))).await });
        r.ok().and_then(|m| m.get_message_part(&ProtocolMessagePartKey::CardanoBlocksTransactionsMerkleRoot).cloned())
    }
    fn signl(&self, u: u64) -> Option<String> {
        let retriever: Arc<dyn LegacyBlockRangeRootRetriever<S>> = self.repo.clone();
        let imp: Arc<dyn ChainDataImporter> = self.importer.clone();
        let importer: Arc<dyn TransactionsImporter> = Arc::new(AggregatorChainDataImporter::new(imp));
        let b = CardanoTransactionsSignableBuilder::<S>::new(importer, retriever);
        let r = self.rt.block_on(async move { b.compute_protocol_message(BlockNumber(u)).await });
        r.ok().and_then(|m| m.get_message_part(&ProtocolMessagePartKey::CardanoTransactionsMerkleRoot).cloned())
    }
    fn close(self) {
        let p = self.db.clone();
        drop(self);
        for ext in ["", "-wal", "-shm", "-journal"] {
            let _ = std::fs::remove_file(format!("{}{}", p.display(), ext));
        }
    }
}

fn err_class(t: &str) -> &'static str {
    if std::env::var("C11B_DEBUG").is_ok() { eprintln!("ERR: {}", t.chars().take(700).collect::<String>()); }
    if t.contains("timed out") { "timeout" }
    else if t.contains("non-existing key") { "nokey" }
    else if t.contains("same root") { "root" }
    else { "other" }
}

/// a v2 answer as the client holds it: items (hash, block hash, block number, slot), the proof (leaves of the
/// items, the proof for Lean, its root), the not-certified list, and the verdict of the REAL client-side verifier
struct V2Msg {
    items: Vec<(String, String, u64, u64)>,
    proof: Option<(Vec<Vec<u8>>, MP, String)>,
    nc: Vec<String>,
    latest: u64,
    offset: u64,
    verified: Result<(String, Vec<(String, String, u64, u64)>), String>,
}
impl V2Msg {
    fn of_tx(m: &CardanoTransactionsProofsV2Message) -> V2Msg {
        let items: Vec<(String, String, u64, u64)> = m.certified_transactions.as_ref().map(|p| p.items.iter().map(|t| (t.transaction_hash.clone(), t.block_hash.clone(), *t.block_number, *t.slot_number)).collect()).unwrap_or_default();
        let proof = m.certified_transactions.as_ref().map(|p| {
            let pr = ProtocolMkProof::from_bytes_hex(&p.proof).unwrap();
            let leaves = p.items.iter().map(|t| CardanoTransaction::from(t.clone()).into_mk_tree_node().to_vec()).collect();
            (leaves, MP::from_value(&serde_json::to_value(&*pr).unwrap()), pr.compute_root().to_hex())
        });
        let verified = m.verify().map(|v| (v.certified_merkle_root().to_string(), v.certified_transactions().iter().map(|t| (t.transaction_hash.clone(), t.block_hash.clone(), *t.block_number, *t.slot_number)).collect())).map_err(|e| format!("{:?}", e));
        V2Msg { items, proof, nc: m.non_certified_transactions.clone(), latest: *m.latest_block_number, offset: *m.security_parameter, verified }
    }
    fn of_blk(m: &CardanoBlocksProofsMessage) -> V2Msg {
        let items: Vec<(String, String, u64, u64)> = m.certified_blocks.as_ref().map(|p| p.items.iter().map(|t| (t.block_hash.clone(), t.block_hash.clone(), *t.block_number, *t.slot_number)).collect()).unwrap_or_default();
        let proof = m.certified_blocks.as_ref().map(|p| {
            let pr = ProtocolMkProof::from_bytes_hex(&p.proof).unwrap();
            let leaves = p.items.iter().map(|t| CardanoBlock::from(t.clone()).into_mk_tree_node().to_vec()).collect();
            (leaves, MP::from_value(&serde_json::to_value(&*pr).unwrap()), pr.compute_root().to_hex())
        });
        let verified = m.verify().map(|v| (v.certified_merkle_root().to_string(), v.certified_blocks().iter().map(|t| (t.block_hash.clone(), t.block_hash.clone(), *t.block_number, *t.slot_number)).collect())).map_err(|e| format!("{:?}", e));
        V2Msg { items, proof, nc: m.non_certified_blocks.clone(), latest: *m.latest_block_number, offset: *m.security_parameter, verified }
    }
}

/// the hashes as a client may send them: any order, repetitions (the route sorts and de-duplicates)
fn wire(hashes: &[String]) -> String {
    let mut w: Vec<String> = hashes.iter().rev().cloned().collect();
    if let Some(f) = hashes.first() { w.push(f.clone()); }
    w.join(",")
}

// ------------------------------------------------------------------------------------------ histories

#[derive(Clone, Debug)]
enum Op {
    Grow(Vec<Blk>),
    Imp(u64),
    Sign2(u64),
    SignL(u64),
    Cache2(u64),
    CacheL(u64),
    Ptx(u64, Vec<u64>),
    Pblk(u64, Vec<u64>),
    Pl(u64, Vec<u64>),
}

fn op_line(op: &Op) -> String {
    let l = |v: &Vec<u64>| hutil::list(v);
    match op {
        Op::Grow(bs) => format!("(grow,[{}])", bs.iter().map(|b| format!("({},{},{},{})", b.number, b.id, b.slot, l(&b.txs))).collect::<Vec<_>>().join(",")),
        Op::Imp(n) => format!("(imp,{})", n),
        Op::Sign2(u) => format!("(sign2,{})", u),
        Op::SignL(u) => format!("(signl,{})", u),
        Op::Cache2(u) => format!("(cache2,{})", u),
        Op::CacheL(u) => format!("(cachel,{})", u),
        Op::Ptx(u, r) => format!("(ptx,{},{})", u, l(r)),
        Op::Pblk(u, r) => format!("(pblk,{},{})", u, l(r)),
        Op::Pl(u, r) => format!("(pl,{},{})", u, l(r)),
    }
}

struct Gen<'a> {
    rng: &'a mut Rng,
    used: BTreeSet<u64>,
    next_number: u64,
}
impl Gen<'_> {
    fn fresh(&mut self) -> u64 {
        loop {
            let x = (self.rng.u64() >> 2) | 1;
            if self.used.insert(x) {
                return x;
            }
        }
    }
    fn blocks(&mut self, n: u64, max_tx: u64) -> Vec<Blk> {
        let mut out = vec![];
        for _ in 0..n {
            // block numbers are contiguous on Cardano; the store does not require it — an occasional gap
            if self.rng.chance(1, 14) {
                self.next_number += self.rng.range(1, 20);
            }
            let number = self.next_number;
            self.next_number += 1;
            let id = self.fresh();
            let mut txs: Vec<u64> = (0..self.rng.below(max_tx + 1)).map(|_| self.fresh()).collect();
            txs.sort();
            out.push(Blk { number, id, slot: number * 20 + self.rng.below(20), txs });
        }
        out
    }
}

fn beacon2(rng: &mut Rng, tip: u64) -> u64 {
    if tip == 0 {
        return 0;
    }
    let base = rng.below(tip + 1);
    match rng.below(6) {
        0 => base / 15 * 15,                       // first block of a range
        1 => (base / 15 * 15 + 14).min(tip),       // last block of a range
        2 => base / 5 * 5,                         // a signing step smaller than a range
        3 => tip,
        _ => base,
    }
}
fn beacon_l(rng: &mut Rng, tip: u64) -> Option<u64> {
    // legacy beacons are the last block of a range (C17): 15k - 1, and never above the chain's tip
    // (a target above the tip is C13's business: known finding partial-range-root)
    let kmax = (tip + 1) / 15;
    if kmax == 0 { None } else { Some(rng.range(1, kmax) * 15 - 1) }
}

fn request(rng: &mut Rng, chain: &[Blk], want_tx: bool, u: u64, gen_absent: &mut dyn FnMut() -> u64) -> Vec<u64> {
    let mut req = vec![];
    let n = match rng.below(10) { 0 => 0, 1 | 2 => 1, _ => rng.range(2, 7) };
    let txs: Vec<(u64, u64)> = chain.iter().flat_map(|b| b.txs.iter().map(move |t| (*t, b.number))).collect();
    let blks: Vec<(u64, u64)> = chain.iter().map(|b| (b.id, b.number)).collect();
    let (mine, other) = if want_tx { (&txs, &blks) } else { (&blks, &txs) };
    for _ in 0..n {
        let below: Vec<&(u64, u64)> = mine.iter().filter(|x| x.1 <= u).collect();
        let above: Vec<&(u64, u64)> = mine.iter().filter(|x| x.1 > u).collect();
        match rng.below(12) {
            0 | 1 if !above.is_empty() => {
                // above the beacon; biased to the beacon's own range
                let near: Vec<&&(u64, u64)> = above.iter().filter(|x| x.1 / 15 == u / 15).collect();
                if !near.is_empty() && rng.chance(2, 3) { req.push(near[rng.below(near.len() as u64) as usize].0) } else { req.push(above[rng.below(above.len() as u64) as usize].0) }
            }
            2 => req.push(gen_absent()),
            3 if !other.is_empty() => req.push(other[rng.below(other.len() as u64) as usize].0), // a hash of the other kind
            4 if !req.is_empty() => { let d = req[rng.below(req.len() as u64) as usize]; req.push(d) } // duplicate
            5 if !below.is_empty() => {
                // in the beacon's own (possibly partial) range
                let near: Vec<&&(u64, u64)> = below.iter().filter(|x| x.1 / 15 == u / 15).collect();
                if !near.is_empty() { req.push(near[rng.below(near.len() as u64) as usize].0) } else { req.push(below[rng.below(below.len() as u64) as usize].0) }
            }
            _ if !below.is_empty() => req.push(below[rng.below(below.len() as u64) as usize].0),
            _ => req.push(gen_absent()),
        }
    }
    req
}

fn history(rng: &mut Rng, thorough: bool, allow_timeout: bool) -> Vec<Op> {
    let mut g = Gen { rng, used: BTreeSet::new(), next_number: 0 };
    if g.rng.chance(1, 3) {
        g.next_number = g.rng.below(40);
    }
    let mut ops = vec![];
    let mut chain: Vec<Blk> = vec![];
    let max_tx = g.rng.range(1, 3);
    let first = g.rng.range(8, if thorough { 90 } else { 50 });
    let bs = g.blocks(first, max_tx);
    chain.extend(bs.clone());
    ops.push(Op::Grow(bs));
    let rounds = g.rng.range(1, if thorough { 5 } else { 3 });
    let mut cached2: Option<u64> = None;
    let mut cachedl: Option<u64> = None;
    if allow_timeout {
        // a request before any cache computation: the pool is empty (one second of real time each)
        let tip = chain.last().unwrap().number;
        ops.push(Op::Imp(tip));
        let u = beacon2(g.rng, tip);
        let mut absent = || 0u64;
        let r = request(&mut Rng::new(g.rng.u64()), &chain, true, u, &mut absent);
        ops.push(if g.rng.bool() { Op::Ptx(u, r) } else { Op::Pl(u, r) });
    }
    for _ in 0..rounds {
        let tip = chain.last().unwrap().number;
        // the node may have imported ahead of the beacons (preloading), or not at all
        match g.rng.below(5) {
            0 => ops.push(Op::Imp(tip)),
            1 => ops.push(Op::Imp(g.rng.below(tip + 1))),
            _ => {}
        }
        let u2 = beacon2(g.rng, tip);
        let ul = beacon_l(g.rng, tip);
        let flow = g.rng.below(24);
        // certification flow: the signable is computed (import to the beacon), later the artifact builder computes the cache
        if flow != 0 {
            ops.push(Op::Sign2(u2));
        }
        if let (true, Some(ul)) = (flow != 1, ul) {
            ops.push(Op::SignL(ul));
        }
        if g.rng.chance(1, 8) {
            // another signed entity type's beacon makes the node import further before the certificate is issued
            ops.push(Op::Imp((u2 + g.rng.range(1, 40)).min(tip)));
        }
        // (a round without cache computation keeps the previous cache: stale for the new beacon)
        if flow != 2 || cached2.is_none() {
            ops.push(Op::Cache2(u2));
            cached2 = Some(u2);
        }
        if let (true, Some(ul)) = (flow != 3 || cachedl.is_none(), ul) {
            ops.push(Op::CacheL(ul));
            cachedl = Some(ul);
        }
        let nreq = g.rng.range(3, if thorough { 9 } else { 6 });
        for q in 0..nreq {
            // between requests the chain grows and the node imports (the next beacon's signable is being prepared)
            if q > 0 && g.rng.chance(1, 5) {
                let n = g.rng.range(1, 25);
                let bs = g.blocks(n, max_tx);
                chain.extend(bs.clone());
                ops.push(Op::Grow(bs));
                if g.rng.chance(2, 3) {
                    let tip = chain.last().unwrap().number;
                    ops.push(Op::Imp(tip - g.rng.below(tip.min(20) + 1)));
                }
            }
            let tip = chain.last().unwrap().number;
            let mut kind = g.rng.below(3);
            if kind == 2 && cachedl.is_none() { kind = 0; }
            let cached = if kind == 2 { cachedl } else { cached2 };
            let mut u = cached.unwrap_or(u2);
            match g.rng.below(12) {
                0 => u = u.saturating_sub(g.rng.range(1, 30)),                 // an older beacon than the cache's
                1 => u = (u + g.rng.range(1, 30)).min(tip + 5),                // a newer one
                _ => {}
            }
            if kind == 2 && g.rng.chance(9, 10) {
                u = (u + 1) / 15 * 15; // keep legacy beacons at range boundaries (15k - 1) …
                u = u.max(15) - 1;
            }
            let mut fork = Rng::new(g.rng.u64());
            let mut absent_rng = Rng::new(g.rng.u64());
            let mut absent = || (absent_rng.u64() >> 2) & !1; // even: never a stored identifier (those are odd)
            let r = request(&mut fork, &chain, kind != 1, u, &mut absent);
            ops.push(match kind { 0 => Op::Ptx(u, r), 1 => Op::Pblk(u, r), _ => Op::Pl(u, r) });
        }
        // next round: the chain has moved on
        let n = g.rng.range(3, 40);
        let bs = g.blocks(n, max_tx);
        chain.extend(bs.clone());
        ops.push(Op::Grow(bs));
    }
    ops
}

// ------------------------------------------------------------------------------------------ running one history

#[derive(Default)]
struct RootIds {
    seen: Vec<String>,
}
impl RootIds {
    fn id(&mut self, r: &str) -> usize {
        if let Some(i) = self.seen.iter().position(|x| x == r) {
            i
        } else {
            self.seen.push(r.to_string());
            self.seen.len() - 1
        }
    }
}

struct Ctx {
    /// beacon -> (root signed, op index)
    signed2: BTreeMap<u64, (String, usize)>,
    signedl: BTreeMap<u64, (String, usize)>,
    /// (beacon of the cache, op index of the cache computation)
    cache2: Option<(u64, usize)>,
    cachel: Option<(u64, usize)>,
    /// op indices of imports / signables with their targets
    imports: Vec<(usize, u64)>,
}

struct Failure {
    class: &'static str,
    what: String,
}

/// certification flow for the beacon: the signable was computed for it, the cache afterwards, and the node did not
/// import beyond the beacon in between
/// returns (the beacon lay strictly inside a block range whose root the node had stored when the cache was computed —
/// the class of the known finding —, the root signed for the beacon)
fn flow_ok(signed: &BTreeMap<u64, (String, usize)>, cache: Option<(u64, usize)>, imports: &[(usize, u64)], u: u64) -> Option<(bool, String)> {
    let (c, ci) = cache?;
    if c != u {
        return None;
    }
    let (root, si) = signed.get(&u)?;
    if *si > ci {
        return None;
    }
    let inside = u % 15 != 0 && u % 15 != 14 && imports.iter().any(|(i, t)| *i < ci && *t >= u / 15 * 15 + 14);
    Some((inside, root.clone()))
}

#[allow(clippy::too_many_arguments)]
fn run_history(rt: &Arc<tokio::runtime::Runtime>, template: &Path, scratch: &Path, hidx: usize, ops: &[Op], batch: usize, pool2: usize, pooll: usize, sink: &mut Sink, tag: &str, only: Option<usize>, front: Option<&front::Front>) {
    let chain = Arc::new(Mutex::new(vec![]));
    let node = Node::new(rt.clone(), template, scratch.join(format!("h{}.sqlite3", hidx)), chain.clone(), batch, pool2, pooll);
    if let Some(f) = front {
        *f.prover2.0.lock().unwrap() = Some(node.prover2.clone());
        *f.proverl.0.lock().unwrap() = Some(node.proverl.clone());
        *f.entities.v2.lock().unwrap() = None;
        *f.entities.legacy.lock().unwrap() = None;
    }
    let mut outs: Vec<String> = vec![];
    let mut r2 = RootIds::default();
    let mut rl = RootIds::default();
    let mut ctx = Ctx { signed2: BTreeMap::new(), signedl: BTreeMap::new(), cache2: None, cachel: None, imports: vec![] };
    let mut proof_cases: Vec<(String, String, String)> = vec![]; // tag, request, implementation output
    let mut fails: Vec<(usize, Failure)> = vec![];
    // the oracle: what the node has been told to store (the importer takes the blocks above the highest stored one
    // and at or below the target, as the node's chain is at that moment)
    let mut stored: Vec<Blk> = vec![];
    let oracle_import = |stored: &mut Vec<Blk>, chain: &Arc<Mutex<Vec<Blk>>>, n: u64| {
        let hi = stored.last().map(|b| b.number);
        if hi.map(|h| h < n).unwrap_or(true) {
            let c = chain.lock().unwrap();
            let add: Vec<Blk> = c.iter().filter(|b| hi.map(|h| b.number > h).unwrap_or(true) && b.number <= n).cloned().collect();
            stored.extend(add);
        }
    };

    for (oi, op) in ops.iter().enumerate() {
        match op {
            Op::Grow(bs) => {
                chain.lock().unwrap().extend(bs.iter().cloned());
                outs.push("-".into());
            }
            Op::Imp(n) => {
                let r = node.import(*n);
                oracle_import(&mut stored, &chain, *n);
                ctx.imports.push((oi, *n));
                let (b, a, l) = node.counts();
                outs.push(if r.is_ok() { format!("s{},{},{}", b, a, l) } else { "err".into() });
            }
            Op::Sign2(u) | Op::SignL(u) => {
                let v2 = matches!(op, Op::Sign2(_));
                let root = if v2 { node.sign2(*u) } else { node.signl(*u) };
                oracle_import(&mut stored, &chain, *u);
                ctx.imports.push((oi, *u));
                match root {
                    Some(r) => {
                        if v2 { outs.push(format!("R{}", r2.id(&r))); ctx.signed2.insert(*u, (r, oi)); } else { outs.push(format!("L{}", rl.id(&r))); ctx.signedl.insert(*u, (r, oi)); }
                    }
                    None => {
                        outs.push("err".into());
                        if v2 { ctx.signed2.remove(u); } else { ctx.signedl.remove(u); }
                    }
                }
            }
            Op::Cache2(u) => {
                let p = node.prover2.clone();
                let u_ = *u;
                let r = rt.block_on(async move { p.compute_cache(BlockNumber(u_)).await });
                outs.push(if r.is_ok() { "ok".into() } else { "err".into() });
                if r.is_ok() { ctx.cache2 = Some((*u, oi)); }
            }
            Op::CacheL(u) => {
                let p = node.proverl.clone();
                let u_ = *u;
                let r = rt.block_on(async move { p.compute_cache(BlockNumber(u_)).await });
                outs.push(if r.is_ok() { "ok".into() } else { "err".into() });
                if r.is_ok() { ctx.cachel = Some((*u, oi)); }
            }
            Op::Ptx(u, req) | Op::Pblk(u, req) => {
                let is_tx = matches!(op, Op::Ptx(_, _));
                let hashes: Vec<String> = req.iter().map(|x| h64(*x)).collect();
                let offset = 7u64;
                let what_req = format!("op {} {}{}", oi, op_line(op), if front.is_some() { " over HTTP" } else { "" });
                // ---- the answer as a client receives it ---------------------------------------------------------------
                let got: Result<V2Msg, String> = match front {
                    // the real service, then the conversion and partition of the HTTP handler (replicated)
                    None => {
                        let p = node.prover2.clone();
                        let (u_, hs) = (*u, hashes.clone());
                        if is_tx {
                            match rt.block_on(async move { p.compute_transactions_proofs(BlockNumber(u_), &hs).await }) {
                                Err(e) => Err(err_class(&format!("{:?}", e)).to_string()),
                                Ok(r) => {
                                    let certified: Vec<String> = r.as_ref().map(|sp| sp.transactions_hashes().cloned().collect()).unwrap_or_default();
                                    let nc: Vec<String> = hashes.iter().filter(|h| !certified.contains(h)).cloned().collect();
                                    let part: Option<MkSetProofMessagePart<CardanoTransactionMessagePart>> = r.map(|sp| sp.try_into().unwrap());
                                    Ok(V2Msg::of_tx(&CardanoTransactionsProofsV2Message::new("cert", part, nc, BlockNumber(*u), BlockNumberOffset(offset))))
                                }
                            }
                        } else {
                            match rt.block_on(async move { p.compute_blocks_proofs(BlockNumber(u_), &hs).await }) {
                                Err(e) => Err(err_class(&format!("{:?}", e)).to_string()),
                                Ok(r) => {
                                    let certified: Vec<String> = r.as_ref().map(|sp| sp.blocks_hashes().cloned().collect()).unwrap_or_default();
                                    let nc: Vec<String> = hashes.iter().filter(|h| !certified.contains(h)).cloned().collect();
                                    let part: Option<MkSetProofMessagePart<CardanoBlockMessagePart>> = r.map(|sp| sp.try_into().unwrap());
                                    Ok(V2Msg::of_blk(&CardanoBlocksProofsMessage::new("cert", part, nc, BlockNumber(*u), BlockNumberOffset(offset))))
                                }
                            }
                        }
                    }
                    // the real route: validator, sanitising, service, conversion, partition, JSON
                    Some(f) => {
                        *f.entities.v2.lock().unwrap() = Some((*u, offset));
                        let (status, body) = f.get(rt, &format!("/proof/v2/{}?{}={}", if is_tx { "cardano-transaction" } else { "cardano-block" }, if is_tx { "transaction_hashes" } else { "block_hashes" }, wire(&hashes)));
                        if status == 200 {
                            if is_tx { serde_json::from_str::<CardanoTransactionsProofsV2Message>(&body).map(|m| V2Msg::of_tx(&m)).map_err(|e| format!("json:{}", e)) }
                            else { serde_json::from_str::<CardanoBlocksProofsMessage>(&body).map(|m| V2Msg::of_blk(&m)).map_err(|e| format!("json:{}", e)) }
                        } else if status == 500 { Err(err_class(&body).to_string()) } else { Err(format!("http{}", status)) }
                    }
                };
                let non_certified: Vec<u64> = match &got { Ok(m) => m.nc.iter().map(|h| id_of(h).unwrap_or(0)).collect(), Err(_) => req.clone() };
                // ---- canonical output for K ------------------------------------------------------------------------
                let mut canon: Vec<(u64, u64, u64, u64)> = match &got { Ok(m) => m.items.iter().map(|(h, bh, n, s)| (id_of(h).unwrap_or(0), id_of(bh).unwrap_or(0), *n, *s)).collect(), Err(_) => vec![] };
                canon.sort_by_key(|c| (c.2, c.0));
                let items_txt = canon.iter().map(|c| if is_tx { format!("({},{},{},{})", c.0, c.1, c.2, c.3) } else { format!("({},{},{})", c.0, c.2, c.3) }).collect::<Vec<_>>().join(",");
                let outcome = match &got { Err(c) => format!("err:{}", c), Ok(m) if m.proof.is_none() => "none".to_string(), Ok(_) => "ok".to_string() };
                match &got {
                    Ok(V2Msg { proof: Some((_, _, root)), .. }) => outs.push(format!("ok[{}]nc{}R{}", items_txt, hutil::list(&non_certified), r2.id(root))),
                    _ => outs.push(format!("{}nc{}", outcome, hutil::list(&non_certified))),
                }
                // ---- the oracle -------------------------------------------------------------------------------------
                let mut expected: Vec<(u64, u64, u64, u64)> = vec![];
                for b in stored.iter().filter(|b| b.number <= *u) {
                    if is_tx {
                        for t in &b.txs { if req.contains(t) { expected.push((*t, b.id, b.number, b.slot)); } }
                    } else if req.contains(&b.id) {
                        expected.push((b.id, b.id, b.number, b.slot));
                    }
                }
                expected.sort_by_key(|c| (c.2, c.0));
                let flow = flow_ok(&ctx.signed2, ctx.cache2, &ctx.imports, *u);
                if let Ok(m) = &got {
                    if m.latest != *u || m.offset != offset {
                        fails.push((oi, Failure { class: "response-beacon", what: format!("{}: the response announces block number {} / offset {}, the last certificate signed {} / {}", what_req, m.latest, m.offset, u, offset) }));
                    }
                }
                if let Ok(V2Msg { proof: Some((leaves, mp, root)), verified, .. }) = &got {
                    // (K b) the proof through the Lean verifier
                    let out = match verified { Ok((r, _)) => format!("ok {}", r), Err(e) => if e.starts_with("InvalidSetProof") { "err invalid".into() } else { "err other".to_string() } };
                    proof_cases.push((if is_tx { "proof-v2-tx".into() } else { "proof-v2-block".into() }, format!("c11.v2 part=([{}],{})", leaves.iter().map(|l| hex(l)).collect::<Vec<_>>().join(","), mp.line()), out));
                    match verified {
                        Err(e) => fails.push((oi, Failure { class: "proof-rejected", what: format!("{}: the produced proof is rejected by the client-side verifier: {}", what_req, e.chars().take(160).collect::<String>()) })),
                        Ok((vroot, vitems)) => {
                            if vroot != root { fails.push((oi, Failure { class: "proof-rejected", what: format!("{}: verifier root {} is not the proof's {}", what_req, vroot, root) })); }
                            // every item the CLIENT ends up reporting as certified is stored at or below the beacon, with these very fields
                            for (h, bh, n, s) in vitems {
                                let ok = stored.iter().any(|b| b.number == *n && b.slot == *s && b.number <= *u && h64(b.id) == *bh && (if is_tx { id_of(h).map(|t| b.txs.contains(&t)).unwrap_or(false) } else { true }));
                                if !ok {
                                    let class = if *n > *u { "certified-above-beacon" } else { "certified-not-stored" };
                                    fails.push((oi, Failure { class, what: format!("{}: {} {} (block {}, slot {}) is reported as certified but the store holds no such item at or below block {}", what_req, if is_tx { "transaction" } else { "block" }, h, n, s, u) }));
                                    break;
                                }
                            }
                        }
                    }
                    // the certified root is the one signed for the beacon of the cache
                    if let Some((c, _)) = ctx.cache2 {
                        match flow_ok(&ctx.signed2, ctx.cache2, &ctx.imports, c) {
                            Some((inside, sroot)) if &sroot != root => {
                                let class = if inside { "C11-beacon-inside-stored-range" } else { "root-not-signed" };
                                fails.push((oi, Failure { class, what: format!("{}: the proof's Merkle root {} is not the root {} the signable builder signed for beacon {} (the beacon the cache was computed for)", what_req, root, sroot, c) }));
                            }
                            _ => {}
                        }
                    }
                }
                if got.is_ok() {
                    if canon != expected {
                        let missing: Vec<_> = expected.iter().filter(|e| !canon.contains(e)).collect();
                        let extra: Vec<_> = canon.iter().filter(|e| !expected.contains(e)).collect();
                        let class = if !extra.is_empty() { if extra.iter().any(|e| e.2 > *u) { "certified-above-beacon" } else { "certified-not-stored" } } else { "certified-omitted" };
                        fails.push((oi, Failure { class, what: format!("{}: certified set differs from (requested ∩ stored at or below {}): missing {:?}, extra {:?}", what_req, u, missing, extra) }));
                    }
                    // reported as not certified: exactly the requested ones that are not certified (each once over HTTP)
                    let mut nc_expected: Vec<u64> = req.iter().filter(|x| !expected.iter().any(|e| e.0 == **x)).cloned().collect();
                    let mut nc_got = non_certified.clone();
                    if front.is_some() { nc_expected.sort(); nc_expected.dedup(); nc_got.sort(); }
                    if nc_got != nc_expected {
                        let class = if non_certified.iter().any(|x| expected.iter().any(|e| e.0 == *x)) { "certified-omitted" } else { "non-certified-wrong" };
                        fails.push((oi, Failure { class, what: format!("{}: reported as not certified {:?}, expected {:?}", what_req, non_certified, nc_expected) }));
                    }
                }
                if let Some((inside, _)) = flow {
                    if let Err(c) = &got {
                        let class = if inside { "C11-beacon-inside-stored-range" } else { "request-refused" };
                        fails.push((oi, Failure { class, what: format!("{}: the prover fails ({}) although the beacon was signed and its cache computed", what_req, c) }));
                    }
                }
            }
            Op::Pl(u, req) => {
                let hashes: Vec<String> = req.iter().map(|x| h64(*x)).collect();
                let aligned = (*u + 1) % 15 == 0;
                let what_req = format!("op {} {}{}", oi, op_line(op), if front.is_some() { " over HTTP" } else { "" });
                let flow = flow_ok(&ctx.signedl, ctx.cachel, &ctx.imports, *u);
                let got: Result<CardanoTransactionsProofsMessage, String> = match front {
                    None => {
                        let p = node.proverl.clone();
                        let (u_, hs) = (*u, hashes.clone());
                        match rt.block_on(async move { p.compute_transactions_proofs(BlockNumber(u_), &hs).await }) {
                            Err(e) => Err(err_class(&format!("{:?}", e)).to_string()),
                            Ok(proofs) => {
                                // the REAL adapter of the HTTP layer: message parts and the not-certified list
                                let se = SignedEntity { signed_entity_id: "se".into(), signed_entity_type: SignedEntityType::CardanoTransactions(mithril_common::entities::Epoch(1), BlockNumber(*u)), certificate_id: "cert".into(), artifact: CardanoTransactionsSnapshot::new("root".into(), BlockNumber(*u)), created_at: Default::default() };
                                Ok(legacy_adapter::ToCardanoTransactionsProofsMessageAdapter::try_adapt(se, proofs, hashes.clone()).unwrap())
                            }
                        }
                    }
                    Some(f) => {
                        *f.entities.legacy.lock().unwrap() = Some(*u);
                        let (status, body) = f.get(rt, &format!("/proof/cardano-transaction?transaction_hashes={}", wire(&hashes)));
                        if status == 200 { serde_json::from_str::<CardanoTransactionsProofsMessage>(&body).map_err(|e| format!("json:{}", e)) } else if status == 500 { Err(err_class(&body).to_string()) } else { Err(format!("http{}", status)) }
                    }
                };
                match got {
                    Err(c) => {
                        outs.push(format!("err:{}nc{}", c, hutil::list(req)));
                        if flow.is_some() && aligned {
                            fails.push((oi, Failure { class: "request-refused", what: format!("{}: the legacy prover fails ({}) although the beacon was signed and its cache computed", what_req, c) }));
                        }
                    }
                    Ok(msg) => {
                        let certified: Vec<String> = msg.certified_transactions.iter().flat_map(|p| p.transactions_hashes.clone()).collect();
                        let nc: Vec<u64> = msg.non_certified_transactions.iter().map(|h| id_of(h).unwrap_or(0)).collect();
                        let cert_ids: Vec<u64> = certified.iter().map(|h| id_of(h).unwrap_or(0)).collect();
                        let expected: Vec<u64> = req.iter().filter(|x| stored.iter().any(|b| b.number <= *u && b.txs.contains(x))).cloned().collect();
                        if *msg.latest_block_number != *u {
                            fails.push((oi, Failure { class: "response-beacon", what: format!("{}: the response announces block number {}, the last certificate signed {}", what_req, msg.latest_block_number, u) }));
                        }
                        if msg.certified_transactions.is_empty() {
                            outs.push(format!("ok[]nc{}", hutil::list(&nc)));
                        } else {
                            let mut parts_txt = vec![];
                            let mut roots: Vec<String> = vec![];
                            for part in &msg.certified_transactions {
                                let proof = ProtocolMkProof::from_json_hex(&part.proof).unwrap();
                                roots.push(proof.compute_root().to_hex());
                                let mp = MP::from_value(&serde_json::to_value(&*proof).unwrap());
                                parts_txt.push(format!("([{}],{})", part.transactions_hashes.iter().map(|h| hex(h.as_bytes())).collect::<Vec<_>>().join(","), mp.line()));
                            }
                            outs.push(format!("ok{}nc{}L{}", hutil::list(&cert_ids), hutil::list(&nc), rl.id(&roots[0])));
                            let ver = msg.verify();
                            let out = match &ver {
                                Ok(v) => { let mut pm = mithril_common::entities::ProtocolMessage::new(); v.fill_protocol_message(&mut pm); format!("ok {}", pm.get_message_part(&ProtocolMessagePartKey::CardanoTransactionsMerkleRoot).unwrap()) }
                                Err(e) => { let t = format!("{:?}", e); if t.starts_with("InvalidSetProof") { "err invalid".into() } else if t.starts_with("NonMatchingMerkleRoot") { "err nonmatching".into() } else { "err other".to_string() } }
                            };
                            proof_cases.push(("proof-legacy".into(), format!("c11.legacy parts=[{}]", parts_txt.join(",")), out));
                            match &ver {
                                Err(e) => {
                                    fails.push((oi, Failure { class: "proof-rejected", what: format!("{}: the produced proof is rejected by the client-side verifier: {}", what_req, format!("{:?}", e).chars().take(160).collect::<String>()) }));
                                }
                                Ok(v) => {
                                    for h in v.certified_transactions() {
                                        let t = id_of(h).unwrap_or(0);
                                        match stored.iter().find(|b| b.txs.contains(&t)) {
                                            None => { fails.push((oi, Failure { class: "certified-not-stored", what: format!("{}: transaction {} reported as certified is not in the store", what_req, t) })); break; }
                                            Some(b) if b.number > *u => {
                                                // with a beacon inside a range the legacy scheme commits to the whole range (outside the contract: C17 makes legacy beacons range ends)
                                                if aligned { fails.push((oi, Failure { class: "certified-above-beacon", what: format!("{}: transaction {} of block {} reported as certified for beacon {}", what_req, t, b.number, u) })); break; }
                                            }
                                            _ => {}
                                        }
                                    }
                                }
                            }
                            if let Some((c, _)) = ctx.cachel {
                                if let Some((_, sroot)) = flow_ok(&ctx.signedl, ctx.cachel, &ctx.imports, c) {
                                    if sroot != roots[0] {
                                        fails.push((oi, Failure { class: "root-not-signed", what: format!("{}: the proof's Merkle root {} is not the root {} signed for beacon {}", what_req, roots[0], sroot, c) }));
                                    }
                                }
                            }
                        }
                        if aligned {
                            if cert_ids != expected {
                                let class = if cert_ids.iter().any(|c| !expected.contains(c)) { "certified-not-stored" } else { "certified-omitted" };
                                fails.push((oi, Failure { class, what: format!("{}: certified {:?} but (requested ∩ stored at or below {}) = {:?}", what_req, cert_ids, u, expected) }));
                            }
                            let nc_expected: Vec<u64> = req.iter().filter(|x| !expected.contains(x)).cloned().collect();
                            if nc != nc_expected {
                                fails.push((oi, Failure { class: "non-certified-wrong", what: format!("{}: reported as not certified {:?}, expected {:?}", what_req, nc, nc_expected) }));
                            }
                        }
                    }
                }
            }
        }
    }
    node.close();
    let req = format!("c11.history ops=[{}]", ops.iter().map(op_line).collect::<Vec<_>>().join(","));
    let i = sink.case(tag, &req, &outs.join(";"));
    if only.map(|o| o == i).unwrap_or(true) {
        for (_, f) in &fails {
            sink.sfail(i, f.class, &f.what, &req);
        }
    }
    for (t, r, o) in proof_cases {
        sink.case(&t, &r, &o);
    }
}

fn main() {
    let args = Args::parse();
    let mut rng = Rng::new(args.seed);
    let mut sink = Sink::new(&args);
    let rt = Arc::new(tokio::runtime::Builder::new_multi_thread().worker_threads(2).enable_all().build().unwrap());
    let scratch = std::env::temp_dir().join(format!("c11b-{}", std::process::id()));
    let _ = std::fs::remove_dir_all(&scratch);
    std::fs::create_dir_all(&scratch).unwrap();
    let template = scratch.join("template.sqlite3");
    make_template(&template);
    let nhist = if args.thorough() { 1500 } else { 160 };
    let only = args.only;

    // ---- fixed histories: the flows of the unit tests and of the documentation ------------------------------------------
    let mk = |n: u64, id: u64, txs: &[u64]| Blk { number: n, id, slot: n * 20, txs: txs.to_vec() };
    let fixed: Vec<(&str, Vec<Op>)> = vec![
        ("fixed-partial-last-range", vec![
            Op::Grow(vec![mk(30, 301, &[3011]), mk(48, 481, &[4811])]),
            Op::Sign2(48), Op::Cache2(48),
            Op::Grow(vec![mk(50, 501, &[5011])]), Op::Imp(50),
            Op::Ptx(48, vec![4811]), Op::Ptx(48, vec![3011]), Op::Pblk(48, vec![481, 501, 301]), Op::Ptx(48, vec![5011]),
        ]),
        ("fixed-legacy", vec![
            Op::Grow((0..40).map(|n| mk(n, 1000 + 2 * n + 1, &[20001 + 2 * n])).collect()),
            Op::SignL(29), Op::CacheL(29), Op::Pl(29, vec![20001, 20001 + 2 * 29, 20001 + 2 * 30, 4]), Op::Pl(29, vec![]), Op::Pl(29, vec![4]),
        ]),
    ];

    // replay (`--only`): every history is run again, the sink keeps the wanted case only
    let mut hidx = 0usize;
    let front = front::Front::new(&rt, &scratch);
    for (tag, ops) in &fixed {
        run_history(&rt, &template, &scratch, hidx, ops, 7, 1, 1, &mut sink, tag, only, None);
        hidx += 1;
    }
    for h in 0..nhist {
        let mut hr = Rng::new(rng.u64());
        let ops = history(&mut hr, args.thorough(), h % 20 == 7);
        let batch = hr.range(1, 30) as usize;
        let pool2 = hr.range(1, 3) as usize;
        let pooll = hr.range(1, 3) as usize;
        if h % 4 == 1 {
            // through the REAL HTTP route: the service receives the hashes sorted and de-duplicated, never an empty list
            let ops: Vec<Op> = ops.into_iter().map(|op| {
                let clean = |r: Vec<u64>| -> Vec<u64> { let mut r = r; r.sort(); r.dedup(); if r.is_empty() { r.push(2 * (h as u64 + 1)); } r };
                match op { Op::Ptx(u, r) => Op::Ptx(u, clean(r)), Op::Pblk(u, r) => Op::Pblk(u, clean(r)), Op::Pl(u, r) => Op::Pl(u, clean(r)), o => o }
            }).collect();
            run_history(&rt, &template, &scratch, hidx, &ops, batch, pool2, pooll, &mut sink, "http-history", only, Some(&front));
        } else {
            run_history(&rt, &template, &scratch, hidx, &ops, batch, pool2, pooll, &mut sink, if h % 2 == 0 { "history-even" } else { "history-odd" }, only, None);
        }
        hidx += 1;
    }
    // ---- witness of the known finding, replayed on the real services every run -------------------------------------------
    {
        let chain = Arc::new(Mutex::new((0..50u64).map(|n| mk(n, 2 * n + 1, &[100_001 + 2 * n])).collect::<Vec<_>>()));
        let node = Node::new(rt.clone(), &template, scratch.join("witness.sqlite3"), chain, 10, 1, 1);
        node.import(49).unwrap(); // the node imported ahead of the beacon: the root of range [30,45[ is stored
        let signed = node.sign2(35);
        let p = node.prover2.clone();
        rt.block_on(async { p.compute_cache(BlockNumber(35)).await }).unwrap();
        let p = node.prover2.clone();
        let inside = rt.block_on(async { p.compute_transactions_proofs(BlockNumber(35), &[h64(100_001 + 2 * 33)]).await });
        let p = node.prover2.clone();
        let below = rt.block_on(async { p.compute_transactions_proofs(BlockNumber(35), &[h64(100_001 + 2 * 20)]).await });
        let refused = inside.as_ref().err().map(|e| err_class(&format!("{:?}", e)) == "root").unwrap_or(false);
        let below_ok = below.as_ref().ok().and_then(|o| o.as_ref().map(|p| Some(p.merkle_root()) == signed)).unwrap_or(false);
        sink.witness("C11-beacon-inside-stored-range", refused && below_ok, &format!(
            "blocks 0..49 imported, beacon 35 signed (root of the whole range [30,45[ is stored and signed), cache computed for 35: proof of the transaction of block 33 -> {}; of block 20 -> {}",
            match &inside { Ok(Some(_)) => "proof".to_string(), Ok(None) => "none".into(), Err(e) => format!("refused ({})", err_class(&format!("{:?}", e))) },
            if below_ok { "proof under the signed root" } else { "no proof under the signed root" }));
        node.close();
    }
    let _ = std::fs::remove_dir_all(&scratch);
    sink.finish();
}
