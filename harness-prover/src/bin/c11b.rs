fn main() {}
