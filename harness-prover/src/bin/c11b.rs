//! C11 harness, aggregator layer: histories through the REAL `MithrilProverService` (prover.rs: blocks and
//! transactions of the blocks-and-transactions tree) and the REAL `LegacyMithrilProverService`
//! (prover_legacy.rs) over the REAL sqlite transaction store (`CardanoTransactionRepository` behind the
//! aggregator's `AggregatorCardanoChainDataRepository`, file database with the real migrations), filled by the
//! REAL `CardanoChainDataImporter` (blocks, block-range roots of both tables) from a scripted block scanner,
//! with the REAL `ResourcePool`-backed Merkle-map cache (`compute_cache`).
//!
//! K  (a) one request per history (`c11.history`): the chain, imports, signed beacons, cache computations and
//!        proof requests, versus the Lean model `Prover.run`: per request the outcome class, the items
//!        reported as certified, the items reported as not certified, and the identity of the Merkle root
//!        (ordinal of first appearance among the roots signed / proved in the history);
//!    (b) one request per produced proof (`c11.v2` / `c11.legacy`): the proof as the client receives it,
//!        replayed through the Lean verifier model (verdict + root, Blake2s in Lean).
//! S  real vs real, with the harness's own copy of the chain as the oracle: every produced answer verifies
//!    with the real client-side verifier; every reported-certified item is stored at or below the beacon with
//!    exactly these fields; every requested item stored at or below the beacon is certified, none of the
//!    reported non-certified ones is; the certified root is the root the real signable builder signed for the
//!    beacon the cache was computed for; in the certification flow (sign, cache, ask — same beacon) no
//!    request is refused.
#[path = "../../../harness/core/src/common/mkjson.rs"]
mod mkjson;
#[allow(dead_code)]
#[path = "/repo/mithril-aggregator/src/message_adapters/to_cardano_transactions_proof_message.rs"]
mod legacy_adapter;

use std::collections::{BTreeMap, BTreeSet};
use std::path::{Path, PathBuf};
use std::sync::{Arc, Mutex};

use async_trait::async_trait;
use hutil::{hex, Args, Rng, Sink};
use mithril_aggregator::database::repository::AggregatorCardanoChainDataRepository;
use mithril_aggregator::services::{
    AggregatorChainDataImporter, LegacyMithrilProverService, LegacyProverService, MithrilProverService, ProverService,
};
use mithril_cardano_node_chain::chain_importer::{CardanoChainDataImporter, ChainDataImporter};
use mithril_cardano_node_chain::chain_scanner::{BlockScanner, BlockStreamer, ChainScannedBlocks};
use mithril_cardano_node_chain::entities::{RawCardanoPoint, ScannedBlock};
use mithril_common::crypto_helper::{MKTreeStoreInMemory, ProtocolMkProof};
use mithril_common::entities::{
    BlockNumber, BlockNumberOffset, CardanoBlock, CardanoTransaction, CardanoTransactionsSnapshot, IntoMKTreeNode,
    ProtocolMessagePartKey, SignedEntityType, SlotNumber,
};
use mithril_common::messages::{
    CardanoBlockMessagePart, CardanoBlocksProofsMessage, CardanoTransactionMessagePart, CardanoTransactionsProofsMessage,
    CardanoTransactionsProofsV2Message, MkSetProofMessagePart,
};
use mithril_common::signable_builder::{
    BlockRangeRootRetriever, BlocksTransactionsImporter, CardanoBlocksTransactionsSignableBuilder,
    CardanoTransactionsSignableBuilder, LegacyBlockRangeRootRetriever, SignableBuilder, SignedEntity, TransactionsImporter,
};
use mithril_common::StdResult;
use mithril_persistence::database::cardano_transaction_migration;
use mithril_persistence::sqlite::{ConnectionBuilder, ConnectionOptions};
use mkjson::MP;

type S = MKTreeStoreInMemory;

fn logger() -> slog::Logger {
    slog::Logger::root(slog::Discard, slog::o!())
}

// ------------------------------------------------------------------------------------------ the chain

#[derive(Clone, Debug, PartialEq)]
struct Blk {
    number: u64,
    id: u64,
    slot: u64,
    txs: Vec<u64>,
}

fn h64(id: u64) -> String {
    format!("{:064x}", id)
}
fn id_of(h: &str) -> Option<u64> {
    if h.len() == 64 && h[..48].bytes().all(|c| c == b'0') { u64::from_str_radix(&h[48..], 16).ok() } else { None }
}
fn hash_bytes(id: u64) -> Vec<u8> {
    let mut v = vec![0u8; 24];
    v.extend_from_slice(&id.to_be_bytes());
    v
}

/// the node as the importer sees it: blocks after `from` (by slot) up to `until`, in batches
struct Scanner {
    chain: Arc<Mutex<Vec<Blk>>>,
    batch: usize,
}
struct Streamer {
    batches: std::collections::VecDeque<Vec<ScannedBlock>>,
    last: Option<RawCardanoPoint>,
}
#[async_trait]
impl BlockScanner for Scanner {
    async fn scan(&self, from: Option<RawCardanoPoint>, until: BlockNumber) -> StdResult<Box<dyn BlockStreamer>> {
        let chain = self.chain.lock().unwrap();
        let from_slot = from.as_ref().map(|p| *p.slot_number);
        let sel: Vec<&Blk> = chain.iter().filter(|b| from_slot.map(|s| b.slot > s).unwrap_or(true) && b.number <= *until).collect();
        let last = sel.last().map(|b| RawCardanoPoint::new(SlotNumber(b.slot), hash_bytes(b.id))).or(from);
        let batches = sel
            .chunks(self.batch.max(1))
            .map(|c| c.iter().map(|b| ScannedBlock::new(hash_bytes(b.id), BlockNumber(b.number), SlotNumber(b.slot), b.txs.iter().map(|t| h64(*t)).collect::<Vec<_>>())).collect())
            .collect();
        Ok(Box::new(Streamer { batches, last }))
    }
}
#[async_trait]
impl BlockStreamer for Streamer {
    async fn poll_next(&mut self) -> StdResult<Option<ChainScannedBlocks>> {
        Ok(self.batches.pop_front().map(ChainScannedBlocks::RollForwards))
    }
    fn last_polled_point(&self) -> Option<RawCardanoPoint> {
        self.last.clone()
    }
}

// ------------------------------------------------------------------------------------------ the node under test

struct Node {
    rt: Arc<tokio::runtime::Runtime>,
    db: PathBuf,
    repo: Arc<AggregatorCardanoChainDataRepository>,
    importer: Arc<CardanoChainDataImporter>,
    prover2: Arc<MithrilProverService<S>>,
    proverl: Arc<LegacyMithrilProverService<S>>,
}

fn make_template(path: &Path) {
    let _ = std::fs::remove_file(path);
    let conn = ConnectionBuilder::open_file(path)
        .with_options(&[ConnectionOptions::EnableForeignKeys])
        .with_migrations(cardano_transaction_migration::get_migrations())
        .build()
        .unwrap();
    drop(conn);
}

impl Node {
    fn new(rt: Arc<tokio::runtime::Runtime>, template: &Path, db: PathBuf, chain: Arc<Mutex<Vec<Blk>>>, batch: usize, pool2: usize, pooll: usize) -> Node {
        std::fs::copy(template, &db).unwrap();
        let pool = ConnectionBuilder::open_file(&db)
            .with_options(&[ConnectionOptions::EnableForeignKeys])
            .with_migrations(cardano_transaction_migration::get_migrations())
            .build_pool(2)
            .unwrap();
        let repo = Arc::new(AggregatorCardanoChainDataRepository::new(Arc::new(pool)));
        let importer = Arc::new(CardanoChainDataImporter::new(Arc::new(Scanner { chain, batch }), repo.clone(), logger()));
        let prover2 = Arc::new(MithrilProverService::<S>::new(repo.clone(), repo.clone(), pool2, logger()));
        let proverl = Arc::new(LegacyMithrilProverService::<S>::new(repo.clone(), repo.clone(), pooll, logger()));
        Node { rt, db, repo, importer, prover2, proverl }
    }
    fn import(&self, n: u64) -> Result<(), String> {
        let imp = self.importer.clone();
        self.rt.block_on(async move { imp.import(BlockNumber(n)).await }).map_err(|e| format!("{:?}", e))
    }
    fn counts(&self) -> (usize, usize, usize) {
        let repo = self.repo.clone();
        self.rt.block_on(async move {
            (repo.get_all_blocks().await.unwrap().len(), repo.get_all_block_range_root().unwrap().len(), repo.get_all_legacy_block_range_root().unwrap().len())
        })
    }
    /// the root the REAL signable builder signs for the beacon (through the real importer, as in production)
    fn sign2(&self, u: u64) -> Option<String> {
        let retriever: Arc<dyn BlockRangeRootRetriever<S>> = self.repo.clone();
        let imp: Arc<dyn ChainDataImporter> = self.importer.clone();
        let importer: Arc<dyn BlocksTransactionsImporter> = Arc::new(AggregatorChainDataImporter::new(imp));
        let b = CardanoBlocksTransactionsSignableBuilder::<S>::new(importer, retriever);
        let r = self.rt.block_on(async move { b.compute_protocol_message((BlockNumber(u), BlockNumberOffset(0))).await });
        r.ok().and_then(|m| m.get_message_part(&ProtocolMessagePartKey::CardanoBlocksTransactionsMerkleRoot).cloned())
    }
    fn signl(&self, u: u64) -> Option<String> {
        let retriever: Arc<dyn LegacyBlockRangeRootRetriever<S>> = self.repo.clone();
        let imp: Arc<dyn ChainDataImporter> = self.importer.clone();
        let importer: Arc<dyn TransactionsImporter> = Arc::new(AggregatorChainDataImporter::new(imp));
        let b = CardanoTransactionsSignableBuilder::<S>::new(importer, retriever);
        let r = self.rt.block_on(async move { b.compute_protocol_message(BlockNumber(u)).await });
        r.ok().and_then(|m| m.get_message_part(&ProtocolMessagePartKey::CardanoTransactionsMerkleRoot).cloned())
    }
    fn close(self) {
        let p = self.db.clone();
        drop(self);
        for ext in ["", "-wal", "-shm", "-journal"] {
            let _ = std::fs::remove_file(format!("{}{}", p.display(), ext));
        }
    }
}

fn err_class(e: &anyhow::Error) -> &'static str {
    let t = format!("{:?}", e);
    if std::env::var("C11B_DEBUG").is_ok() { eprintln!("ERR: {}", t.chars().take(700).collect::<String>()); }
    if t.contains("timed out") { "timeout" }
    else if t.contains("non-existing key") { "nokey" }
    else if t.contains("same root") { "root" }
    else { "other" }
}

// ------------------------------------------------------------------------------------------ histories

#[derive(Clone, Debug)]
enum Op {
    Grow(Vec<Blk>),
    Imp(u64),
    Sign2(u64),
    SignL(u64),
    Cache2(u64),
    CacheL(u64),
    Ptx(u64, Vec<u64>),
    Pblk(u64, Vec<u64>),
    Pl(u64, Vec<u64>),
}

fn op_line(op: &Op) -> String {
    let l = |v: &Vec<u64>| hutil::list(v);
    match op {
        Op::Grow(bs) => format!("(grow,[{}])", bs.iter().map(|b| format!("({},{},{},{})", b.number, b.id, b.slot, l(&b.txs))).collect::<Vec<_>>().join(",")),
        Op::Imp(n) => format!("(imp,{})", n),
        Op::Sign2(u) => format!("(sign2,{})", u),
        Op::SignL(u) => format!("(signl,{})", u),
        Op::Cache2(u) => format!("(cache2,{})", u),
        Op::CacheL(u) => format!("(cachel,{})", u),
        Op::Ptx(u, r) => format!("(ptx,{},{})", u, l(r)),
        Op::Pblk(u, r) => format!("(pblk,{},{})", u, l(r)),
        Op::Pl(u, r) => format!("(pl,{},{})", u, l(r)),
    }
}

struct Gen<'a> {
    rng: &'a mut Rng,
    used: BTreeSet<u64>,
    next_number: u64,
}
impl Gen<'_> {
    fn fresh(&mut self) -> u64 {
        loop {
            let x = (self.rng.u64() >> 2) | 1;
            if self.used.insert(x) {
                return x;
            }
        }
    }
    fn blocks(&mut self, n: u64, max_tx: u64) -> Vec<Blk> {
        let mut out = vec![];
        for _ in 0..n {
            // block numbers are contiguous on Cardano; the store does not require it — an occasional gap
            if self.rng.chance(1, 14) {
                self.next_number += self.rng.range(1, 20);
            }
            let number = self.next_number;
            self.next_number += 1;
            let id = self.fresh();
            let mut txs: Vec<u64> = (0..self.rng.below(max_tx + 1)).map(|_| self.fresh()).collect();
            txs.sort();
            out.push(Blk { number, id, slot: number * 20 + self.rng.below(20), txs });
        }
        out
    }
}

fn beacon2(rng: &mut Rng, tip: u64) -> u64 {
    if tip == 0 {
        return 0;
    }
    let base = rng.below(tip + 1);
    match rng.below(6) {
        0 => base / 15 * 15,                       // first block of a range
        1 => (base / 15 * 15 + 14).min(tip),       // last block of a range
        2 => base / 5 * 5,                         // a signing step smaller than a range
        3 => tip,
        _ => base,
    }
}
fn beacon_l(rng: &mut Rng, tip: u64) -> Option<u64> {
    // legacy beacons are the last block of a range (C17): 15k - 1, and never above the chain's tip
    // (a target above the tip is C13's business: known finding partial-range-root)
    let kmax = (tip + 1) / 15;
    if kmax == 0 { None } else { Some(rng.range(1, kmax) * 15 - 1) }
}

fn request(rng: &mut Rng, chain: &[Blk], want_tx: bool, u: u64, gen_absent: &mut dyn FnMut() -> u64) -> Vec<u64> {
    let mut req = vec![];
    let n = match rng.below(10) { 0 => 0, 1 | 2 => 1, _ => rng.range(2, 7) };
    let txs: Vec<(u64, u64)> = chain.iter().flat_map(|b| b.txs.iter().map(move |t| (*t, b.number))).collect();
    let blks: Vec<(u64, u64)> = chain.iter().map(|b| (b.id, b.number)).collect();
    let (mine, other) = if want_tx { (&txs, &blks) } else { (&blks, &txs) };
    for _ in 0..n {
        let below: Vec<&(u64, u64)> = mine.iter().filter(|x| x.1 <= u).collect();
        let above: Vec<&(u64, u64)> = mine.iter().filter(|x| x.1 > u).collect();
        match rng.below(12) {
            0 | 1 if !above.is_empty() => {
                // above the beacon; biased to the beacon's own range
                let near: Vec<&&(u64, u64)> = above.iter().filter(|x| x.1 / 15 == u / 15).collect();
                if !near.is_empty() && rng.chance(2, 3) { req.push(near[rng.below(near.len() as u64) as usize].0) } else { req.push(above[rng.below(above.len() as u64) as usize].0) }
            }
            2 => req.push(gen_absent()),
            3 if !other.is_empty() => req.push(other[rng.below(other.len() as u64) as usize].0), // a hash of the other kind
            4 if !req.is_empty() => { let d = req[rng.below(req.len() as u64) as usize]; req.push(d) } // duplicate
            5 if !below.is_empty() => {
                // in the beacon's own (possibly partial) range
                let near: Vec<&&(u64, u64)> = below.iter().filter(|x| x.1 / 15 == u / 15).collect();
                if !near.is_empty() { req.push(near[rng.below(near.len() as u64) as usize].0) } else { req.push(below[rng.below(below.len() as u64) as usize].0) }
            }
            _ if !below.is_empty() => req.push(below[rng.below(below.len() as u64) as usize].0),
            _ => req.push(gen_absent()),
        }
    }
    req
}

fn history(rng: &mut Rng, thorough: bool, allow_timeout: bool) -> Vec<Op> {
    let mut g = Gen { rng, used: BTreeSet::new(), next_number: 0 };
    if g.rng.chance(1, 3) {
        g.next_number = g.rng.below(40);
    }
    let mut ops = vec![];
    let mut chain: Vec<Blk> = vec![];
    let max_tx = g.rng.range(1, 3);
    let first = g.rng.range(8, if thorough { 90 } else { 50 });
    let bs = g.blocks(first, max_tx);
    chain.extend(bs.clone());
    ops.push(Op::Grow(bs));
    let rounds = g.rng.range(1, if thorough { 5 } else { 3 });
    let mut cached2: Option<u64> = None;
    let mut cachedl: Option<u64> = None;
    if allow_timeout {
        // a request before any cache computation: the pool is empty (one second of real time each)
        let tip = chain.last().unwrap().number;
        ops.push(Op::Imp(tip));
        let u = beacon2(g.rng, tip);
        let mut absent = || 0u64;
        let r = request(&mut Rng::new(g.rng.u64()), &chain, true, u, &mut absent);
        ops.push(if g.rng.bool() { Op::Ptx(u, r) } else { Op::Pl(u, r) });
    }
    for _ in 0..rounds {
        let tip = chain.last().unwrap().number;
        // the node may have imported ahead of the beacons (preloading), or not at all
        match g.rng.below(5) {
            0 => ops.push(Op::Imp(tip)),
            1 => ops.push(Op::Imp(g.rng.below(tip + 1))),
            _ => {}
        }
        let u2 = beacon2(g.rng, tip);
        let ul = beacon_l(g.rng, tip);
        let flow = g.rng.below(24);
        // certification flow: the signable is computed (import to the beacon), later the artifact builder computes the cache
        if flow != 0 {
            ops.push(Op::Sign2(u2));
        }
        if let (true, Some(ul)) = (flow != 1, ul) {
            ops.push(Op::SignL(ul));
        }
        if g.rng.chance(1, 8) {
            // another signed entity type's beacon makes the node import further before the certificate is issued
            ops.push(Op::Imp((u2 + g.rng.range(1, 40)).min(tip)));
        }
        // (a round without cache computation keeps the previous cache: stale for the new beacon)
        if flow != 2 || cached2.is_none() {
            ops.push(Op::Cache2(u2));
            cached2 = Some(u2);
        }
        if let (true, Some(ul)) = (flow != 3 || cachedl.is_none(), ul) {
            ops.push(Op::CacheL(ul));
            cachedl = Some(ul);
        }
        let nreq = g.rng.range(3, if thorough { 9 } else { 6 });
        for q in 0..nreq {
            // between requests the chain grows and the node imports (the next beacon's signable is being prepared)
            if q > 0 && g.rng.chance(1, 5) {
                let n = g.rng.range(1, 25);
                let bs = g.blocks(n, max_tx);
                chain.extend(bs.clone());
                ops.push(Op::Grow(bs));
                if g.rng.chance(2, 3) {
                    let tip = chain.last().unwrap().number;
                    ops.push(Op::Imp(tip - g.rng.below(tip.min(20) + 1)));
                }
            }
            let tip = chain.last().unwrap().number;
            let mut kind = g.rng.below(3);
            if kind == 2 && cachedl.is_none() { kind = 0; }
            let cached = if kind == 2 { cachedl } else { cached2 };
            let mut u = cached.unwrap_or(u2);
            match g.rng.below(12) {
                0 => u = u.saturating_sub(g.rng.range(1, 30)),                 // an older beacon than the cache's
                1 => u = (u + g.rng.range(1, 30)).min(tip + 5),                // a newer one
                _ => {}
            }
            if kind == 2 && g.rng.chance(9, 10) {
                u = (u + 1) / 15 * 15; // keep legacy beacons at range boundaries (15k - 1) …
                u = u.max(15) - 1;
            }
            let mut fork = Rng::new(g.rng.u64());
            let mut absent_rng = Rng::new(g.rng.u64());
            let mut absent = || (absent_rng.u64() >> 2) & !1; // even: never a stored identifier (those are odd)
            let r = request(&mut fork, &chain, kind != 1, u, &mut absent);
            ops.push(match kind { 0 => Op::Ptx(u, r), 1 => Op::Pblk(u, r), _ => Op::Pl(u, r) });
        }
        // next round: the chain has moved on
        let n = g.rng.range(3, 40);
        let bs = g.blocks(n, max_tx);
        chain.extend(bs.clone());
        ops.push(Op::Grow(bs));
    }
    ops
}

// ------------------------------------------------------------------------------------------ running one history

#[derive(Default)]
struct RootIds {
    seen: Vec<String>,
}
impl RootIds {
    fn id(&mut self, r: &str) -> usize {
        if let Some(i) = self.seen.iter().position(|x| x == r) {
            i
        } else {
            self.seen.push(r.to_string());
            self.seen.len() - 1
        }
    }
}

struct Ctx {
    /// beacon -> (root signed, op index)
    signed2: BTreeMap<u64, (String, usize)>,
    signedl: BTreeMap<u64, (String, usize)>,
    /// (beacon of the cache, op index of the cache computation)
    cache2: Option<(u64, usize)>,
    cachel: Option<(u64, usize)>,
    /// op indices of imports / signables with their targets
    imports: Vec<(usize, u64)>,
}

struct Failure {
    class: &'static str,
    what: String,
}

/// certification flow for the beacon: the signable was computed for it, the cache afterwards, and the node did not
/// import beyond the beacon in between
/// returns (the beacon lay strictly inside a block range whose root the node had stored when the cache was computed —
/// the class of the known finding —, the root signed for the beacon)
fn flow_ok(signed: &BTreeMap<u64, (String, usize)>, cache: Option<(u64, usize)>, imports: &[(usize, u64)], u: u64) -> Option<(bool, String)> {
    let (c, ci) = cache?;
    if c != u {
        return None;
    }
    let (root, si) = signed.get(&u)?;
    if *si > ci {
        return None;
    }
    let inside = u % 15 != 0 && u % 15 != 14 && imports.iter().any(|(i, t)| *i < ci && *t >= u / 15 * 15 + 14);
    Some((inside, root.clone()))
}

#[allow(clippy::too_many_arguments)]
fn run_history(rt: &Arc<tokio::runtime::Runtime>, template: &Path, scratch: &Path, hidx: usize, ops: &[Op], batch: usize, pool2: usize, pooll: usize, sink: &mut Sink, tag: &str, only: Option<usize>) {
    let chain = Arc::new(Mutex::new(vec![]));
    let node = Node::new(rt.clone(), template, scratch.join(format!("h{}.sqlite3", hidx)), chain.clone(), batch, pool2, pooll);
    let mut outs: Vec<String> = vec![];
    let mut r2 = RootIds::default();
    let mut rl = RootIds::default();
    let mut ctx = Ctx { signed2: BTreeMap::new(), signedl: BTreeMap::new(), cache2: None, cachel: None, imports: vec![] };
    let mut proof_cases: Vec<(String, String, String)> = vec![]; // tag, request, implementation output
    let mut fails: Vec<(usize, Failure)> = vec![];
    // the oracle: what the node has been told to store (the importer takes the blocks above the highest stored one
    // and at or below the target, as the node's chain is at that moment)
    let mut stored: Vec<Blk> = vec![];
    let oracle_import = |stored: &mut Vec<Blk>, chain: &Arc<Mutex<Vec<Blk>>>, n: u64| {
        let hi = stored.last().map(|b| b.number);
        if hi.map(|h| h < n).unwrap_or(true) {
            let c = chain.lock().unwrap();
            let add: Vec<Blk> = c.iter().filter(|b| hi.map(|h| b.number > h).unwrap_or(true) && b.number <= n).cloned().collect();
            stored.extend(add);
        }
    };

    for (oi, op) in ops.iter().enumerate() {
        match op {
            Op::Grow(bs) => {
                chain.lock().unwrap().extend(bs.iter().cloned());
                outs.push("-".into());
            }
            Op::Imp(n) => {
                let r = node.import(*n);
                oracle_import(&mut stored, &chain, *n);
                ctx.imports.push((oi, *n));
                let (b, a, l) = node.counts();
                outs.push(if r.is_ok() { format!("s{},{},{}", b, a, l) } else { "err".into() });
            }
            Op::Sign2(u) | Op::SignL(u) => {
                let v2 = matches!(op, Op::Sign2(_));
                let root = if v2 { node.sign2(*u) } else { node.signl(*u) };
                oracle_import(&mut stored, &chain, *u);
                ctx.imports.push((oi, *u));
                match root {
                    Some(r) => {
                        if v2 { outs.push(format!("R{}", r2.id(&r))); ctx.signed2.insert(*u, (r, oi)); } else { outs.push(format!("L{}", rl.id(&r))); ctx.signedl.insert(*u, (r, oi)); }
                    }
                    None => {
                        outs.push("err".into());
                        if v2 { ctx.signed2.remove(u); } else { ctx.signedl.remove(u); }
                    }
                }
            }
            Op::Cache2(u) => {
                let p = node.prover2.clone();
                let u_ = *u;
                let r = rt.block_on(async move { p.compute_cache(BlockNumber(u_)).await });
                outs.push(if r.is_ok() { "ok".into() } else { "err".into() });
                if r.is_ok() { ctx.cache2 = Some((*u, oi)); }
            }
            Op::CacheL(u) => {
                let p = node.proverl.clone();
                let u_ = *u;
                let r = rt.block_on(async move { p.compute_cache(BlockNumber(u_)).await });
                outs.push(if r.is_ok() { "ok".into() } else { "err".into() });
                if r.is_ok() { ctx.cachel = Some((*u, oi)); }
            }
            Op::Ptx(u, req) | Op::Pblk(u, req) => {
                let is_tx = matches!(op, Op::Ptx(_, _));
                let hashes: Vec<String> = req.iter().map(|x| h64(*x)).collect();
                let offset = BlockNumberOffset(7);
                // ---- the real service, then the conversion and partition of the HTTP handler ------------------------
                let p = node.prover2.clone();
                let (u_, hs) = (*u, hashes.clone());
                // (certified items as canonical tuples, message-level verification result, proof for Lean)
                let mut certified: Vec<(u64, u64, u64, u64)> = vec![]; // (key id, block id, number, slot); block id = key for blocks
                let mut certified_hashes: Vec<String> = vec![];
                let outcome: String;
                let mut produced: Option<(String, Vec<Vec<u8>>, MP, Result<(String, Vec<(String, String, u64, u64)>), String>)> = None;
                if is_tx {
                    let r = rt.block_on(async move { p.compute_transactions_proofs(BlockNumber(u_), &hs).await });
                    match r {
                        Err(e) => outcome = format!("err:{}", err_class(&e)),
                        Ok(None) => outcome = "none".into(),
                        Ok(Some(sp)) => {
                            certified_hashes = sp.transactions_hashes().cloned().collect();
                            let items: Vec<CardanoTransaction> = sp.transactions().to_vec();
                            let leaves: Vec<Vec<u8>> = items.iter().map(|t| t.clone().into_mk_tree_node().to_vec()).collect();
                            let root = sp.merkle_root();
                            let part: MkSetProofMessagePart<CardanoTransactionMessagePart> = sp.try_into().unwrap();
                            let mp = MP::from_value(&serde_json::to_value(&*ProtocolMkProof::from_bytes_hex(&part.proof).unwrap()).unwrap());
                            let nc: Vec<String> = hashes.iter().filter(|h| !certified_hashes.contains(h)).cloned().collect();
                            let msg = CardanoTransactionsProofsV2Message::new("cert", Some(part), nc, BlockNumber(*u), offset);
                            let ver = msg.verify().map(|v| (v.certified_merkle_root().to_string(), v.certified_transactions().iter().map(|t| (t.transaction_hash.clone(), t.block_hash.clone(), *t.block_number, *t.slot_number)).collect())).map_err(|e| format!("{:?}", e));
                            for t in &items {
                                certified.push((id_of(&t.transaction_hash).unwrap_or(0), id_of(&t.block_hash).unwrap_or(0), *t.block_number, *t.slot_number));
                            }
                            outcome = "ok".into();
                            produced = Some((root, leaves, mp, ver));
                        }
                    }
                } else {
                    let r = rt.block_on(async move { p.compute_blocks_proofs(BlockNumber(u_), &hs).await });
                    match r {
                        Err(e) => outcome = format!("err:{}", err_class(&e)),
                        Ok(None) => outcome = "none".into(),
                        Ok(Some(sp)) => {
                            certified_hashes = sp.blocks_hashes().cloned().collect();
                            let items: Vec<CardanoBlock> = sp.blocks().to_vec();
                            let leaves: Vec<Vec<u8>> = items.iter().map(|t| t.clone().into_mk_tree_node().to_vec()).collect();
                            let root = sp.merkle_root();
                            let part: MkSetProofMessagePart<CardanoBlockMessagePart> = sp.try_into().unwrap();
                            let mp = MP::from_value(&serde_json::to_value(&*ProtocolMkProof::from_bytes_hex(&part.proof).unwrap()).unwrap());
                            let nc: Vec<String> = hashes.iter().filter(|h| !certified_hashes.contains(h)).cloned().collect();
                            let msg = CardanoBlocksProofsMessage::new("cert", Some(part), nc, BlockNumber(*u), offset);
                            let ver = msg.verify().map(|v| (v.certified_merkle_root().to_string(), v.certified_blocks().iter().map(|t| (t.block_hash.clone(), t.block_hash.clone(), *t.block_number, *t.slot_number)).collect())).map_err(|e| format!("{:?}", e));
                            for t in &items {
                                certified.push((id_of(&t.block_hash).unwrap_or(0), id_of(&t.block_hash).unwrap_or(0), *t.block_number, *t.slot_number));
                            }
                            outcome = "ok".into();
                            produced = Some((root, leaves, mp, ver));
                        }
                    }
                }
                let non_certified: Vec<u64> = req.iter().filter(|x| !certified_hashes.contains(&h64(**x))).cloned().collect();
                // ---- canonical output for K ------------------------------------------------------------------------
                let mut canon = certified.clone();
                canon.sort_by_key(|c| (c.2, c.0));
                let items_txt = canon.iter().map(|c| if is_tx { format!("({},{},{},{})", c.0, c.1, c.2, c.3) } else { format!("({},{},{})", c.0, c.2, c.3) }).collect::<Vec<_>>().join(",");
                match &produced {
                    Some((root, _, _, _)) => outs.push(format!("ok[{}]nc{}R{}", items_txt, hutil::list(&non_certified), r2.id(root))),
                    None => outs.push(format!("{}nc{}", outcome, hutil::list(&non_certified))),
                }
                // ---- the oracle -------------------------------------------------------------------------------------
                let mut expected: Vec<(u64, u64, u64, u64)> = vec![];
                for b in stored.iter().filter(|b| b.number <= *u) {
                    if is_tx {
                        for t in &b.txs { if req.contains(t) { expected.push((*t, b.id, b.number, b.slot)); } }
                    } else if req.contains(&b.id) {
                        expected.push((b.id, b.id, b.number, b.slot));
                    }
                }
                expected.sort_by_key(|c| (c.2, c.0));
                let flow = flow_ok(&ctx.signed2, ctx.cache2, &ctx.imports, *u);
                let what_req = format!("op {} {}", oi, op_line(op));
                if let Some((root, leaves, mp, ver)) = &produced {
                    // (K b) the proof through the Lean verifier
                    let out = match ver { Ok((r, _)) => format!("ok {}", r), Err(e) => if e.starts_with("InvalidSetProof") { "err invalid".into() } else { "err other".to_string() } };
                    proof_cases.push((if is_tx { "proof-v2-tx".into() } else { "proof-v2-block".into() }, format!("c11.v2 part=([{}],{})", leaves.iter().map(|l| hex(l)).collect::<Vec<_>>().join(","), mp.line()), out));
                    match ver {
                        Err(e) => fails.push((oi, Failure { class: "proof-rejected", what: format!("{}: the produced proof is rejected by the client-side verifier: {}", what_req, e.chars().take(160).collect::<String>()) })),
                        Ok((vroot, vitems)) => {
                            if vroot != root { fails.push((oi, Failure { class: "proof-rejected", what: format!("{}: verifier root {} is not the proof's {}", what_req, vroot, root) })); }
                            // every item the CLIENT ends up reporting as certified is stored at or below the beacon, with these very fields
                            for (h, bh, n, s) in vitems {
                                let ok = stored.iter().any(|b| b.number == *n && b.slot == *s && b.number <= *u && h64(b.id) == *bh && (if is_tx { id_of(h).map(|t| b.txs.contains(&t)).unwrap_or(false) } else { true }));
                                if !ok {
                                    let class = if *n > *u { "certified-above-beacon" } else { "certified-not-stored" };
                                    fails.push((oi, Failure { class, what: format!("{}: {} {} (block {}, slot {}) is reported as certified but the store holds no such item at or below block {}", what_req, if is_tx { "transaction" } else { "block" }, h, n, s, u) }));
                                    break;
                                }
                            }
                        }
                    }
                    // the certified root is the one signed for the beacon of the cache
                    if let Some((c, _)) = ctx.cache2 {
                        match flow_ok(&ctx.signed2, ctx.cache2, &ctx.imports, c) {
                            Some((further, sroot)) if &sroot != root => {
                                let class = if further { "C11-beacon-inside-stored-range" } else { "root-not-signed" };
                                fails.push((oi, Failure { class, what: format!("{}: the proof's Merkle root {} is not the root {} the signable builder signed for beacon {} (the beacon the cache was computed for)", what_req, root, sroot, c) }));
                            }
                            _ => {}
                        }
                    }
                }
                if outcome == "ok" || outcome == "none" {
                    if canon != expected {
                        let missing: Vec<_> = expected.iter().filter(|e| !canon.contains(e)).collect();
                        let extra: Vec<_> = canon.iter().filter(|e| !expected.contains(e)).collect();
                        let class = if !extra.is_empty() { if extra.iter().any(|e| e.2 > *u) { "certified-above-beacon" } else { "certified-not-stored" } } else { "certified-omitted" };
                        fails.push((oi, Failure { class, what: format!("{}: certified set differs from (requested ∩ stored at or below {}): missing {:?}, extra {:?}", what_req, u, missing, extra) }));
                    }
                    for x in &non_certified {
                        if expected.iter().any(|e| e.0 == *x) {
                            fails.push((oi, Failure { class: "certified-omitted", what: format!("{}: {} is stored at or below the beacon but reported as not certified", what_req, x) }));
                            break;
                        }
                    }
                }
                if let Some((further, _)) = flow {
                    if outcome.starts_with("err") {
                        let class = if further { "C11-beacon-inside-stored-range" } else { "request-refused" };
                        fails.push((oi, Failure { class, what: format!("{}: the prover fails ({}) although the beacon was signed and its cache computed", what_req, outcome) }));
                    }
                }
            }
            Op::Pl(u, req) => {
                let hashes: Vec<String> = req.iter().map(|x| h64(*x)).collect();
                let p = node.proverl.clone();
                let (u_, hs) = (*u, hashes.clone());
                let r = rt.block_on(async move { p.compute_transactions_proofs(BlockNumber(u_), &hs).await });
                let aligned = (*u + 1) % 15 == 0;
                let what_req = format!("op {} {}", oi, op_line(op));
                let flow = flow_ok(&ctx.signedl, ctx.cachel, &ctx.imports, *u);
                match r {
                    Err(e) => {
                        let nc = req.clone();
                        outs.push(format!("err:{}nc{}", err_class(&e), hutil::list(&nc)));
                        if flow.is_some() && aligned {
                            fails.push((oi, Failure { class: "request-refused", what: format!("{}: the legacy prover fails ({}) although the beacon was signed and its cache computed", what_req, err_class(&e)) }));
                        }
                    }
                    Ok(proofs) => {
                        let certified: Vec<String> = proofs.iter().flat_map(|p| p.transactions_hashes().to_vec()).collect();
                        let roots: Vec<String> = proofs.iter().map(|p| p.merkle_root()).collect();
                        // the REAL adapter of the HTTP layer: message parts and the not-certified list
                        let se = SignedEntity { signed_entity_id: "se".into(), signed_entity_type: SignedEntityType::CardanoTransactions(mithril_common::entities::Epoch(1), BlockNumber(*u)), certificate_id: "cert".into(), artifact: CardanoTransactionsSnapshot::new(roots.first().cloned().unwrap_or_default(), BlockNumber(*u)), created_at: Default::default() };
                        let msg: CardanoTransactionsProofsMessage = legacy_adapter::ToCardanoTransactionsProofsMessageAdapter::try_adapt(se, proofs, hashes.clone()).unwrap();
                        let nc: Vec<u64> = msg.non_certified_transactions.iter().map(|h| id_of(h).unwrap_or(0)).collect();
                        let cert_ids: Vec<u64> = certified.iter().map(|h| id_of(h).unwrap_or(0)).collect();
                        let expected: Vec<u64> = req.iter().filter(|x| stored.iter().any(|b| b.number <= *u && b.txs.contains(x))).cloned().collect();
                        if msg.certified_transactions.is_empty() {
                            outs.push(format!("ok[]nc{}", hutil::list(&nc)));
                        } else {
                            outs.push(format!("ok{}nc{}L{}", hutil::list(&cert_ids), hutil::list(&nc), rl.id(&roots[0])));
                            let ver = msg.verify();
                            let mut parts_txt = vec![];
                            for part in &msg.certified_transactions {
                                let mp = MP::from_value(&serde_json::to_value(&*ProtocolMkProof::from_json_hex(&part.proof).unwrap()).unwrap());
                                parts_txt.push(format!("([{}],{})", part.transactions_hashes.iter().map(|h| hex(h.as_bytes())).collect::<Vec<_>>().join(","), mp.line()));
                            }
                            let out = match &ver {
                                Ok(v) => { let mut pm = mithril_common::entities::ProtocolMessage::new(); v.fill_protocol_message(&mut pm); format!("ok {}", pm.get_message_part(&ProtocolMessagePartKey::CardanoTransactionsMerkleRoot).unwrap()) }
                                Err(e) => { let t = format!("{:?}", e); if t.starts_with("InvalidSetProof") { "err invalid".into() } else if t.starts_with("NonMatchingMerkleRoot") { "err nonmatching".into() } else { "err other".to_string() } }
                            };
                            proof_cases.push(("proof-legacy".into(), format!("c11.legacy parts=[{}]", parts_txt.join(",")), out));
                            match &ver {
                                Err(e) => {
                                    // duplicated hashes never reach the service through the HTTP route (sorted and de-duplicated there)
                                    let dup = { let mut s = req.clone(); s.sort(); s.windows(2).any(|w| w[0] == w[1]) };
                                    let class = if dup { "legacy-duplicate-request" } else { "proof-rejected" };
                                    fails.push((oi, Failure { class, what: format!("{}: the produced proof is rejected by the client-side verifier: {}", what_req, format!("{:?}", e).chars().take(160).collect::<String>()) }));
                                }
                                Ok(v) => {
                                    for h in v.certified_transactions() {
                                        let t = id_of(h).unwrap_or(0);
                                        match stored.iter().find(|b| b.txs.contains(&t)) {
                                            None => { fails.push((oi, Failure { class: "certified-not-stored", what: format!("{}: transaction {} reported as certified is not in the store", what_req, t) })); break; }
                                            Some(b) if b.number > *u => {
                                                // with a beacon inside a range the legacy scheme commits to the whole range (outside the contract: C17 makes legacy beacons range ends)
                                                if aligned { fails.push((oi, Failure { class: "certified-above-beacon", what: format!("{}: transaction {} of block {} reported as certified for beacon {}", what_req, t, b.number, u) })); break; }
                                            }
                                            _ => {}
                                        }
                                    }
                                }
                            }
                            if let Some((c, _)) = ctx.cachel {
                                if let Some((_, sroot)) = flow_ok(&ctx.signedl, ctx.cachel, &ctx.imports, c) {
                                    if sroot != roots[0] {
                                        fails.push((oi, Failure { class: "root-not-signed", what: format!("{}: the proof's Merkle root {} is not the root {} signed for beacon {}", what_req, roots[0], sroot, c) }));
                                    }
                                }
                            }
                        }
                        if aligned {
                            if cert_ids != expected {
                                let class = if cert_ids.iter().any(|c| !expected.contains(c)) { "certified-not-stored" } else { "certified-omitted" };
                                fails.push((oi, Failure { class, what: format!("{}: certified {:?} but (requested ∩ stored at or below {}) = {:?}", what_req, cert_ids, u, expected) }));
                            }
                            let nc_expected: Vec<u64> = req.iter().filter(|x| !expected.contains(x)).cloned().collect();
                            if nc != nc_expected {
                                fails.push((oi, Failure { class: "non-certified-wrong", what: format!("{}: reported as not certified {:?}, expected {:?}", what_req, nc, nc_expected) }));
                            }
                        }
                    }
                }
            }
        }
    }
    node.close();
    let req = format!("c11.history ops=[{}]", ops.iter().map(op_line).collect::<Vec<_>>().join(","));
    let i = sink.case(tag, &req, &outs.join(";"));
    if only.map(|o| o == i).unwrap_or(true) {
        for (_, f) in &fails {
            sink.sfail(i, f.class, &f.what, &req);
        }
    }
    for (t, r, o) in proof_cases {
        sink.case(&t, &r, &o);
    }
}

fn main() {
    let args = Args::parse();
    let mut rng = Rng::new(args.seed);
    let mut sink = Sink::new(&args);
    let rt = Arc::new(tokio::runtime::Builder::new_multi_thread().worker_threads(2).enable_all().build().unwrap());
    let scratch = std::env::temp_dir().join(format!("c11b-{}", std::process::id()));
    let _ = std::fs::remove_dir_all(&scratch);
    std::fs::create_dir_all(&scratch).unwrap();
    let template = scratch.join("template.sqlite3");
    make_template(&template);
    let nhist = if args.thorough() { 1500 } else { 160 };
    let only = args.only;

    // ---- fixed histories: the flows of the unit tests and of the documentation ------------------------------------------
    let mk = |n: u64, id: u64, txs: &[u64]| Blk { number: n, id, slot: n * 20, txs: txs.to_vec() };
    let fixed: Vec<(&str, Vec<Op>)> = vec![
        ("fixed-partial-last-range", vec![
            Op::Grow(vec![mk(30, 301, &[3011]), mk(48, 481, &[4811])]),
            Op::Sign2(48), Op::Cache2(48),
            Op::Grow(vec![mk(50, 501, &[5011])]), Op::Imp(50),
            Op::Ptx(48, vec![4811]), Op::Ptx(48, vec![3011]), Op::Pblk(48, vec![481, 501, 301]), Op::Ptx(48, vec![5011]),
        ]),
        ("fixed-legacy", vec![
            Op::Grow((0..40).map(|n| mk(n, 1000 + 2 * n + 1, &[20001 + 2 * n])).collect()),
            Op::SignL(29), Op::CacheL(29), Op::Pl(29, vec![20001, 20001 + 2 * 29, 20001 + 2 * 30, 4]), Op::Pl(29, vec![]), Op::Pl(29, vec![4]),
        ]),
    ];

    // replay (`--only`): every history is run again, the sink keeps the wanted case only
    let mut hidx = 0usize;
    for (tag, ops) in &fixed {
        run_history(&rt, &template, &scratch, hidx, ops, 7, 1, 1, &mut sink, tag, only);
        hidx += 1;
    }
    for h in 0..nhist {
        let mut hr = Rng::new(rng.u64());
        let ops = history(&mut hr, args.thorough(), h % 20 == 7);
        let batch = hr.range(1, 30) as usize;
        let pool2 = hr.range(1, 3) as usize;
        let pooll = hr.range(1, 3) as usize;
        run_history(&rt, &template, &scratch, hidx, &ops, batch, pool2, pooll, &mut sink, if h % 2 == 0 { "history-even" } else { "history-odd" }, only);
        hidx += 1;
    }
    // ---- witness of the known finding, replayed on the real services every run -------------------------------------------
    {
        let chain = Arc::new(Mutex::new((0..50u64).map(|n| mk(n, 2 * n + 1, &[100_001 + 2 * n])).collect::<Vec<_>>()));
        let node = Node::new(rt.clone(), &template, scratch.join("witness.sqlite3"), chain, 10, 1, 1);
        node.import(49).unwrap(); // the node imported ahead of the beacon: the root of range [30,45[ is stored
        let signed = node.sign2(35);
        let p = node.prover2.clone();
        rt.block_on(async { p.compute_cache(BlockNumber(35)).await }).unwrap();
        let p = node.prover2.clone();
        let inside = rt.block_on(async { p.compute_transactions_proofs(BlockNumber(35), &[h64(100_001 + 2 * 33)]).await });
        let p = node.prover2.clone();
        let below = rt.block_on(async { p.compute_transactions_proofs(BlockNumber(35), &[h64(100_001 + 2 * 20)]).await });
        let refused = inside.as_ref().err().map(|e| err_class(e) == "root").unwrap_or(false);
        let below_ok = below.as_ref().ok().and_then(|o| o.as_ref().map(|p| Some(p.merkle_root()) == signed)).unwrap_or(false);
        sink.witness("C11-beacon-inside-stored-range", refused && below_ok, &format!(
            "blocks 0..49 imported, beacon 35 signed (root of the whole range [30,45[ is stored and signed), cache computed for 35: proof of the transaction of block 33 -> {}; of block 20 -> {}",
            match &inside { Ok(Some(_)) => "proof".to_string(), Ok(None) => "none".into(), Err(e) => format!("refused ({})", err_class(e)) },
            if below_ok { "proof under the signed root" } else { "no proof under the signed root" }));
        node.close();
    }
    let _ = std::fs::remove_dir_all(&scratch);
    sink.finish();
}
