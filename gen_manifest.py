#!/usr/bin/env python3
"""Regenerates MANIFEST.json from props.py (claimed checks) and properties.jsonl (ids)."""
import json, sys, os
ROOT = os.path.dirname(os.path.abspath(__file__))
sys.path.insert(0, ROOT)
from props import PROPS, PENDING_REASON

ids = [json.loads(l)["id"] for l in open(os.path.join(ROOT, "properties.jsonl"))]
checks = []
# a property is claimed once its check has produced evidence with no violation on the unchanged tree
def ready(pid):
    f = os.path.join(ROOT, "evidence", pid + ".json")
    if pid not in PROPS or not os.path.exists(f):
        return False
    try:
        return json.load(open(f)).get("violations", 1) == 0
    except Exception:
        return False
for pid in ids:
    if not ready(pid):
        continue
    c = PROPS[pid]
    checks.append({
        "property_id": pid,
        "quick_cmd": f"./check {pid} --tier quick",
        "thorough_cmd": f"./check {pid} --tier thorough",
        "evidence_file": f"/verif/evidence/{pid}.json",
        "replay_cmd_template": f"./check {pid} --replay {{path}}",
        "engine": "lean4-model+correspondence",
        "level_claimed": {"category": "proof", "text": c["level_text"], "design_ref": f"DESIGN.md section 6, {pid}"},
        "level_note": c["level_note"],
        "technique": c.get("technique", "Lean 4 theorems over a hand-written executable model; model tied to the code by a differential correspondence harness"),
    })
m = {
    "version": 1,
    "setup_cmd": "./check --setup",
    "hooks": {
        "guard": "mithril_verif",
        "enable": "RUSTFLAGS=\"--cfg mithril_verif\" (set in /verif/harness/.cargo/config.toml for every harness build)",
        "baseline_off_cmd": "cd /repo && cargo nextest run --workspace --no-fail-fast --test-threads 8 --offline || cargo test --workspace --no-fail-fast --offline",
        "source_commits": json.load(open(os.path.join(ROOT, "hooks.json")))["source_commits"],
        "add_only": True,
    },
    "engines": [{
        "name": "lean4-model+correspondence", "path": "/verif/check",
        "serves_properties": [c["property_id"] for c in checks],
        "kind_free_text": "Lean 4 (kernel-checked theorems about hand-written executable models, lean/) + Rust differential harnesses (harness/) that run the real code and the compiled Lean model on the same generated cases and evaluate the specification on the implementation's outputs",
    }],
    "checks": checks,
    "notes": "One entry point: ./check <id> --tier quick|thorough. Known findings: known_findings.json and known.d/*.json (never written at run time). Statements dropped from the obligations after the vacuity audit: props.d/Cxx+zrepair.py, listed per run under superseded_theorems in the evidence. Design and trusted base: DESIGN.md (section 0 = as built).",
    "not_applicable": [{"property_id": pid, "reason": PENDING_REASON.get(pid, "check not built yet in this session (work in progress; the technique applies, see DESIGN.md)")} for pid in ids if not ready(pid)],
}
json.dump(m, open(os.path.join(ROOT, "MANIFEST.json"), "w"), indent=1)
print("claimed:", [c["property_id"] for c in checks])
