import MithrilModel.Proto
import MithrilModel.Handlers.C00
import MithrilModel.Handlers.C01
import MithrilModel.Handlers.C02
import MithrilModel.Handlers.C03
import MithrilModel.Handlers.C04
import MithrilModel.Handlers.C05
import MithrilModel.Handlers.C06
import MithrilModel.Handlers.C07
import MithrilModel.Handlers.C08
import MithrilModel.Handlers.C09
import MithrilModel.Handlers.C10
import MithrilModel.Handlers.C11
import MithrilModel.Handlers.C12
import MithrilModel.Handlers.C13
import MithrilModel.Handlers.C14
import MithrilModel.Handlers.C15
import MithrilModel.Handlers.C16
import MithrilModel.Handlers.C17
import MithrilModel.Handlers.C18
import MithrilModel.Handlers.C19
import MithrilModel.Handlers.C20

def dispatch (line : String) : String :=
  match Proto.parseReq line with
  | none => "bad-request"
  | some r =>
    let h : Option String :=
      if r.op.startsWith "c00." then Handlers.C00.handle r
      else if r.op.startsWith "c01." then Handlers.C01.handle r
      else if r.op.startsWith "c02." then Handlers.C02.handle r
      else if r.op.startsWith "c03." then Handlers.C03.handle r
      else if r.op.startsWith "c04." then Handlers.C04.handle r
      else if r.op.startsWith "c05." then Handlers.C05.handle r
      else if r.op.startsWith "c06." then Handlers.C06.handle r
      else if r.op.startsWith "c07." then Handlers.C07.handle r
      else if r.op.startsWith "c08." then Handlers.C08.handle r
      else if r.op.startsWith "c09." then Handlers.C09.handle r
      else if r.op.startsWith "c10." then Handlers.C10.handle r
      else if r.op.startsWith "c11." then Handlers.C11.handle r
      else if r.op.startsWith "c12." then Handlers.C12.handle r
      else if r.op.startsWith "c13." then Handlers.C13.handle r
      else if r.op.startsWith "c14." then Handlers.C14.handle r
      else if r.op.startsWith "c15." then Handlers.C15.handle r
      else if r.op.startsWith "c16." then Handlers.C16.handle r
      else if r.op.startsWith "c17." then Handlers.C17.handle r
      else if r.op.startsWith "c18." then Handlers.C18.handle r
      else if r.op.startsWith "c19." then Handlers.C19.handle r
      else if r.op.startsWith "c20." then Handlers.C20.handle r
      else none
    h.getD "bad-request"

partial def loop (hin : IO.FS.Stream) (hout : IO.FS.Stream) : IO Unit := do
  let line ← hin.getLine
  if line.isEmpty then return ()
  hout.putStrLn (dispatch line)
  loop hin hout

def main : IO Unit := do
  let hin ← IO.getStdin
  let hout ← IO.getStdout
  loop hin hout
  hout.flush
