/-!
# C19 — executable model of `CardanoDatabaseClient::download_unpack`

A small POSIX-like file system (directories, regular files, symbolic links with relative or absolute
targets; path resolution follows links in every non-final component), the part of `tar` 0.4.46 the
client relies on (`Archive::unpack`: entries in order, directories last, `..` entries skipped, leading
`/` dropped, every write confined to the canonical destination, existing files and links replaced),
and on top of it the client's restoration logic:

* `internal_downloader.rs::download_unpack` (range, option compatibility, override test, expected
  state, tasks, clean-up, bootstrap markers),
* `download_task.rs` (immutable archives straight into the target, ancillary archive into
  `ancillary-<id>`, verification, move, removal of the temporary directory),
* `ancillary_verifier.rs` + `ancillary_files_manifest.rs::verify_data` (AFTER the `fix:` commit: an
  entry must be a regular file), `move_to_final_location` (two passes, `rename`),
* `unexpected_downloaded_file_verifier.rs`, `bootstrap_files.rs`.

Contents are numbers (the harness sends one token per distinct SHA-256 value, so "hash of the content
equals the manifest value" is equality of tokens); the model never computes a hash.
Everything is structural recursion on explicit fuel so that concrete cases reduce in the kernel.
-/
namespace Restore.Full

inductive Comp (ν : Type) where
  | up
  | nm (n : ν)
deriving DecidableEq, Repr

structure Target (ν : Type) where
  abs : Bool
  comps : List (Comp ν)
deriving DecidableEq, Repr

inductive Node (ν : Type) where
  | file (c : Nat)
  | link (t : Target ν)
  | dir
deriving DecidableEq, Repr

/-- a file system: canonical path (from the root of the case directory) ↦ node; `[]` is a directory -/
abbrev FS (ν : Type) := List ν → Option (Node ν)

inductive Res (ν : Type) where
  | at (p : List ν)                      -- an existing node
  | missing (parent : List ν) (n : ν)    -- the last component does not exist, its directory does
  | err                                  -- ENOENT / ENOTDIR / ELOOP: nothing can be done with this path
deriving DecidableEq, Repr

variable {ν : Type} [DecidableEq ν]

def remove (fs : FS ν) (q : List ν) : FS ν := fun p => if p = q then none else fs p
def insert (fs : FS ν) (q : List ν) (n : Node ν) : FS ν := fun p => if p = q then some n else fs p
/-- remove `q` and everything below it -/
def removeTree (fs : FS ν) (q : List ν) : FS ν := fun p => if q.isPrefixOf p then none else fs p

/-- path resolution; `followFinal = false` is `lstat`-like. `steps` bounds the walk (a loop of links
ends as an error, like ELOOP). `..` above the root of the model is outside: an error. -/
def resolveAux (fs : FS ν) (followFinal : Bool) : Nat → List ν → List (Comp ν) → Res ν
  | _, cur, [] => .at cur
  | 0, _, _ :: _ => .err
  | steps + 1, cur, c :: rest =>
    match fs cur with
    | some .dir =>
      match c with
      | .up => match cur with
        | [] => .err
        | _ => resolveAux fs followFinal steps cur.dropLast rest
      | .nm n =>
        match fs (cur ++ [n]) with
        | none => if rest.isEmpty then .missing cur n else .err
        | some (.link t) =>
          if rest.isEmpty && !followFinal then .at (cur ++ [n])
          else if t.abs then .err
          else resolveAux fs followFinal steps cur (t.comps ++ rest)
        | some .dir => resolveAux fs followFinal steps (cur ++ [n]) rest
        | some (.file _) => if rest.isEmpty then .at (cur ++ [n]) else .err
    | _ => .err

def STEPS : Nat := 160

/-- lexical path = components from the root of the model -/
abbrev LPath (ν : Type) := List (Comp ν)

def lp (p : List ν) : LPath ν := p.map Comp.nm

def resolve (fs : FS ν) (follow : Bool) (p : LPath ν) : Res ν := resolveAux fs follow STEPS [] p

def stat (fs : FS ν) (p : LPath ν) : Option (List ν × Node ν) :=
  match resolve fs true p with
  | .at q => (fs q).map fun n => (q, n)
  | _ => none

def lstat (fs : FS ν) (p : LPath ν) : Option (List ν × Node ν) :=
  match resolve fs false p with
  | .at q => (fs q).map fun n => (q, n)
  | _ => none

def pexists (fs : FS ν) (p : LPath ν) : Bool := (stat fs p).isSome
def isDir (fs : FS ν) (p : LPath ν) : Bool := match stat fs p with | some (_, .dir) => true | _ => false

/-- `File::open` + read to the end -/
def readFile (fs : FS ν) (p : LPath ν) : Option Nat :=
  match stat fs p with
  | some (_, .file c) => some c
  | _ => none

/-- `mkdir` -/
def mkdir (fs : FS ν) (p : LPath ν) : Option (FS ν) :=
  match resolve fs false p with
  | .missing par n => some (insert fs (par ++ [n]) .dir)
  | _ => none

/-- `std::fs::create_dir_all` (recursion on the lexical parents) -/
def createDirAll (fs : FS ν) : Nat → LPath ν → Option (FS ν)
  | _, [] => some fs
  | 0, _ => none
  | fuel + 1, p =>
    match mkdir fs p with
    | some fs' => some fs'
    | none =>
      if isDir fs p then some fs
      else match resolve fs false p with
        | .err =>   -- a missing ancestor (NotFound): create the parent first. Other errors are final;
                    -- they cannot be told apart here, the retry fails in the same way
          match createDirAll fs fuel p.dropLast with
          | some fs' =>
            match mkdir fs' p with
            | some fs'' => some fs''
            | none => if isDir fs' p then some fs' else none
          | none => none
        | _ => none

/-- `unlink` -/
def removeFile (fs : FS ν) (p : LPath ν) : Option (FS ν) :=
  match lstat fs p with
  | some (_, .dir) => none
  | some (q, _) => some (remove fs q)
  | none => none

/-- `std::fs::remove_dir_all`: a symbolic link is unlinked, a directory removed with its content -/
def removeDirAll (fs : FS ν) (p : LPath ν) : Option (FS ν) :=
  match lstat fs p with
  | some (q, .dir) => some (removeTree fs q)
  | some (q, .link _) => some (remove fs q)
  | _ => none

/-- `File::create` (O_CREAT | O_TRUNC, follows links) and write `c` -/
def createFile (fs : FS ν) (p : LPath ν) (c : Nat) : Option (FS ν) :=
  match resolve fs true p with
  | .at q => match fs q with
    | some (.file _) => some (insert fs q (.file c))
    | _ => none
  | .missing par n => some (insert fs (par ++ [n]) (.file c))
  | .err => none

/-- `rename` of something that is not a directory -/
def rename (fs : FS ν) (src dst : LPath ν) : Option (FS ν) :=
  match lstat fs src with
  | some (_, .dir) => none          -- never reached: verification accepted a regular file
  | some (s, n) =>
    match resolve fs false dst with
    | .missing par nm => some (insert (remove fs s) (par ++ [nm]) n)
    | .at d =>
      match fs d with
      | some .dir => none           -- EISDIR
      | _ => if d = s then some fs else some (insert (remove fs s) d n)
    | .err => none
  | none => none

/-- names directly inside the directory `q`, among the candidates `univ` -/
def children (fs : FS ν) (univ : List ν) (q : List ν) : List ν :=
  univ.filter fun n => (fs (q ++ [n])).isSome

/-! ## tar -/

inductive EKind (ν : Type) where
  | file (c : Nat)
  | dir
  | symlink (t : Target ν)
  | hardlink (src : LPath ν)    -- link name as written in the archive (relative to the destination)
deriving DecidableEq, Repr

structure Entry (ν : Type) where
  path : LPath ν        -- as written: may contain `..`; a leading `/` is already dropped
  kind : EKind ν
  key : Nat := 0        -- rank of the raw path bytes among the entries (directories are applied in descending order)
deriving Repr

def hasUp : LPath ν → Bool
  | [] => false
  | .up :: _ => true
  | _ :: r => hasUp r

/-- `validate_inside_dst`: the canonical form of `p` exists and lies inside the canonical destination -/
def insideDst (fs : FS ν) (dstCanon : List ν) (p : LPath ν) : Bool :=
  match stat fs p with
  | some (q, _) => dstCanon.isPrefixOf q
  | none => false

/-- `ensure_dir_created`: every missing lexical ancestor, top down, after validating its parent -/
def ensureDirs (fs : FS ν) (dstCanon : List ν) (dst : LPath ν) : List (Comp ν) → LPath ν → Option (FS ν)
  | [], _ => some fs
  | c :: rest, done =>
    let here := done ++ [c]
    if (lstat fs (dst ++ here)).isSome then ensureDirs fs dstCanon dst rest here
    else
      -- this one and all the following are missing: validate the parent, create
      if insideDst fs dstCanon (dst ++ done) then
        match createDirAll fs (dst ++ here).length (dst ++ here) with
        | some fs' => ensureDirs fs' dstCanon dst rest here
        | none => none
      else none

/-- one entry (`EntryFields::unpack_in` + `unpack`): the state afterwards and whether the entry
succeeded (on a failure the parent directories that were created stay) -/
def unpackEntry (fs : FS ν) (dstCanon : List ν) (dst : LPath ν) (e : Entry ν) : FS ν × Bool :=
  if hasUp e.path then (fs, true)            -- skipped silently
  else if e.path.isEmpty then (fs, true)
  else
    let parentRel := e.path.dropLast
    match ensureDirs fs dstCanon dst parentRel [] with
    | none => (fs, false)
    | some fs1 =>
      if !insideDst fs1 dstCanon (dst ++ parentRel) then (fs1, false)
      else
        let full := dst ++ e.path
        match e.kind with
        | .dir =>
          match mkdir fs1 full with
          | some fs2 => (fs2, true)
          | none => match lstat fs1 full with
            | some (_, .dir) => (fs1, true)
            | _ => (fs1, false)
        | .symlink t =>
          match resolve fs1 false full with
          | .missing par n => (insert fs1 (par ++ [n]) (.link t), true)
          | .at q => match fs1 q with
            | some .dir => (fs1, false)
            | _ => (insert fs1 q (.link t), true)     -- remove_file, then symlink
          | .err => (fs1, false)
        | .hardlink src =>
          let linkSrc := lp dstCanon ++ src
          if !insideDst fs1 dstCanon linkSrc then (fs1, false)
          else match lstat fs1 linkSrc with
            | some (_, .dir) => (fs1, false)
            | some (_, n) =>
              match resolve fs1 false full with
              | .missing par nm => (insert fs1 (par ++ [nm]) n, true)
              | _ => (fs1, false)                     -- hard links never replace
            | none => (fs1, false)
        | .file c =>
          match resolve fs1 false full with
          | .missing par n => (insert fs1 (par ++ [n]) (.file c), true)
          | .at q => match fs1 q with
            | some .dir => (fs1, false)
            | _ => (insert fs1 q (.file c), true)     -- remove_file, then create_new
          | .err => (fs1, false)

def isDirEntry (e : Entry ν) : Bool := match e.kind with | .dir => true | _ => false

def unpackList (dstCanon : List ν) (dst : LPath ν) : FS ν → List (Entry ν) → FS ν × Bool
  | fs, [] => (fs, true)
  | fs, e :: r =>
    match unpackEntry fs dstCanon dst e with
    | (fs', true) => unpackList dstCanon dst fs' r
    | (fs', false) => (fs', false)

def insertByKeyDesc (e : Entry ν) : List (Entry ν) → List (Entry ν)
  | [] => [e]
  | x :: r => if x.key ≤ e.key then e :: x :: r else x :: insertByKeyDesc e r

/-- one location: the entries that can be read, and whether the stream ends properly -/
structure Archive (ν : Type) where
  present : Bool               -- the file can be opened
  entries : List (Entry ν)
  intact : Bool                -- false: the stream breaks after the listed entries
deriving Repr

/-- `Archive::unpack` into `dst` (which exists): everything but directories in order, then the
directories by descending path -/
def unpack (fs : FS ν) (dst : LPath ν) (a : Archive ν) : FS ν × Bool :=
  if !a.present then (fs, false)
  else match stat fs dst with
    | some (dstCanon, .dir) =>
      let (fs1, ok1) := unpackList dstCanon dst fs (a.entries.filter fun e => !isDirEntry e)
      if !ok1 || !a.intact then (fs1, false)
      else
        let dirs := (a.entries.filter isDirEntry).foldr insertByKeyDesc []
        unpackList dstCanon dst fs1 dirs
    | _ => (fs, false)

/-- `RetryDownloader`: a failing location is tried again (3 attempts by default), on the state the
failed attempt left -/
def unpackAttempts (dst : LPath ν) (a : Archive ν) : Nat → FS ν → FS ν × Bool
  | 0, fs => (fs, false)
  | k + 1, fs =>
    if !isDir fs dst then unpackAttempts dst a k fs      -- "target path is not a directory"
    else
      let (fs', ok) := unpack fs dst a
      if ok then (fs', true) else unpackAttempts dst a k fs'

def ATTEMPTS : Nat := 3

/-- `download_unpack_file`: the locations in turn until one succeeds -/
def unpackFirst (dst : LPath ν) : FS ν → List (Archive ν) → FS ν × Bool
  | fs, [] => (fs, false)
  | fs, a :: r =>
    let (fs', ok) := unpackAttempts dst a ATTEMPTS fs
    if ok then (fs', true) else unpackFirst dst fs' r

/-! ## the client -/

inductive Sig where | ok | bad | none
deriving DecidableEq, Repr

structure Manifest (ν : Type) where
  entries : List (LPath ν × Nat)       -- in the iteration order of the `BTreeMap<PathBuf, String>`
  sig : Sig
deriving Repr

structure Cfg (ν : Type) where
  db : ν
  immutable : ν
  ledger : ν
  volatile : ν
  clean : ν
  magicFile : ν
  manifestFile : ν
  tmp : ν                       -- stands for `ancillary-<download id>`
  trio : Nat → List ν
  univ : List ν                 -- every name that occurs in the case (to enumerate directories)

inductive Range where
  | full
  | from_ (a : Nat)
  | range (a b : Nat)
  | upTo (b : Nat)
deriving DecidableEq, Repr

def Range.bounds : Range → Nat → Option (Nat × Nat)
  | .full, last => some (0, last)
  | .from_ a, last => if a ≤ last then some (a, last) else none
  | .range a b, last => if a ≤ last ∧ b ≤ last ∧ a ≤ b then some (a, b) else none
  | .upTo b, last => if b ≤ last then some (0, b) else none

structure Input (ν : Type) where
  range : Range
  last : Nat
  allowOverride : Bool
  includeAncillary : Bool
  verifierSet : Bool
  immutables : Nat → List (Archive ν)          -- locations per immutable file number
  ancillary : List (Archive ν)
  manifestOf : Nat → Option (Manifest ν)       -- manifest content ↦ parsed manifest (none: not JSON)
  emptyContent : Nat                           -- token of the empty content
  magicContent : Option Nat                    -- content of `protocolMagicId`, if the network is known

/-- `AncillaryFilesManifest::verify_data`, fixed: the entry itself must be a regular file, and the
content read through it must hash to the manifest value -/
def verifyData (fs : FS ν) (tmp : LPath ν) : List (LPath ν × Nat) → Bool
  | [] => true
  | (p, h) :: r =>
    (match lstat fs (tmp ++ p) with
     | some (_, .file c) => c == h
     | _ => false) && verifyData fs tmp r

/-- the same before the fix (kept for the counter-example): hash whatever `open` reaches -/
def verifyDataOld (fs : FS ν) (tmp : LPath ν) : List (LPath ν × Nat) → Bool
  | [] => true
  | (p, h) :: r => (readFile fs (tmp ++ p) == some h) && verifyDataOld fs tmp r

/-- `AncillaryVerifier::verify` -/
def verifyAncillary (fixed : Bool) (C : Cfg ν) (I : Input ν) (fs : FS ν) (tmp : LPath ν) :
    Option (List (LPath ν)) :=
  match readFile fs (tmp ++ [.nm C.manifestFile]) with
  | none => none
  | some c =>
    match I.manifestOf c with
    | none => none
    | some m =>
      if !(if fixed then verifyData fs tmp m.entries else verifyDataOld fs tmp m.entries) then none
      else match m.sig with
        | .ok => some (m.entries.map (·.1))
        | _ => none

def ensureParents (fs : FS ν) (dst : LPath ν) : List (LPath ν) → Option (FS ν)
  | [] => some fs
  | f :: r =>
    let parent := dst ++ f.dropLast
    if pexists fs parent then ensureParents fs dst r
    else match createDirAll fs parent.length parent with
      | some fs' => ensureParents fs' dst r
      | none => none

def moveFiles (tmp dst : LPath ν) : FS ν → List (LPath ν) → FS ν × Bool
  | fs, [] => (fs, true)
  | fs, f :: r =>
    match rename fs (tmp ++ f) (dst ++ f) with
    | some fs' => moveFiles tmp dst fs' r
    | none => (fs, false)

/-- `move_to_final_location` -/
def moveToFinal (fs : FS ν) (tmp dst : LPath ν) (files : List (LPath ν)) : FS ν × Bool :=
  match ensureParents fs dst files with
  | none => (fs, false)     -- the directories created before the failure stay; see `ensureParentsPartial`
  | some fs1 => moveFiles tmp dst fs1 files

/-- like `ensureParents`, returning the state reached when it fails -/
def ensureParentsPartial (fs : FS ν) (dst : LPath ν) : List (LPath ν) → FS ν
  | [] => fs
  | f :: r =>
    let parent := dst ++ f.dropLast
    if pexists fs parent then ensureParentsPartial fs dst r
    else match createDirAll fs parent.length parent with
      | some fs' => ensureParentsPartial fs' dst r
      | none => fs

/-- the ancillary task of `build_download_future` -/
def ancillaryTask (fixed : Bool) (C : Cfg ν) (I : Input ν) (fs : FS ν) : FS ν × Bool :=
  let dst : LPath ν := [.nm C.db]
  let tmp : LPath ν := [.nm C.db, .nm C.tmp]
  match mkdir fs tmp with
  | none => (fs, false)
  | some fs0 =>
    let (fs1, ok1) := unpackFirst tmp fs0 I.ancillary
    let (fs2, ok2) :=
      if !ok1 then (fs1, false)
      else match verifyAncillary fixed C I fs1 tmp with
        | none => (fs1, false)
        | some files =>
          match ensureParents fs1 dst files with
          | none => (ensureParentsPartial fs1 dst files, false)
          | some fs' => moveFiles tmp dst fs' files
    ((removeDirAll fs2 tmp).getD fs2, ok2)

def immutableTasks (C : Cfg ν) (I : Input ν) : FS ν → List Nat → FS ν × Bool
  | fs, [] => (fs, true)
  | fs, n :: r =>
    let (fs', ok) := unpackFirst [.nm C.db] fs (I.immutables n)
    if ok then immutableTasks C I fs' r else (fs', false)

def numbersIn (lo hi : Nat) : List Nat := (List.range (hi + 1 - lo)).map (· + lo)

/-- `ExpectedFilesAfterDownload::remove_unexpected_files`: every entry of `immutable/` that is not
expected goes, with everything below it (a link to a directory: only the link) -/
def cleanup (C : Cfg ν) (fs : FS ν) (expected : List ν) : Option (FS ν) :=
  let imm : LPath ν := [.nm C.db, .nm C.immutable]
  if !pexists fs imm then some fs
  else match stat fs imm with
    | some (q, .dir) =>
      some fun p =>
        if q.isPrefixOf p then
          match p.drop q.length with
          | [] => fs p
          | n :: _ => if expected.contains n then fs p else none
        else fs p
    | _ => none

/-- `create_bootstrap_node_files` -/
def bootstrap (C : Cfg ν) (I : Input ν) (fs : FS ν) : FS ν × Bool :=
  let fs1 := (createFile fs [.nm C.db, .nm C.clean] I.emptyContent).getD fs
  match I.magicContent with
  | none => (fs1, true)
  | some c =>
    match createFile fs1 [.nm C.db, .nm C.magicFile] c with
    | some fs2 => (fs2, true)
    | none => (fs1, false)

/-- `InternalArtifactDownloader::download_unpack` with `max_parallel_downloads = 1` -/
def run (fixed : Bool) (C : Cfg ν) (I : Input ν) (fs : FS ν) : FS ν × Bool :=
  match I.range.bounds I.last with
  | none => (fs, false)
  | some (lo, hi) =>
    if I.includeAncillary && !(decide (lo ≤ I.last) && decide (I.last ≤ hi)) then (fs, false)
    else
      let sub := fun (n : ν) => pexists fs [.nm C.db, .nm n]
      if !I.allowOverride && (sub C.immutable || (I.includeAncillary && (sub C.volatile || sub C.ledger)))
      then (fs, false)
      else
        let imm : LPath ν := [.nm C.db, .nm C.immutable]
        -- after the `fix:` commit 3360edee4 the expected trios are those of the REQUESTED range (+1 with the ancillary
        -- files, whose range has to end at the beacon); before it: every trio of 0..=beacon (+1)
        let upper := if fixed then (if I.includeAncillary then hi + 1 else hi) else (if I.includeAncillary then I.last + 1 else I.last)
        let lower := if fixed then lo else 0
        let pre : Option (List ν) :=
          if pexists fs imm then
            match stat fs imm with
            | some (q, .dir) => some (children fs C.univ q)
            | _ => none
          else some []
        match pre with
        | none => (fs, false)
        | some names =>
          let expected := names ++ (numbersIn lower upper).flatMap C.trio
          if I.includeAncillary && !I.verifierSet then (fs, false)
          else
            let (fs1, ok1) := immutableTasks C I fs (numbersIn lo hi)
            let (fs2, ok2) :=
              if ok1 && I.includeAncillary then ancillaryTask fixed C I fs1 else (fs1, ok1)
            match cleanup C fs2 expected with
            | none => (fs2, false)
            | some fs3 =>
              if !ok2 then (fs3, false)
              else bootstrap C I fs3

end Restore.Full

/-! ## lemmas -/
namespace Restore.Full
variable {ν : Type} [DecidableEq ν]

/-- what the fixed `verify_data` establishes: every manifest entry IS a regular file (the entry
itself, not what it resolves to) whose content is the manifest value -/
theorem verifyData_regular (fs : FS ν) (tmp : LPath ν) : ∀ (es : List (LPath ν × Nat)),
    verifyData fs tmp es = true → ∀ e ∈ es, ∃ q, lstat fs (tmp ++ e.1) = some (q, .file e.2) := by
  intro es
  induction es with
  | nil => intro _ e he; cases he
  | cons x r ih =>
    obtain ⟨p, h⟩ := x
    intro hv e he
    simp only [verifyData, Bool.and_eq_true] at hv
    rcases List.mem_cons.1 he with rfl | he
    · cases hl : lstat fs (tmp ++ p) with
      | none => rw [hl] at hv; simp at hv
      | some qn =>
        obtain ⟨q, n⟩ := qn
        cases n with
        | file c =>
          rw [hl] at hv
          have : c = h := by simpa using hv.1
          exact ⟨q, by rw [this]⟩
        | link t => rw [hl] at hv; simp at hv
        | dir => rw [hl] at hv; simp at hv
    · exact ih hv.2 e he

/-- acceptance of the ancillary archive: a parsed manifest, all entries regular files with the listed
content, and the signature verified -/
theorem verifyAncillary_some (C : Cfg ν) (I : Input ν) (fs : FS ν) (tmp : LPath ν) (files : List (LPath ν))
    (h : verifyAncillary true C I fs tmp = some files) :
    ∃ c m, readFile fs (tmp ++ [.nm C.manifestFile]) = some c ∧ I.manifestOf c = some m ∧
      m.sig = Sig.ok ∧ files = m.entries.map (·.1) ∧
      ∀ e ∈ m.entries, ∃ q, lstat fs (tmp ++ e.1) = some (q, .file e.2) := by
  unfold verifyAncillary at h
  cases hr : readFile fs (tmp ++ [.nm C.manifestFile]) with
  | none => simp [hr] at h
  | some c =>
    cases hm : I.manifestOf c with
    | none => simp [hr, hm] at h
    | some m =>
      simp only [hr, hm, if_true] at h
      by_cases hv : verifyData fs tmp m.entries = true
      · simp only [hv, Bool.not_true, Bool.false_eq_true, if_false] at h
        cases hs : m.sig with
        | ok =>
          rw [hs] at h
          injection h with h
          exact ⟨c, m, rfl, hm, hs, h.symm, verifyData_regular fs tmp m.entries hv⟩
        | bad => rw [hs] at h; cases h
        | none => rw [hs] at h; cases h
      · simp [hv] at h

/-- `rename` of a regular file onto a free name: the node at the resolved destination is that file -/
theorem rename_file_missing (fs fs' : FS ν) (src dst : LPath ν) (s : List ν) (c : Nat) (par : List ν) (nm : ν)
    (hs : lstat fs src = some (s, .file c)) (hd : resolve fs false dst = .missing par nm)
    (h : rename fs src dst = some fs') :
    fs' (par ++ [nm]) = some (.file c) ∧ ∀ p, p ≠ par ++ [nm] → p ≠ s → fs' p = fs p := by
  simp only [rename, hs, hd, Option.some.injEq] at h
  subst h
  constructor
  · simp [insert]
  · intro p h1 h2; simp [insert, remove, h1, h2]

/-- … and onto an existing file or link: it is replaced by that file -/
theorem rename_file_replace (fs fs' : FS ν) (src dst : LPath ν) (s d : List ν) (c : Nat)
    (hs : lstat fs src = some (s, .file c)) (hd : resolve fs false dst = .at d)
    (hnd : fs d ≠ some .dir) (hne : d ≠ s) (h : rename fs src dst = some fs') :
    fs' d = some (.file c) ∧ ∀ p, p ≠ d → p ≠ s → fs' p = fs p := by
  simp only [rename, hs, hd] at h
  cases hfd : fs d with
  | none =>
    simp only [hfd, hne, if_false, Option.some.injEq] at h
    subst h
    exact ⟨by simp [insert], fun p h1 h2 => by simp [insert, remove, h1, h2]⟩
  | some n =>
    cases n with
    | dir => exact absurd hfd hnd
    | file c' =>
      simp only [hfd, hne, if_false, Option.some.injEq] at h
      subst h
      exact ⟨by simp [insert], fun p h1 h2 => by simp [insert, remove, h1, h2]⟩
    | link t =>
      simp only [hfd, hne, if_false, Option.some.injEq] at h
      subst h
      exact ⟨by simp [insert], fun p h1 h2 => by simp [insert, remove, h1, h2]⟩

/-- the clean-up: below the (resolved) `immutable` directory only expected names stay, nothing
outside it changes, and nothing is ever added -/
theorem cleanup_spec (C : Cfg ν) (fs fs' : FS ν) (expected : List ν) (q : List ν)
    (hq : stat fs [.nm C.db, .nm C.immutable] = some (q, .dir))
    (h : cleanup C fs expected = some fs') :
    (∀ n rest, fs' (q ++ n :: rest) ≠ none → n ∈ expected) ∧
    (∀ p, q.isPrefixOf p = false → fs' p = fs p) ∧
    (∀ p x, fs' p = some x → fs p = some x) := by
  have hex : pexists fs [.nm C.db, .nm C.immutable] = true := by simp [pexists, hq]
  simp only [cleanup, hex, Bool.not_true, Bool.false_eq_true, if_false, hq, Option.some.injEq] at h
  subst h
  refine ⟨?_, ?_, ?_⟩
  · intro n rest hne
    have hp : q.isPrefixOf (q ++ n :: rest) = true := by
      rw [List.isPrefixOf_iff_prefix]; exact List.prefix_append _ _
    simp only [hp, if_true, List.drop_left] at hne
    by_cases hc : expected.contains n = true
    · exact List.contains_iff_mem.1 hc
    · simp at hne; exact hne.1
  · intro p hp; simp [hp]
  · intro p x hx
    by_cases hp : q.isPrefixOf p = true
    · simp only [hp, if_true] at hx
      split at hx
      · exact hx
      · split at hx
        · exact hx
        · cases hx
    · simp only [hp, Bool.false_eq_true, if_false] at hx; exact hx

/-- when there is no `immutable` directory the clean-up does nothing -/
theorem cleanup_absent (C : Cfg ν) (fs : FS ν) (expected : List ν)
    (h : pexists fs [.nm C.db, .nm C.immutable] = false) : cleanup C fs expected = some fs := by
  simp [cleanup, h]

/-- `remove_dir_all` of a directory leaves nothing below it and touches nothing else -/
theorem removeDirAll_dir (fs fs' : FS ν) (p : LPath ν) (q : List ν)
    (hq : lstat fs p = some (q, .dir)) (h : removeDirAll fs p = some fs') :
    (∀ r, q.isPrefixOf r = true → fs' r = none) ∧ (∀ r, q.isPrefixOf r = false → fs' r = fs r) := by
  simp only [removeDirAll, hq, Option.some.injEq] at h
  subst h
  exact ⟨fun r hr => by simp [removeTree, hr], fun r hr => by simp [removeTree, hr]⟩

/-- the ancillary task ends with the removal of the temporary directory, whatever happened before;
and when the verification fails nothing is moved: the state is the unpacked one minus that directory -/
theorem ancillaryTask_failure (C : Cfg ν) (I : Input ν) (fs fs0 : FS ν)
    (h0 : mkdir fs [.nm C.db, .nm C.tmp] = some fs0)
    (hv : verifyAncillary true C I (unpackFirst [.nm C.db, .nm C.tmp] fs0 I.ancillary).1 [.nm C.db, .nm C.tmp] = none) :
    ancillaryTask true C I fs =
      let fs1 := (unpackFirst [.nm C.db, .nm C.tmp] fs0 I.ancillary).1
      ((removeDirAll fs1 [.nm C.db, .nm C.tmp]).getD fs1, false) := by
  simp only [ancillaryTask, h0]
  cases hu : unpackFirst [.nm C.db, .nm C.tmp] fs0 I.ancillary with
  | mk fs1 ok1 =>
    rw [hu] at hv
    simp only at hv
    cases ok1 <;> simp [hv]

end Restore.Full
