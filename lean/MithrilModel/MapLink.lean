import MithrilModel.MkProof
/-!
Link between the EXECUTABLE nested-proof verifier (`MkProof.MapProof.verify`, the function the
correspondence harness compares with `MKMapProof::verify`) and the inductive predicate `Verified` of
`Nested.lean` on which `nested_sound` is stated — so that the soundness theorem applies to exactly the
function that is validated against the code.
-/
namespace MapLink
open Mmr ExprTree MkProof

variable {α : Type} [DecidableEq α] (merge : α → α → α)

/-- an accepted `MKProof` yields a verifier expression whose value is the proof's root and whose claims
contain EVERY listed leaf value (also the ones dropped by the position de-duplication: after the fix they
carry the same value as the survivor) -/
theorem verify_gives_expr (p : Proof α) (hv : MkProof.verify merge p = true) :
    ∃ e : V α, veval merge e = p.root ∧ ∀ l ∈ p.leaves, l.2 ∈ claims e := by
  unfold MkProof.verify at hv
  simp only [Bool.and_eq_true, beq_iff_eq] at hv
  obtain ⟨hnc, hcalc⟩ := hv
  have hom : ∀ a b : V α, veval merge (V.node a b) = merge (veval merge a) (veval merge b) := fun _ _ => rfl
  have hmap := calcRoot_map V.node merge (veval merge) hom (fuelFor p) p.size
    (mapL V.claim p.leaves) (p.items.map V.item)
  have h1 : mapL (veval merge) (mapL V.claim p.leaves) = p.leaves := by
    simp only [mapL, List.map_map]
    conv => rhs; rw [← List.map_id p.leaves]
    apply List.map_congr_left
    intro e _; rfl
  have h2 : (p.items.map V.item).map (veval merge) = p.items := by
    simp only [List.map_map]
    conv => rhs; rw [← List.map_id p.items]
    apply List.map_congr_left
    intro e _; rfl
  rw [h1, h2, hcalc] at hmap
  cases he : calcRoot V.node (fuelFor p) p.size (mapL V.claim p.leaves) (p.items.map V.item) with
  | none => rw [he] at hmap; simp at hmap
  | some e =>
    rw [he] at hmap
    simp only [Option.map_some, Option.some.injEq] at hmap
    refine ⟨e, hmap.symm, ?_⟩
    intro l hl
    -- the survivor at l's position
    obtain ⟨y, hy, hpos⟩ := dedupPos_pos (sortPos p.leaves) l ((mem_sortPos _ _).mpr hl)
    have hyl : y ∈ p.leaves := (mem_sortPos _ _).mp (dedupPos_sub _ y hy)
    have hval : y.2 = l.2 := noConflict_spec hnc y hyl l hl hpos
    have hy' : (y.1, V.claim y.2) ∈ dedupPos (sortPos (mapL V.claim p.leaves)) := by
      rw [sortPos_mapL, dedupPos_mapL]
      simp only [mapL, List.mem_map]
      exact ⟨y, hy, rfl⟩
    have := calcRoot_cover (fuelFor p) p.size _ _ e he _ hy' y.2 (by simp [claims])
    rw [hval] at this
    exact this

/-- the abstract nested proof a `MapProof` stands for -/
def toN : MapProof α → NProof α
  | .mk m subs => .mk m.root (m.leaves.map (·.2)) (toNs subs)
where
  toNs : List (α × MapProof α) → List (α × NProof α)
    | [] => []
    | (k, p) :: r => (k, toN p) :: toNs r

theorem toN_root (p : MapProof α) : (toN p).root = p.master.root := by
  cases p; rfl

theorem mem_toNs {subs : List (α × MapProof α)} {kp : α × NProof α} (h : kp ∈ toN.toNs subs) :
    ∃ q, (kp.1, q) ∈ subs ∧ kp.2 = toN q := by
  induction subs with
  | nil => simp [toN.toNs] at h
  | cons a r ih =>
    obtain ⟨k, p⟩ := a
    simp only [toN.toNs, List.mem_cons] at h
    rcases h with rfl | h
    · exact ⟨p, by simp, rfl⟩
    · obtain ⟨q, hq, e⟩ := ih h
      exact ⟨q, by simp [hq], e⟩

theorem verifySubs_mem {subs : List (α × MapProof α)} (h : verifySubs merge subs = true)
    {k : α} {q : MapProof α} (hm : (k, q) ∈ subs) : q.verify merge = true := by
  induction subs with
  | nil => simp at hm
  | cons a r ih =>
    obtain ⟨k', p⟩ := a
    simp only [verifySubs, Bool.and_eq_true] at h
    rcases List.mem_cons.mp hm with he | hm
    · cases he; exact h.1
    · exact ih h.2 hm

theorem linkNodes_mem {subs : List (α × MapProof α)} {k : α} {q : MapProof α} (hm : (k, q) ∈ subs) :
    merge k q.master.root ∈ linkNodes merge subs := by
  induction subs with
  | nil => simp at hm
  | cons a r ih =>
    obtain ⟨k', p⟩ := a
    simp only [linkNodes, List.mem_cons]
    rcases List.mem_cons.mp hm with he | hm
    · cases he; exact Or.inl rfl
    · exact Or.inr (ih hm)

theorem contains_all {m : Proof α} {q : List α} (h : MkProof.contains m q = true) :
    ∀ x ∈ q, x ∈ m.leaves.map (·.2) := by
  intro x hx
  unfold MkProof.contains at h
  have := List.all_eq_true.mp h x hx
  simp only [List.any_eq_true, beq_iff_eq] at this
  obtain ⟨l, hl, e⟩ := this
  exact List.mem_map.mpr ⟨l, hl, e⟩

theorem verify_verified_aux : ∀ (n : Nat) (p : MapProof α), sizeOf p ≤ n → p.verify merge = true →
    Verified merge (toN p) := by
  intro n
  induction n with
  | zero =>
    intro p hs _
    cases p with
    | mk m subs => simp at hs
  | succ n ih =>
    intro p hs h
    cases p with
    | mk m subs =>
      simp only [MapProof.verify, Bool.and_eq_true, Bool.or_eq_true] at h
      obtain ⟨⟨hsubs, hm⟩, hlink⟩ := h
      obtain ⟨e, he, hcl⟩ := verify_gives_expr merge m hm
      refine Verified.mk m.root _ _ e he ?_ ?_ ?_
      · intro a ha
        obtain ⟨l, hl, rfl⟩ := List.mem_map.mp ha
        exact hcl l hl
      · intro kp hkp
        obtain ⟨q, hq, e2⟩ := mem_toNs hkp
        rw [e2]
        have hlt : sizeOf q ≤ n := by
          have h1 := List.sizeOf_lt_of_mem hq
          simp only [MapProof.mk.sizeOf_spec, Prod.mk.sizeOf_spec] at h1 hs
          omega
        exact ih q hlt (verifySubs_mem merge hsubs hq)
      · intro kp hkp
        obtain ⟨q, hq, e2⟩ := mem_toNs hkp
        rw [e2, toN_root]
        rcases hlink with hempty | hc
        · cases subs with
          | nil => simp at hq
          | cons _ _ => simp at hempty
        · exact contains_all hc _ (linkNodes_mem merge hq)

/-- **the executable verifier establishes `Verified`** -/
theorem verify_verified (p : MapProof α) (h : p.verify merge = true) : Verified merge (toN p) :=
  verify_verified_aux merge (sizeOf p) p (Nat.le_refl _) h

/-- executable `contains` ⇒ the inductive `Contains` -/
theorem contains_contains_aux : ∀ (n : Nat) (p : MapProof α) (x : α), sizeOf p ≤ n → p.contains x = true →
    Contains (toN p) x := by
  intro n
  induction n with
  | zero => intro p x hs _; cases p with | mk m subs => simp at hs
  | succ n ih =>
    intro p x hs h
    cases p with
    | mk m subs =>
      simp only [MapProof.contains, Bool.or_eq_true] at h
      rcases h with h | h
      · exact Contains.here _ _ _ x (contains_all h x (by simp))
      · -- found in some sub-proof
        have : ∃ k q, (k, q) ∈ subs ∧ q.contains x = true := by
          clear hs ih
          induction subs with
          | nil => simp [containsSubs] at h
          | cons a r ihr =>
            obtain ⟨k, q⟩ := a
            simp only [containsSubs, Bool.or_eq_true] at h
            rcases h with h | h
            · exact ⟨k, q, by simp, h⟩
            · obtain ⟨k', q', hm, hc⟩ := ihr h
              exact ⟨k', q', by simp [hm], hc⟩
        obtain ⟨k, q, hq, hc⟩ := this
        have hlt : sizeOf q ≤ n := by
          have h1 := List.sizeOf_lt_of_mem hq
          simp only [MapProof.mk.sizeOf_spec, Prod.mk.sizeOf_spec] at h1 hs
          omega
        have hmem : (k, toN q) ∈ toN.toNs subs := by
          clear hs ih h hlt hc
          induction subs with
          | nil => simp at hq
          | cons a r ihr =>
            obtain ⟨k', q'⟩ := a
            simp only [toN.toNs, List.mem_cons]
            rcases List.mem_cons.mp hq with he | hq
            · cases he; exact Or.inl rfl
            · exact Or.inr (ihr hq)
        exact Contains.sub _ _ _ (k, toN q) x hmem (ih q x hlt hc)

theorem contains_contains (p : MapProof α) (x : α) (h : p.contains x = true) : Contains (toN p) x :=
  contains_contains_aux (sizeOf p) p x (Nat.le_refl _) h

/-- **soundness of the EXECUTABLE nested verifier**: what an accepted `MKMapProof` contains, and is not a
merge value, is a leaf of the expression tree its root commits to -/
theorem map_verify_contains_sound
    (hinj : ∀ a b c d, merge a b = merge c d → a = c ∧ b = d)
    (p : MapProof α) (x : α) (hv : p.verify merge = true) (hc : p.contains x = true)
    (t : E α) (hr : p.master.root = eval merge t) (hT : ∀ a ∈ leaves t, ¬ IsMerge merge a)
    (hx : ¬ IsMerge merge x) : x ∈ leaves t :=
  nested_sound_leaf merge hinj (toN p) x (contains_contains p x hc) t (verify_verified merge p hv)
    (by rw [toN_root]; exact hr) hT hx

end MapLink
