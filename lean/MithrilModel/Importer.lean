import MithrilModel.ImportGood
import MithrilModel.ImportTx
/-!
# C13 — the importer over a whole history (executable model used by the driver)

`Import.poll` / `applyOut` / `applyOutRoots` / `rangesRun` are the proven definitions; this file adds
what the driver needs around them, transliterated from
* `BlocksTransactionsImporter::run` (early exit when the highest stored block is at or above the
  target; resume point = in-memory last polled point, else the highest stored point; the last polled
  point is kept after the scan),
* `CardanoChainDataImporter::import` (blocks, then `BlockRangeImporter::run` and `run_legacy`),
* `CardanoTransactionRepository::store_blocks_and_transactions` (one sqlite transaction per batch:
  `insert or ignore` of the blocks, then of the transaction rows — keyed by the transaction hash
  alone: a row whose hash is stored is dropped, whatever block it names; the foreign key of a row that
  IS inserted is not ignored: a shadowed block that carries new transactions makes the cursor panic and
  the batch roll back),
* the `on delete cascade` of `cardano_tx` on every deletion of blocks (roll-back, `prune_transaction`),
* `prune_transaction`,
and the class letter of each import (the decision procedure of `Good`, with the first violated clause).
-/
namespace Importer
open Import

/-! ## the class of one import -/

/-- first violated clause of `Good`, `none` if the script is good:
`'x'` a forward that does not extend the chain, `'1'` the echo roll-back to the scan's start point is
not a no-op, `'2'` a roll-back to a point that is not in the chain known to the node -/
def classEv (c : Cfg) (lp : Option Nat) (V : List Block) : Ev → Option Char
  | .fwd b => if V.all (fun x => ltB x b) then none else some 'x'
  | .back s =>
    if s = c.fromSlot ∧ lp = none then (if V.all (fun x => x.slot ≤ s) then none else some '1')
    else (if V.any (fun x => x.slot = s) || V.isEmpty then none else some '2')

def classB (c : Cfg) : Option Nat → List Block → List (Option Ev) → Option Char
  | _, _, [] => none
  | lp, V, none :: rs => classB c lp V rs
  | lp, V, some e :: rs =>
    match classEv c lp V e with
    | some ch => some ch
    | none => classB c (lpNext c lp e) (applyEv V e) rs

theorem classEv_none_iff (c : Cfg) (lp : Option Nat) (V : List Block) (e : Ev) :
    classEv c lp V e = none ↔ goodEvB c lp V e = true := by
  cases e with
  | fwd b => simp [classEv, goodEvB]
  | back s =>
    by_cases h : s = c.fromSlot ∧ lp = none
    · simp only [classEv, goodEvB, if_pos h]; split <;> simp_all
    · simp only [classEv, goodEvB, if_neg h]; split <;> simp_all

/-- the class letter is absent exactly on the scripts the refinement theorem covers -/
theorem classB_none_iff (c : Cfg) : ∀ (rs : List (Option Ev)) (lp : Option Nat) (V : List Block),
    classB c lp V rs = none ↔ Good c lp V rs := by
  intro rs
  induction rs with
  | nil => intro lp V; simp [classB, Good]
  | cons r rs ih =>
    intro lp V
    cases r with
    | none => simpa [classB, Good] using ih lp V
    | some e =>
      simp only [classB, Good]
      cases hc : classEv c lp V e with
      | some ch =>
        have : ¬ goodEvB c lp V e = true := by
          intro hg; rw [(classEv_none_iff c lp V e).mpr hg] at hc; cases hc
        simp only [reduceCtorEq, false_iff, not_and]
        intro hg; exact absurd ((goodEvB_iff c lp V e).mpr hg) this
      | none =>
        have hg := (goodEvB_iff c lp V e).mp ((classEv_none_iff c lp V e).mp hc)
        simp only [hg, true_and]
        exact ih _ _

def sortedB : List Block → Bool
  | [] => true
  | x :: r => r.all (fun y => ltB x y) && sortedB r

theorem sortedB_iff : ∀ (S : List Block), sortedB S = true ↔ Sorted S
  | [] => by simp [sortedB, Sorted]
  | x :: r => by
    simp only [sortedB, Bool.and_eq_true, List.all_eq_true, Sorted, List.pairwise_cons, ltB_iff]
    exact and_congr Iff.rfl (sortedB_iff r)

def belowB (S : List Block) (K : Nat) : Bool := K == 0 || S.any (fun b => K * LEN ≤ b.number + 1)

theorem belowB_iff (S : List Block) (K : Nat) : belowB S K = true ↔ Below S K := by
  simp [belowB, Below]

/-! ## the store with the panic of the foreign key -/

/-- the batch insert panics: some transaction row that IS inserted (its hash was not stored: the rows
appended to the table) names a block that is not in the block table after the `insert or ignore` of the
blocks (the block was shadowed on its number or slot by another block) -/
def panics (txsOf : Nat → List Nat) (S : List Block) (T : List TxRow) : Option Out → Bool
  | some (.forwards bs) =>
    ((insertTxs T (rowsOf txsOf bs)).drop T.length).any (fun r => !((insertAll S bs).any (fun x => x.hash = r.2)))
  | _ => false

def opOf : Out → String
  | .forwards bs => s!"s{bs.length}"
  | .backward s => s!"r{s}"

structure X (ρ : Type) where
  S : List Block
  T : List TxRow
  roots : List (Nat × ρ)
  legacy : List (Nat × ρ)
  rest : List (Option Ev)
  lp : Option Nat
  ops : List String
  panicked : Bool

variable {ρ : Type}

/-- the scan loop on blocks, transaction rows and both root tables, with the store-call log and the
panic outcome -/
def runX (txsOf : Nat → List Nat) (c : Cfg) : Nat → Option Nat → List Block → List TxRow → List (Nat × ρ) → List (Nat × ρ) →
    List (Option Ev) → List String → X ρ
  | 0, lp, S, T, roots, legacy, rs, ops => ⟨S, T, roots, legacy, rs, lp, ops, false⟩
  | fuel + 1, lp, S, T, roots, legacy, rs, ops =>
    match poll c lp [] rs with
    | (none, rest, lp') => ⟨S, T, roots, legacy, rest, lp', ops, false⟩
    | (some out, rest, lp') =>
      if panics txsOf S T (some out) then ⟨S, T, roots, legacy, rest, lp', opOf out :: ops, true⟩
      else runX txsOf c fuel lp' (applyOut S (some out)) (applyOutT txsOf S T (some out)) (applyOutRoots S roots (some out))
        (applyOutRoots S legacy (some out)) rest (opOf out :: ops)

/-- without a panic the logged loop IS the proven loop `Import.runF` (for either root table) and, on
the transaction rows, the proven loop `Import.runT` -/
theorem runX_eq_runF (txsOf : Nat → List Nat) (c : Cfg) : ∀ (fuel : Nat) (lp : Option Nat) (S : List Block) (T : List TxRow)
    (roots legacy : List (Nat × ρ)) (rs : List (Option Ev)) (ops : List String),
    (runX txsOf c fuel lp S T roots legacy rs ops).panicked = false →
    (runX txsOf c fuel lp S T roots legacy rs ops).S = (runF c fuel lp S roots rs).1 ∧
    (runX txsOf c fuel lp S T roots legacy rs ops).roots = (runF c fuel lp S roots rs).2.1 ∧
    (runX txsOf c fuel lp S T roots legacy rs ops).legacy = (runF c fuel lp S legacy rs).2.1 ∧
    (runX txsOf c fuel lp S T roots legacy rs ops).rest = (runF c fuel lp S roots rs).2.2.1 ∧
    (runX txsOf c fuel lp S T roots legacy rs ops).lp = (runF c fuel lp S roots rs).2.2.2 ∧
    (runX txsOf c fuel lp S T roots legacy rs ops).T = (runT txsOf c fuel lp S T rs).2.1 := by
  intro fuel
  induction fuel with
  | zero => intro lp S T roots legacy rs ops _; simp [runX, runF, runT]
  | succ fuel ih =>
    intro lp S T roots legacy rs ops h
    simp only [runX, runF, runT] at h ⊢
    cases hp : poll c lp [] rs with
    | mk out rest' =>
      cases rest' with
      | mk rest lp' =>
        rw [hp] at h
        cases out with
        | none => simp
        | some o =>
          simp only at h ⊢
          by_cases hpan : panics txsOf S T (some o) = true
          · rw [if_pos hpan] at h; simp at h
          · rw [if_neg hpan] at h ⊢
            exact ih _ _ _ _ _ _ _ h

/-! ## importer state over a history -/

structure St (ρ : Type) where
  blocks : List Block
  /-- the rows of `cardano_tx` -/
  txs : List TxRow
  roots : List (Nat × ρ)
  legacy : List (Nat × ρ)
  /-- slot of `BlocksTransactionsImporter::last_polled_point` -/
  lastPolled : Option Nat

/-- `get_highest_beacon`: the block with the highest number -/
def highest (S : List Block) : Option Block :=
  S.foldl (fun acc b => match acc with
    | none => some b
    | some a => if a.number < b.number then some b else some a) none

structure StepOut (ρ : Type) where
  st : St ρ
  /-- slot handed to `set_chain_point`: `none` = no scan (early exit), `some none` = origin -/
  from? : Option (Option Nat)
  ops : List String
  left : Nat
  panicked : Bool
  cls : Char

/-- one `CardanoChainDataImporter::import(target)` on the recorded reply script; the range importers
read the blocks joined with the transaction rows: `R T` / `RL T` is the root of a range for the table `T` -/
def importStep (txsOf : Nat → List Nat) (R RL : List TxRow → List Block → Option ρ) (maxPer : Nat) (st : St ρ) (target : Nat)
    (rs : List (Option Ev)) : StepOut ρ :=
  let hs := highest st.blocks
  let early : Bool := match hs with
    | some b => decide (b.number ≥ target)
    | none => false
  if early then
    let roots := rangesRun (R st.txs) st.blocks st.roots target
    let legacy := rangesRun (RL st.txs) st.blocks st.legacy target
    { st := { st with roots := roots, legacy := legacy }, from? := none, ops := [], left := rs.length, panicked := false, cls := 'e' }
  else
    let fromSlot : Option Nat := match st.lastPolled with
      | some s => some s
      | none => hs.map (·.slot)
    let c : Cfg := ⟨fromSlot.getD 0, target, maxPer⟩
    let x := runX txsOf c (rs.length + 1) none st.blocks st.txs st.roots st.legacy rs []
    -- the hypotheses of the refinement theorems, decided: the store is a chain, the script is `Good`,
    -- and no chain the node presents carries a transaction twice (`GoodTx`, reported as `x`)
    let pre : Option Char :=
      if sortedB st.blocks then
        match classB c none st.blocks rs with
        | some ch => some ch
        | none => if goodTxB txsOf st.blocks rs then none else some 'x'
      else some 'p'
    if x.panicked then
      { st := { blocks := x.S, txs := x.T, roots := x.roots, legacy := x.legacy, lastPolled := none }, from? := some fromSlot,
        ops := x.ops.reverse, left := x.rest.length, panicked := true, cls := pre.getD 'g' }
    else
      let roots := rangesRun (R x.T) x.S x.roots target
      let legacy := rangesRun (RL x.T) x.S x.legacy target
      let cls := match pre with
        | some ch => ch
        | none => if belowB x.S ((target + 1) / LEN) then 'g' else '3'
      { st := { blocks := x.S, txs := x.T, roots := roots, legacy := legacy,
                lastPolled := match x.lp with | some s => some s | none => st.lastPolled },
        from? := some fromSlot, ops := x.ops.reverse, left := x.rest.length, panicked := false, cls := cls }

/-- `prune_transaction(keep)`: blocks numbered below `min(highest new start, highest legacy start) - keep` go,
and their transaction rows with them (cascade) -/
def prune (st : St ρ) (keep : Nat) : St ρ :=
  let hiNew := (st.roots.map (·.1)).max?
  let hiLeg := (st.legacy.map (·.1)).max?
  let thr : Option Nat := match hiNew, hiLeg with
    | some a, some b => some (min a b)
    | some a, none => some a
    | none, some b => some b
    | none, none => none
  match thr with
  | none => st
  | some k =>
    let blocks := st.blocks.filter (fun b => k * LEN - keep ≤ b.number)
    { st with blocks := blocks, txs := cascade blocks st.txs }

end Importer

namespace Importer
open Import

variable {ρ : Type} (R : List Block → Option ρ)

/-! ## an import that exits early only extends the root cache -/

theorem highest_mem_le : ∀ (S : List Block) (acc : Option Block) (h : Block),
    S.foldl (fun acc b => match acc with
      | none => some b
      | some a => if a.number < b.number then some b else some a) acc = some h →
    (h ∈ S ∨ acc = some h) := by
  intro S
  induction S with
  | nil => intro acc h e; exact Or.inr e
  | cons x r ih =>
    intro acc h e
    simp only [List.foldl_cons] at e
    rcases ih _ h e with h1 | h1
    · exact Or.inl (by simp [h1])
    · cases acc with
      | none => simp at h1; exact Or.inl (by simp [h1])
      | some a =>
        simp only at h1
        split at h1
        · simp at h1; exact Or.inl (by simp [h1])
        · exact Or.inr h1

/-- early exit (`highest stored block ≥ target`): the range importer still runs; the roots stay the
cache of the stored blocks, all cached ranges at or below the highest stored block -/
theorem early_exit_rinv (S : List Block) (roots : List (Nat × ρ)) (target : Nat) (b : Block)
    (hb : highest S = some b) (hge : b.number ≥ target) (h : RInv R S roots) :
    RInv R S (rangesRun R S roots target) := by
  obtain ⟨K, hK, hB⟩ := h
  have hmem : b ∈ S := by
    rcases highest_mem_le S none b hb with h1 | h1
    · exact h1
    · cases h1
  refine ⟨max K ((target + 1) / LEN), by rw [hK, rangesRun_cached], ?_⟩
  by_cases hk : (target + 1) / LEN ≤ K
  · have : max K ((target + 1) / LEN) = K := by omega
    rw [this]; exact hB
  · have : max K ((target + 1) / LEN) = (target + 1) / LEN := by omega
    rw [this]
    refine Or.inr ⟨b, hmem, ?_⟩
    have := Nat.div_mul_le_self (target + 1) LEN
    omega

/-! ## what the signable builders read -/

/-- `compute_merkle_map_from_block_range_roots(beacon)` of the blocks-and-transactions builder: the
stored roots with `start < beacon`; if the beacon is not the last block of its range AND the highest
of those roots is not the root of the range containing the beacon, the root of the partial range
`[start(range(beacon)), beacon]` computed from the stored blocks is added -/
def signable (S : List Block) (roots : List (Nat × ρ)) (beacon : Nat) : List (Nat × ρ) :=
  let rs := roots.filter (fun r => r.1 * LEN < beacon)
  let kb := beacon / LEN
  let fully : Bool := (beacon + 1) % LEN == 0
  let contained : Bool := match (rs.map (·.1)).max? with
    | some k => k == kb
    | none => false
  if !fully && !contained then
    match R (S.filter (fun x => kb * LEN ≤ x.number && x.number ≤ beacon)) with
    | some r => rs ++ [(kb, r)]
    | none => rs
  else rs

/-- the legacy builder: the stored roots with `start < beacon` -/
def signableLegacy (roots : List (Nat × ρ)) (beacon : Nat) : List (Nat × ρ) :=
  roots.filter (fun r => r.1 * LEN < beacon)

/-- **aligned beacons** (`beacon + 1` a multiple of 15 — every `CardanoTransactions` beacon): what the
builders read is the cache of the ranges below the beacon, whatever further ranges the node has
already computed (`K` beyond `(beacon+1)/15`) -/
theorem signable_aligned (S : List Block) (K j : Nat) (hj : 0 < j) (hK : j ≤ K) :
    signable R S (cached R S K) (j * LEN - 1) = cached R S j ∧
    signableLegacy (cached R S K) (j * LEN - 1) = cached R S j := by
  have hf : (cached R S K).filter (fun r => r.1 * LEN < j * LEN - 1) = cached R S j := by
    have : (cached R S K).filter (fun r => r.1 * LEN < j * LEN - 1) = (cached R S K).filter (fun r => r.1 < j) := by
      apply List.filter_congr
      intro r _
      simp only [decide_eq_decide]
      unfold LEN
      omega
    rw [this, rollbackRoots_cached]
    congr 1; omega
  refine ⟨?_, hf⟩
  unfold signable
  have hfully : ((j * LEN - 1 + 1) % LEN == 0) = true := by
    have : j * LEN - 1 + 1 = j * LEN := by unfold LEN; omega
    rw [this]; simp
  simp only [hf, hfully, Bool.not_true, Bool.false_and]
  rfl

end Importer
