/-!
# C11 at the aggregator: the services that PRODUCE the proofs

`mithril-aggregator/src/services/prover.rs` (`MithrilProverService`: blocks / transactions of the
blocks-and-transactions tree) and `prover_legacy.rs` (`LegacyMithrilProverService`: transaction hashes)
over the transaction store (`CardanoTransactionRepository`), the block-range-root tables filled by
`BlockRangeImporter::run / run_legacy`, the map the signable builders sign
(`BlockRangeRootRetriever::compute_merkle_map_from_block_range_roots`, legacy and v2 with its partial
last range) and the pooled copy of that map (`compute_cache`).

Level of abstraction: a Merkle tree is represented by the ordered list of its leaves (its *content*) and
a Merkle map by the list `range index ↦ content`; "same root" is "same content" (the root is a function
of the ordered leaves — `MmrBuild.root` — and injective in them up to hash collisions, C09/C12). The
real roots are compared by the harness: every produced proof is replayed through `Proofs.verifyV2 /
verifyLegacy` (Blake2s in Lean), and roots are compared up to the equality pattern over a history.
Core Lean only.
-/
namespace Prover

def LEN : Nat := 15

structure Blk where
  number : Nat
  hash : Nat
  slot : Nat
  txs : List Nat
deriving DecidableEq, Repr

/-- a leaf of the blocks-and-transactions tree: `Block/<hash>/<n>/<slot>` or
`Tx/<tx>/<block hash>/<n>/<slot>`; also what a v2 answer reports as certified -/
inductive Item where
  | block (hash number slot : Nat)
  | tx (tx blockHash number slot : Nat)
deriving DecidableEq, Repr

def Item.number : Item → Nat
  | .block _ n _ => n
  | .tx _ _ n _ => n

/-- the hash a request names the item by -/
def Item.key : Item → Nat
  | .block h _ _ => h
  | .tx t _ _ _ => t

def blockItem (b : Blk) : Item := .block b.hash b.number b.slot
def txItems (b : Blk) : List Item := b.txs.map fun t => .tx t b.hash b.number b.slot
/-- `CardanoBlockTransactionsRecord::into_mk_tree_nodes` -/
def nodes2 (b : Blk) : List Item := blockItem b :: txItems b
/-- leaves of the legacy tree: the transaction hashes -/
def nodesL (b : Blk) : List Nat := b.txs

/-! ## contents of block ranges -/
section generic
variable {ι : Type} [DecidableEq ι] (lv : Blk → List ι)

def inCut (lo hi : Nat) (b : Blk) : Bool := decide (lo ≤ b.number) && decide (b.number < hi)

/-- leaves of the stored blocks with `lo ≤ number < hi` (`between_blocks(lo..hi)`) -/
def content (S : List Blk) (lo hi : Nat) : List ι := (S.filter (inCut lo hi)).flatMap lv

/-- the whole range `k` -/
def full (S : List Blk) (k : Nat) : List ι := content lv S (k * LEN) ((k + 1) * LEN)

/-- range `k` cut at the beacon: `start .. min(end, up_to + 1)` -/
def cut (S : List Blk) (k U : Nat) : List ι := content lv S (k * LEN) (min ((k + 1) * LEN) (U + 1))

/-- a Merkle map by content: range index ↦ ordered leaves, ascending keys -/
abbrev RMap (ι : Type) := List (Nat × List ι)

def RMap.get (m : RMap ι) (k : Nat) : Option (List ι) := (m.find? (fun r => r.1 == k)).map (·.2)

/-- `BlockRangeImporter::run(up_to)`: from the range after the highest stored one to the last range
that ends at or below `up_to`; a range without leaves is skipped -/
def resume (roots : RMap ι) : Nat := roots.foldl (fun a r => max a (r.1 + 1)) 0

def newRoot (S : List Blk) (k : Nat) : Option (Nat × List ι) :=
  if full lv S k = [] then none else some (k, full lv S k)

def rangesRun (S : List Blk) (roots : RMap ι) (upTo : Nat) : RMap ι :=
  roots ++ (List.range' (resume roots) ((upTo + 1) / LEN - resume roots)).filterMap (newRoot lv S)

/-- `retrieve_block_range_roots_up_to(beacon)`: `start < beacon` -/
def baseAt (roots : RMap ι) (U : Nat) : RMap ι := roots.filter fun r => decide (r.1 * LEN < U)

/-- legacy `compute_merkle_map_from_block_range_roots` -/
def mapAtL (roots : RMap ι) (U : Nat) : RMap ι := baseAt roots U

/-- v2 `compute_merkle_map_from_block_range_roots`: the stored roots with `start < beacon`, plus —
when the beacon is not the last block of its range and the last retrieved range does not contain it —
the partial range `start(range(beacon)) ..= beacon` computed from the store (if it has any node) -/
def mapAt2 (S : List Blk) (roots : RMap ι) (U : Nat) : RMap ι :=
  let base := baseAt roots U
  let k := U / LEN
  let lastContains := match base.getLast? with
    | some r => r.1 == k
    | none => false
  if (U + 1) % LEN != 0 && !lastContains then
    if cut lv S k U = [] then base else base ++ [(k, cut lv S k U)]
  else base

inductive PErr where
  | timeout      -- `acquire_resource`: the pool is empty (no `compute_cache` yet)
  | noKey        -- `MKMap::replace`: "could not replace non-existing key"
  | rootDiffers  -- `MKMap::replace`: "values should be replaced by entry with same root"
deriving DecidableEq, Repr

/-- the loop `mk_map.replace(block_range, mk_tree.into())?` in ascending key order; a successful
replacement leaves the root (hence, here, the content) of the pooled map unchanged -/
def replaceAll (m : RMap ι) : List (Nat × List ι) → Except PErr Unit
  | [] => .ok ()
  | (k, c) :: r =>
    match m.get k with
    | none => .error .noKey
    | some c0 => if c0 = c then replaceAll m r else .error .rootDiffers

end generic

/-! ## the store and the two provers -/

structure St where
  /-- the node's chain (what the block scanner reads) -/
  chain : List Blk := []
  /-- `cardano_block` / `cardano_tx` -/
  blocks : List Blk := []
  /-- `block_range_root` -/
  roots2 : RMap Item := []
  /-- `block_range_root_legacy` -/
  rootsL : RMap Nat := []
  /-- the pooled map of `MithrilProverService` (`none`: empty pool) -/
  cache2 : Option (RMap Item) := none
  /-- the pooled map of `LegacyMithrilProverService` -/
  cacheL : Option (RMap Nat) := none
deriving Repr

def highest (S : List Blk) : Option Nat := (S.map (·.number)).max?

/-- `CardanoChainDataImporter::import(up_to)`: blocks above the highest stored one and at or below
`up_to`, then both range importers -/
def importTo (s : St) (upTo : Nat) : St :=
  let fresh := match highest s.blocks with
    | none => s.chain.filter fun b => decide (b.number ≤ upTo)
    | some h => if h ≥ upTo then [] else s.chain.filter fun b => decide (h < b.number) && decide (b.number ≤ upTo)
  let blocks := s.blocks ++ fresh
  { s with blocks, roots2 := rangesRun nodes2 blocks s.roots2 upTo, rootsL := rangesRun nodesL blocks s.rootsL upTo }

/-- items of the store a v2 request names, at or below the beacon (`get_*_by_hashes(hashes, up_to)`),
in the order of the store -/
def found (kindTx : Bool) (S : List Blk) (U : Nat) (req : List Nat) : List Item :=
  (S.filter fun b => decide (b.number ≤ U)).flatMap fun b =>
    if kindTx then (txItems b).filter fun x => req.contains x.key
    else if req.contains b.hash then [blockItem b] else []

def rangesOf (items : List Item) : List Nat := (items.map fun x => x.number / LEN).eraseDups

inductive Out2 where
  | none                      -- `Ok(None)`: nothing to certify
  | err (e : PErr)
  | ok (items : List Item)    -- `Ok(Some(MkSetProof { items, proof }))`, proof root = root of the pooled map
deriving DecidableEq, Repr

/-- `MithrilProverService::compute_{transactions,blocks}_proofs(up_to, hashes)` -/
def prove2 (kindTx : Bool) (S : List Blk) (cache : Option (RMap Item)) (U : Nat) (req : List Nat) : Out2 :=
  let items := found kindTx S U req
  if items = [] then .none
  else match cache with
    | none => .err .timeout
    | some m =>
      match replaceAll m ((rangesOf items).map fun k => (k, cut nodes2 S k U)) with
      | .error e => .err e
      | .ok _ => .ok items

/-- what the HTTP handler reports as not certified -/
def nonCertified (req : List Nat) (certified : List Nat) : List Nat := req.filter fun h => !certified.contains h

inductive OutL where
  | err (e : PErr)
  | ok (certified : List Nat)   -- `[]`: `Ok(vec![])`, otherwise one set proof with these hashes
deriving DecidableEq, Repr

def foundL (S : List Blk) (U : Nat) (req : List Nat) : List (Nat × Nat) :=
  (S.filter fun b => decide (b.number ≤ U)).flatMap fun b => (b.txs.filter fun t => req.contains t).map fun t => (t, b.number)

def rangesOfL (txs : List (Nat × Nat)) : List Nat := (txs.map fun x => x.2 / LEN).eraseDups

/-- `LegacyMithrilProverService::compute_transactions_proofs(up_to, hashes)`: the ranges of the named
transactions at or below the beacon are rebuilt WHOLE from the store; every named hash found in one of
the rebuilt trees is reported -/
def proveL (S : List Blk) (cache : Option (RMap Nat)) (U : Nat) (req : List Nat) : OutL :=
  let ks := rangesOfL (foundL S U req)
  match cache with
  | none => .err .timeout
  | some m =>
    match replaceAll m (ks.map fun k => (k, full nodesL S k)) with
    | .error e => .err e
    | .ok _ => .ok (req.filter fun h => ks.any fun k => (full nodesL S k).contains h)

/-! ## histories -/

inductive Op where
  | grow (bs : List Blk)
  | imp (upTo : Nat)
  | sign2 (U : Nat)
  | signL (U : Nat)
  | cache2 (U : Nat)
  | cacheL (U : Nat)
  | ptx (U : Nat) (req : List Nat)
  | pblk (U : Nat) (req : List Nat)
  | pl (U : Nat) (req : List Nat)
deriving Repr

inductive Obs where
  | grown
  | cached
  | stored (n r2 rL : Nat)
  | signed2 (m : RMap Item)       -- `[]`: the builder fails (empty tree has no root)
  | signedL (m : RMap Nat)
  | proved2 (req : List Nat) (o : Out2) (m : RMap Item)
  | provedL (req : List Nat) (o : OutL) (m : RMap Nat)
deriving Repr

def step (s : St) : Op → St × Obs
  | .grow bs => ({ s with chain := s.chain ++ bs }, .grown)
  | .imp n => let s' := importTo s n; (s', .stored s'.blocks.length s'.roots2.length s'.rootsL.length)
  | .sign2 U => let s' := importTo s U; (s', .signed2 (mapAt2 nodes2 s'.blocks s'.roots2 U))
  | .signL U => let s' := importTo s U; (s', .signedL (mapAtL s'.rootsL U))
  | .cache2 U => ({ s with cache2 := some (mapAt2 nodes2 s.blocks s.roots2 U) }, .cached)
  | .cacheL U => ({ s with cacheL := some (mapAtL s.rootsL U) }, .cached)
  | .ptx U req => (s, .proved2 req (prove2 true s.blocks s.cache2 U req) (s.cache2.getD []))
  | .pblk U req => (s, .proved2 req (prove2 false s.blocks s.cache2 U req) (s.cache2.getD []))
  | .pl U req => (s, .provedL req (proveL s.blocks s.cacheL U req) (s.cacheL.getD []))

def run : St → List Op → St × List Obs
  | s, [] => (s, [])
  | s, op :: r =>
    let (s1, o) := step s op
    let (s2, os) := run s1 r
    (s2, o :: os)

end Prover
