namespace Store

structure Block where
  hash : Nat
  number : Nat
  slot : Nat
deriving DecidableEq, Repr

structure Root where
  start : Nat
  stop : Nat
  root : Nat
deriving DecidableEq, Repr

structure St where
  blocks : List Block
  roots : List Root
deriving Repr

def LEN : Nat := 15
def rangeStart (n : Nat) : Nat := n / LEN * LEN

/-- `insert or ignore` with the three unique indexes of `cardano_block` -/
def insertBlock (s : St) (b : Block) : St :=
  if s.blocks.any (fun x => x.hash = b.hash || x.number = b.number || x.slot = b.slot) then s
  else { s with blocks := s.blocks ++ [b] }

/-- highest block number among the blocks whose slot is ≤ the given slot -/
def anchor (s : St) (slot : Nat) : Option Nat :=
  ((s.blocks.filter (fun b => b.slot ≤ slot)).map (·.number)).max?

/-- `remove_rolled_back_blocks_transactions_and_block_range_by_slot_number` -/
def rollback (s : St) (slot : Nat) : St :=
  match anchor s slot with
  | none => s
  | some n =>
    { blocks := s.blocks.filter (fun b => b.number ≤ n),
      roots := s.roots.filter (fun r => r.start < rangeStart n) }

/-- exactly the blocks above the anchor disappear, exactly the roots from the anchor's range on -/
theorem rollback_exact (s : St) (slot n : Nat) (h : anchor s slot = some n) :
    (∀ b, b ∈ (rollback s slot).blocks ↔ b ∈ s.blocks ∧ b.number ≤ n) ∧
    (∀ r, r ∈ (rollback s slot).roots ↔ r ∈ s.roots ∧ r.start < rangeStart n) := by
  simp [rollback, h]

/-- nothing is removed when no stored block lies at or below the roll-back slot -/
theorem rollback_below_store (s : St) (slot : Nat) (h : ∀ b ∈ s.blocks, slot < b.slot) :
    rollback s slot = s := by
  have : s.blocks.filter (fun b => decide (b.slot ≤ slot)) = [] := by
    simp only [List.filter_eq_nil_iff, decide_eq_true_eq]
    intro b hb; have := h b hb; omega
  simp [rollback, anchor, this]

/-- after such a roll-back a canonical block colliding on the block number is silently dropped -/
theorem stale_blocks_shadow_canonical :
    let s : St := { blocks := [⟨1, 11, 110⟩, ⟨2, 12, 120⟩], roots := [] }
    let s' := rollback s 100
    (insertBlock s' ⟨3, 11, 115⟩).blocks = s.blocks := by
  decide

/-- a stored root survives a roll-back iff its whole range lies below the anchor's range -/
theorem roots_after_rollback_cover_only_kept (s : St) (slot n : Nat) (h : anchor s slot = some n)
    (hw : ∀ r ∈ s.roots, r.stop = r.start + LEN ∧ r.start % LEN = 0) :
    ∀ r ∈ (rollback s slot).roots, r.stop ≤ n + 1 := by
  intro r hr
  have hmem := ((rollback_exact s slot n h).2 r).mp hr
  obtain ⟨h1, h2⟩ := hw r hmem.1
  have := hmem.2
  unfold rangeStart LEN at *
  omega

#print axioms roots_after_rollback_cover_only_kept
end Store
