import MithrilModel.ChainClient
/-! C03, the client verifier over SEVERAL `verify_chain` calls sharing one cache
(`mithril-client/src/certificate_client/verify.rs`). One run reads the cache (`Chain.clientVerify`)
and records `hash ↦ previous_hash` of every certificate it validates, at once. Before the `fix:` commit a
run that FAILED further down left the records of certificates never anchored in genesis; now the cache is
reset when a run fails. (Records made earlier in a run are keys of certificates nearer the tip than the
ones looked up later in the same run, so — on acyclic walks — a run reads the cache as it was when it
started: that is how the model reads it.) -/
namespace Chain

/-- records of the second loop along the walk (whatever the final result) -/
def phase2Wr (retr : Nat → Option Cert) (cache : Nat → Option Nat) : Nat → ToVerify → List (Nat × Nat)
  | 0, _ => []
  | fuel + 1, tv =>
    match cache tv.hash with
    | some ph =>
      match tv with
      | .downloaded c => if !c.contentHashOk then [] else phase2Wr retr cache fuel (.toDownload ph)
      | .toDownload _ => phase2Wr retr cache fuel (.toDownload ph)
    | none =>
      let oc := match tv with
        | .downloaded c => some c
        | .toDownload h => retr h
      match oc with
      | none => []
      | some c =>
        match verifyCertificate retr c with
        | .error _ => []
        | .ok none => []
        | .ok (some p) => (c.hash, c.prevHash) :: phase2Wr retr cache fuel (.downloaded p)

/-- records of the first loop -/
def phase1Wr (retr : Nat → Option Cert) (cache : Nat → Option Nat) (startEpoch : Nat) : Nat → Cert → List (Nat × Nat)
  | 0, _ => []
  | fuel + 1, c =>
    match verifyCertificate retr c with
    | .error _ => []
    | .ok none => []
    | .ok (some p) =>
      (c.hash, c.prevHash) ::
        (if p.epoch ≠ startEpoch then phase2Wr retr cache fuel (.downloaded p) else phase1Wr retr cache startEpoch fuel p)

def runWrites (retr : Nat → Option Cert) (cache : Nat → Option Nat) (fuel : Nat) (c : Cert) : List (Nat × Nat) :=
  phase1Wr retr cache c.epoch fuel c

def lookupW (w : List (Nat × Nat)) (h : Nat) : Option Nat := (w.find? (·.1 == h)).map (·.2)

def extend (cache : Nat → Option Nat) (w : List (Nat × Nat)) : Nat → Option Nat :=
  fun h => match lookupW w h with | some p => some p | none => cache h

/-- one `verify_chain` call. `resetOnFailure = true`: the code as it is (after the `fix:` commit). -/
def run (resetOnFailure : Bool) (retr : Nat → Option Cert) (cache : Nat → Option Nat) (fuel : Nat) (c : Cert) :
    Except Err Unit × (Nat → Option Nat) :=
  let res := clientVerify retr cache true fuel c
  let w := runWrites retr cache fuel c
  match res with
  | .ok () => (res, extend cache w)
  | .error _ => (res, if resetOnFailure then (fun _ => none) else extend cache w)

/-- what a record must stand for -/
def Just (w : Nat × Nat) : Prop := ∃ x : Cert, x.hash = w.1 ∧ x.contentHashOk = true ∧ Valid LinkSpec x

theorem integrity_content {c : Cert} (h : Integrity c) : c.contentHashOk = true := by
  unfold Integrity at h
  exact h.1

theorem phase2_sound_wr (retr : Nat → Option Cert) (cache : Nat → Option Nat) (hc : CacheInv cache) (hb : HashBinding) :
    ∀ fuel tv, phase2 retr cache true fuel tv = .ok () → ∀ w ∈ phase2Wr retr cache fuel tv, Just w := by
  intro fuel
  induction fuel with
  | zero => intro tv h; simp [phase2] at h
  | succ fuel ih =>
    intro tv h
    simp only [phase2] at h
    simp only [phase2Wr]
    split at h
    · rename_i ph hhit
      simp only [hhit]
      cases tv with
      | toDownload _ => exact ih _ h
      | downloaded c =>
        simp only at h ⊢
        split at h
        · simp at h
        · rename_i hne
          have hok : c.contentHashOk = true := by simpa using hne
          simp only [hok, Bool.not_true, Bool.false_eq_true, if_false]
          exact ih _ h
    · rename_i hmiss
      simp only [hmiss]
      cases tv with
      | toDownload hh =>
        simp only at h ⊢
        split at h
        · simp at h
        · rename_i c hc'
          simp only [hc']
          split at h
          · simp at h
          · rename_i hv; simp [hv]
          · rename_i p hv
            simp only [hv]
            intro w hw
            obtain ⟨a, b, d, e, f⟩ := verifyCertificate_ok_some hv
            have hp : Valid LinkSpec p := phase2_sound retr cache hc hb fuel (.downloaded p) h
            rcases List.mem_cons.mp hw with rfl | hw
            · exact ⟨c, rfl, integrity_content b, Valid.step c p a b d e f hp⟩
            · exact ih _ h w hw
      | downloaded c =>
        simp only at h ⊢
        split at h
        · simp at h
        · rename_i hv; simp [hv]
        · rename_i p hv
          simp only [hv]
          intro w hw
          obtain ⟨a, b, d, e, f⟩ := verifyCertificate_ok_some hv
          have hp : Valid LinkSpec p := phase2_sound retr cache hc hb fuel (.downloaded p) h
          rcases List.mem_cons.mp hw with rfl | hw
          · exact ⟨c, rfl, integrity_content b, Valid.step c p a b d e f hp⟩
          · exact ih _ h w hw

theorem phase1_sound_wr (retr : Nat → Option Cert) (cache : Nat → Option Nat) (hc : CacheInv cache) (hb : HashBinding) (se : Nat) :
    ∀ fuel c, phase1 retr cache true se fuel c = .ok () → ∀ w ∈ phase1Wr retr cache se fuel c, Just w := by
  intro fuel
  induction fuel with
  | zero => intro c h; simp [phase1] at h
  | succ fuel ih =>
    intro c h
    simp only [phase1] at h
    simp only [phase1Wr]
    split at h
    · simp at h
    · rename_i hv; simp [hv]
    · rename_i p hv
      simp only [hv]
      obtain ⟨a, b, d, e, f⟩ := verifyCertificate_ok_some hv
      intro w hw
      split at h
      · rename_i hne
        have hp : Valid LinkSpec p := phase2_sound retr cache hc hb fuel (.downloaded p) h
        rcases List.mem_cons.mp hw with rfl | hw
        · exact ⟨c, rfl, integrity_content b, Valid.step c p a b d e f hp⟩
        · rw [if_pos hne] at hw
          exact phase2_sound_wr retr cache hc hb fuel (.downloaded p) h w hw
      · rename_i heq
        have hp : Valid LinkSpec p := phase1_sound retr cache hc hb se fuel p h
        rcases List.mem_cons.mp hw with rfl | hw
        · exact ⟨c, rfl, integrity_content b, Valid.step c p a b d e f hp⟩
        · rw [if_neg heq] at hw
          exact ih p h w hw

theorem extend_inv {cache : Nat → Option Nat} {w : List (Nat × Nat)} (hc : CacheInv cache) (hw : ∀ x ∈ w, Just x) :
    CacheInv (extend cache w) := by
  intro h ph hh
  unfold extend at hh
  split at hh
  · rename_i p hp
    simp only [Option.some.injEq] at hh
    unfold lookupW at hp
    obtain ⟨e, hf, he⟩ := Option.map_eq_some_iff.mp hp
    have hmem := List.mem_of_find?_eq_some hf
    have hkey : e.1 = h := by simpa using List.find?_some hf
    obtain ⟨x, hx1, hx2, hx3⟩ := hw e hmem
    exact ⟨x, hx1.trans hkey, hx2, hx3⟩
  · exact hc h ph hh

/-- one call of the code as it is keeps the cache invariant, whatever the provider answers, and an accepted
certificate is validly chained to a genesis certificate -/
theorem run_inv (retr : Nat → Option Cert) (cache : Nat → Option Nat) (hc : CacheInv cache) (hb : HashBinding)
    (fuel : Nat) (c : Cert) :
    CacheInv (run true retr cache fuel c).2 ∧ ((run true retr cache fuel c).1 = .ok () → Valid LinkSpec c) := by
  unfold run
  cases hres : clientVerify retr cache true fuel c with
  | error e =>
    refine ⟨?_, ?_⟩
    · show CacheInv (fun _ => none)
      intro h ph hh; simp at hh
    · intro h; cases h
  | ok u =>
    cases u
    refine ⟨?_, fun _ => client_sound retr cache hc hb fuel c hres⟩
    exact extend_inv hc (phase1_sound_wr retr cache hc hb c.epoch fuel c hres)

/-- a session: successive calls on one client, the provider free to answer differently each time -/
def session (resetOnFailure : Bool) :
    (Nat → Option Nat) → List ((Nat → Option Cert) × Nat × Cert) → List (Except Err Unit) × (Nat → Option Nat)
  | cache, [] => ([], cache)
  | cache, (retr, fuel, c) :: rest =>
    let (r, cache') := run resetOnFailure retr cache fuel c
    let (rs, cache'') := session resetOnFailure cache' rest
    (r :: rs, cache'')

/-- **for every session**: every accepted certificate of every call is validly chained to a genesis certificate -/
theorem session_sound (hb : HashBinding) : ∀ (calls : List ((Nat → Option Cert) × Nat × Cert)) (cache : Nat → Option Nat),
    CacheInv cache →
    ∀ i (hi : i < calls.length), (session true cache calls).1[i]? = some (.ok ()) → Valid LinkSpec (calls[i]).2.2 := by
  intro calls
  induction calls with
  | nil => intro cache _ i hi; simp at hi
  | cons call rest ih =>
    intro cache hc i hi hok
    obtain ⟨retr, fuel, c⟩ := call
    obtain ⟨hinv, hval⟩ := run_inv retr cache hc hb fuel c
    simp only [session] at hok
    cases i with
    | zero =>
      simp only [List.getElem?_cons_zero, Option.some.injEq] at hok
      simpa using hval hok
    | succ j =>
      simp only [List.getElem?_cons_succ] at hok
      simpa using ih _ hinv j (by simpa using hi) hok

theorem cacheInv_empty : CacheInv (fun _ => none) := by
  intro h ph hh; simp at hh

/-- result of a call as a comparable value -/
def code : Except Err Unit → Option Err
  | .ok () => none
  | .error e => some e

/-! ### the defect of the code before the repair: records of a FAILED run poison the cache -/

/-- genuine chain: genesis `gen` (hash 100, epoch 1) ← `P` (hash 500, epoch 1 … here the first of its epoch) -/
def honestP : Cert :=
  { hash := 500, prevHash := 100, epoch := 1, avk := 7, params := 1
    nextAvk := some 7, nextParams := some 1, isGenesis := false
    contentHashOk := true, signedMsgOk := true, epochPartOk := true
    multiSigOk := true, genesisSigOk := false }
/-- what the provider serves for hash 500 in the first call: `P` with the adversary's next key, hash not recomputed -/
def alteredP : Cert := { honestP with nextAvk := some 9, contentHashOk := false }
/-- adversary certificate of epoch 2 (own key 9), internally consistent, linked to hash 500 -/
def advF : Cert :=
  { hash := 900, prevHash := 500, epoch := 2, avk := 9, params := 1
    nextAvk := some 9, nextParams := some 1, isGenesis := false
    contentHashOk := true, signedMsgOk := true, epochPartOk := true
    multiSigOk := true, genesisSigOk := false }
/-- adversary certificate of epoch 3 linked to `advF` -/
def advF2 : Cert := { advF with hash := 901, prevHash := 900, epoch := 3 }

def retr1 : Nat → Option Cert := fun h => if h = 500 then some alteredP else if h = 100 then some gen else none
def retr2 : Nat → Option Cert := fun h => if h = 900 then some advF else if h = 500 then some honestP else if h = 100 then some gen else none

/-- before the repair: call 1 (`advF` over the altered copy) is REJECTED but leaves `900 ↦ 500`; call 2 (`advF2`,
genuine answers only) is then ACCEPTED although `advF` is chained to nothing the genesis key vouches for -/
theorem poisoning_counterexample :
    (session false (fun _ => none) [(retr1, 10, advF), (retr2, 10, advF2)]).1.map code = [some .hash, none] := by
  decide +kernel

/-- … and with the repair both calls are rejected -/
theorem poisoning_repaired :
    (session true (fun _ => none) [(retr1, 10, advF), (retr2, 10, advF2)]).1.map code = [some .hash, some .avk] := by
  decide +kernel

#print axioms session_sound
end Chain
