import MithrilModel.ChainBinding
/-!
# C03 — cycles, and the verifier cache as the client really threads it through one call

Part 1 (`walk`, `acyclic`, …): the common verifier (`Chain.verifyChain`) never accepts a walk that visits the same
certificate hash twice, unless the two certificates are a collision of the content hash (returned as a witness).

Part 2 (`phase2Live`, `clientVerifyLive`, …): `mithril-client/src/certificate_client/verify.rs` stores
`hash ↦ previous_hash` in the verifier cache inside `verify_without_cache`, immediately after
`verify_certificate` has succeeded on a non-genesis certificate and BEFORE the next certificate is looked up
(`fetch_cached_previous_hash`) — in both loops. `Chain.clientVerify` reads the cache as it was when the call started.
-/
namespace Chain

/-! ## Part 1: the common verifier and cycles -/

/-- the certificates `verify_certificate` is called on by `verify_certificate_chain`, in order -/
def walk (retr : Nat → Option Cert) : Nat → Cert → List Cert
  | 0, _ => []
  | fuel + 1, c =>
    c :: (match verifyCertificate retr c with
      | .ok (some p) => walk retr fuel p
      | _ => [])

/-- two different certificates whose contents both hash to the same value: a collision of the content hash
(`contentHashOk` is the verdict "`try_compute_hash() == hash`" on the very object) -/
structure Collision (a b : Cert) : Prop where
  ne : a ≠ b
  hash : a.hash = b.hash
  okA : a.contentHashOk = true
  okB : b.contentHashOk = true

theorem verifyCertificate_ok_content {retr c x} (h : verifyCertificate retr c = .ok x) : c.contentHashOk = true := by
  cases x with
  | none => exact (verifyCertificate_ok_none h).2.1.1
  | some p => exact (verifyCertificate_ok_some h).2.1.1

/-- the certificate returned is the one the retriever serves for `previous_hash` -/
theorem verifyCertificate_ok_some_retr {retr c p} (h : verifyCertificate retr c = .ok (some p)) :
    retr c.prevHash = some p := by
  unfold verifyCertificate at h
  split at h
  · repeat (split at h; · simp at h)
    simp at h
  · split at h
    · simp at h
    · rename_i q hq
      split at h
      · simp at h
      · repeat (split at h; · simp at h)
        simp only [Except.ok.injEq, Option.some.injEq] at h
        rw [hq, h]

/-- the self-loop guard: a standard certificate chained to itself is never accepted (whatever is served) -/
theorem selfLoop_rejected (retr : Nat → Option Cert) (c : Cert) (hg : c.isGenesis = false) (hl : c.hash = c.prevHash) :
    verifyCertificate retr c = .error .loop ∨ verifyCertificate retr c = .error .notFound := by
  unfold verifyCertificate
  simp only [hg, Bool.false_eq_true, if_false]
  cases retr c.prevHash with
  | none => exact Or.inr rfl
  | some p => left; simp [integrityStd, hl]

theorem verifyChain_succ (retr : Nat → Option Cert) (fuel : Nat) (c : Cert) :
    verifyChain retr (fuel + 1) c =
      match verifyCertificate retr c with
      | .error e => .error e
      | .ok none => .ok ()
      | .ok (some p) => verifyChain retr fuel p := rfl

/-- more fuel does not change an acceptance -/
theorem verifyChain_mono (retr : Nat → Option Cert) : ∀ (f F : Nat) (c : Cert), f ≤ F →
    verifyChain retr f c = .ok () → verifyChain retr F c = .ok () := by
  intro f
  induction f with
  | zero => intro F c _ h; simp [verifyChain] at h
  | succ f ih =>
    intro F c hF h
    cases F with
    | zero => omega
    | succ F =>
      rw [verifyChain_succ] at h ⊢
      cases hv : verifyCertificate retr c with
      | error e => simp [hv] at h
      | ok x =>
        cases x with
        | none => rfl
        | some p =>
          simp only [hv] at h ⊢
          exact ih F p (by omega) h

/-- the length of an accepted walk does not depend on the fuel -/
theorem walk_length_ok (retr : Nat → Option Cert) : ∀ (f F : Nat) (c : Cert),
    verifyChain retr f c = .ok () → verifyChain retr F c = .ok () →
    (walk retr f c).length = (walk retr F c).length := by
  intro f
  induction f with
  | zero => intro F c h; simp [verifyChain] at h
  | succ f ih =>
    intro F c h h'
    cases F with
    | zero => simp [verifyChain] at h'
    | succ F =>
      rw [verifyChain_succ] at h h'
      simp only [walk]
      cases hv : verifyCertificate retr c with
      | error e => simp [hv] at h
      | ok x =>
        cases x with
        | none => rfl
        | some p =>
          simp only [hv] at h h' ⊢
          simp only [List.length_cons]
          rw [ih F p h h']

theorem walk_succ_some {retr : Nat → Option Cert} {c p : Cert} (f : Nat) (hv : verifyCertificate retr c = .ok (some p)) :
    walk retr (f + 1) c = c :: walk retr f p := by
  simp only [walk, hv]

/-- position `i` of a walk starts the walk of that certificate with `i` units of fuel less, with the same verdict -/
theorem walk_suffix (retr : Nat → Option Cert) : ∀ (i f : Nat) (c x : Cert), (walk retr f c)[i]? = some x →
    (walk retr (f - i) x).length + i = (walk retr f c).length ∧
    verifyChain retr (f - i) x = verifyChain retr f c ∧
    ∀ k, (walk retr (f - i) x)[k]? = (walk retr f c)[i + k]? := by
  intro i
  induction i with
  | zero =>
    intro f c x hi
    cases f with
    | zero => simp [walk] at hi
    | succ f =>
      have : x = c := by simpa [walk] using hi.symm
      subst this
      simp
  | succ i ih =>
    intro f c x hi
    cases f with
    | zero => simp [walk] at hi
    | succ f =>
      rw [verifyChain_succ]
      cases hv : verifyCertificate retr c with
      | error e => simp [walk, hv] at hi
      | ok y =>
        cases y with
        | none => simp [walk, hv] at hi
        | some p =>
          rw [walk_succ_some f hv] at hi ⊢
          simp only [List.getElem?_cons_succ] at hi
          obtain ⟨h1, h2, h3⟩ := ih f p x hi
          simp only [Nat.add_sub_add_right, List.length_cons]
          refine ⟨by omega, h2, fun k => ?_⟩
          rw [h3 k]
          have e : i + 1 + k = (i + k) + 1 := by omega
          rw [e, List.getElem?_cons_succ]

/-- every certificate of an accepted walk has a content that hashes to its `hash` -/
theorem walk_content_ok (retr : Nat → Option Cert) : ∀ (f : Nat) (c : Cert), verifyChain retr f c = .ok () →
    ∀ x ∈ walk retr f c, x.contentHashOk = true := by
  intro f
  induction f with
  | zero => intro c h; simp [verifyChain] at h
  | succ f ih =>
    intro c h x hx
    rw [verifyChain_succ] at h
    simp only [walk] at hx
    cases hv : verifyCertificate retr c with
    | error e => simp [hv] at h
    | ok y =>
      have hc := verifyCertificate_ok_content hv
      cases y with
      | none =>
        simp only [hv, List.mem_cons, List.not_mem_nil, or_false] at hx
        rw [hx]; exact hc
      | some p =>
        simp only [hv, List.mem_cons] at hx h
        rcases hx with rfl | hx
        · exact hc
        · exact ih p h x hx

/-- an accepted walk never contains the same certificate twice -/
theorem walk_no_repeat (retr : Nat → Option Cert) (f : Nat) (c : Cert) (hok : verifyChain retr f c = .ok ())
    (i j : Nat) (hij : i < j) (x : Cert) (hi : (walk retr f c)[i]? = some x) (hj : (walk retr f c)[j]? = some x) :
    False := by
  obtain ⟨a1, a2, _⟩ := walk_suffix retr i f c x hi
  obtain ⟨b1, b2, _⟩ := walk_suffix retr j f c x hj
  rw [hok] at a2 b2
  have := walk_length_ok retr _ _ _ a2 b2
  omega

/-- **`C03_acyclic`.** If the walk of `verify_certificate_chain` comes to the same certificate hash twice (certificates
`a`, `b` at positions `i < j`), then either the verification is not accepted, or `a` and `b` are an explicit collision of
the content hash: different certificates, same hash, both with a content that hashes to it. -/
theorem acyclic (retr : Nat → Option Cert) (f : Nat) (c : Cert) (i j : Nat) (hij : i < j) (a b : Cert)
    (hi : (walk retr f c)[i]? = some a) (hj : (walk retr f c)[j]? = some b) (hh : a.hash = b.hash) :
    verifyChain retr f c ≠ .ok () ∨ Collision a b := by
  by_cases hok : verifyChain retr f c = .ok ()
  · right
    have hc := walk_content_ok retr f c hok
    refine ⟨?_, hh, hc _ (List.mem_of_getElem? hi), hc _ (List.mem_of_getElem? hj)⟩
    intro hab
    subst hab
    exact walk_no_repeat retr f c hok i j hij a hi hj
  · exact Or.inl hok

/-- if no two certificates of the walk are a collision, an accepted walk visits pairwise different hashes -/
theorem accepted_walk_nodup (retr : Nat → Option Cert) (f : Nat) (c : Cert)
    (hb : ∀ a ∈ walk retr f c, ∀ b ∈ walk retr f c, ¬ Collision a b)
    (hok : verifyChain retr f c = .ok ()) : ((walk retr f c).map (·.hash)).Nodup := by
  rw [List.Nodup, List.pairwise_map, List.pairwise_iff_getElem]
  intro i j hi hj hij hh
  rcases acyclic retr f c i j hij _ _ (List.getElem?_eq_getElem hi) (List.getElem?_eq_getElem hj) hh with h | h
  · exact h hok
  · exact hb _ (List.getElem_mem _) _ (List.getElem_mem _) h

/-- in particular in a world `U` where the content hash is binding, when the start certificate and the provider's answers
are in `U` -/
theorem accepted_walk_nodup_on (U : Cert → Prop) (hb : BindingOn U) (retr : Nat → Option Cert) (hs : Serves U retr)
    (f : Nat) (c : Cert) (hu : U c) (hok : verifyChain retr f c = .ok ()) : ((walk retr f c).map (·.hash)).Nodup := by
  have hmem : ∀ (f : Nat) (c : Cert), U c → ∀ x ∈ walk retr f c, U x := by
    intro f
    induction f with
    | zero => intro c _ x hx; simp [walk] at hx
    | succ f ih =>
      intro c hu x hx
      simp only [walk] at hx
      cases hv : verifyCertificate retr c with
      | error e => simp only [hv, List.mem_cons, List.not_mem_nil, or_false] at hx; exact hx ▸ hu
      | ok y =>
        cases y with
        | none => simp only [hv, List.mem_cons, List.not_mem_nil, or_false] at hx; exact hx ▸ hu
        | some p =>
          simp only [hv, List.mem_cons] at hx
          rcases hx with rfl | hx
          · exact hu
          · exact ih p (served_of_ok_some hs hv) x hx
  apply accepted_walk_nodup retr f c _ hok
  intro a ha b hb' hcol
  exact hcol.ne (hb a b (hmem f c hu a ha) (hmem f c hu b hb') hcol.hash hcol.okA hcol.okB)

/-! ### what a cyclic chain does: the verifier never stops -/

/-- `i` accepted links further: the verdict is that of the certificate reached, if the fuel lasts -/
theorem verifyChain_after (retr : Nat → Option Cert) : ∀ (i f : Nat) (c x : Cert), (walk retr f c)[i]? = some x →
    ∀ F, verifyChain retr F c = if i ≤ F then verifyChain retr (F - i) x else .error .fuel := by
  intro i
  induction i with
  | zero =>
    intro f c x hi F
    cases f with
    | zero => simp [walk] at hi
    | succ f =>
      have : x = c := by simpa [walk] using hi.symm
      subst this
      simp
  | succ i ih =>
    intro f c x hi F
    cases f with
    | zero => simp [walk] at hi
    | succ f =>
      cases hv : verifyCertificate retr c with
      | error e => simp [walk, hv] at hi
      | ok y =>
        cases y with
        | none => simp [walk, hv] at hi
        | some p =>
          rw [walk_succ_some f hv] at hi
          simp only [List.getElem?_cons_succ] at hi
          cases F with
          | zero => simp [verifyChain]
          | succ F =>
            rw [verifyChain_succ]
            simp only [hv]
            rw [ih f p x hi F]
            simp only [Nat.add_le_add_iff_right, Nat.add_sub_add_right]

/-- if the walk comes back to the same CERTIFICATE (a cycle without collision), `verifyChain` answers `fuel` for every
amount of fuel: `verify_certificate_chain`, which has no such bound, does not terminate — it neither accepts nor rejects -/
theorem cycle_diverges (retr : Nat → Option Cert) (f : Nat) (c : Cert) (i j : Nat) (hij : i < j) (x : Cert)
    (hi : (walk retr f c)[i]? = some x) (hj : (walk retr f c)[j]? = some x) :
    ∀ F, verifyChain retr F c = .error .fuel := by
  -- from the repeated certificate `x`, `j - i` accepted links lead back to `x`
  obtain ⟨_, _, hk⟩ := walk_suffix retr i f c x hi
  have hback : (walk retr (f - i) x)[j - i]? = some x := by
    rw [hk (j - i)]
    have : i + (j - i) = j := by omega
    rw [this]; exact hj
  have hx : ∀ F, verifyChain retr F x = .error .fuel := by
    intro F
    induction F using Nat.strongRecOn with
    | _ F ih =>
      rw [verifyChain_after retr (j - i) (f - i) x x hback F]
      split
      · exact ih (F - (j - i)) (by omega)
      · rfl
  intro F
  rw [verifyChain_after retr i f c x hi F]
  split
  · exact hx _
  · rfl

/-- a two-certificate cycle without any collision (`1 → 2 → 1`): all integrity and chaining tests pass, for ever -/
def cycA : Cert :=
  { hash := 1, prevHash := 2, epoch := 3, avk := 7, params := 1
    nextAvk := some 7, nextParams := some 1, isGenesis := false
    contentHashOk := true, signedMsgOk := true, epochPartOk := true
    multiSigOk := true, genesisSigOk := false }
def cycB : Cert := { cycA with hash := 2, prevHash := 1 }
def retrCyc : Nat → Option Cert := fun h => if h = 1 then some cycA else if h = 2 then some cycB else none

theorem cycle_example : ∀ F, verifyChain retrCyc F cycA = .error .fuel :=
  cycle_diverges retrCyc 3 cycA 0 2 (by decide) cycA (by decide) (by decide)

#print axioms acyclic
#print axioms cycle_diverges

/-! ## Part 2: the cache threaded through the call -/

/-- `store_validated_certificate` -/
def store (L : Nat → Option Nat) (h ph : Nat) : Nat → Option Nat := fun x => if x = h then some ph else L x

/-- second loop with the cache as the client really uses it (`verify_with_cache_enabled`, code as it is): the look-up
sees the records made earlier in the same call; `verify_without_cache` records a validated non-genesis certificate before
the next look-up. Returns the verdict and the cache at the end of the loop. -/
def phase2Live (retr : Nat → Option Cert) : Nat → (Nat → Option Nat) → ToVerify → Except Err Unit × (Nat → Option Nat)
  | 0, L, _ => (.error .fuel, L)
  | fuel + 1, L, tv =>
    match L tv.hash with
    | some ph =>
      match tv with
      | .downloaded c =>
        if !c.contentHashOk then (.error .hash, L)
        else phase2Live retr fuel L (.toDownload ph)
      | .toDownload _ => phase2Live retr fuel L (.toDownload ph)
    | none =>
      let oc := match tv with
        | .downloaded c => some c
        | .toDownload h => retr h
      match oc with
      | none => (.error .notFound, L)
      | some c =>
        match verifyCertificate retr c with
        | .error e => (.error e, L)
        | .ok none => (.ok (), L)
        | .ok (some p) => phase2Live retr fuel (store L c.hash c.prevHash) (.downloaded p)

/-- first loop (`verify_without_cache` until the epoch changes): no look-up, but the same records -/
def phase1Live (retr : Nat → Option Cert) (startEpoch : Nat) :
    Nat → (Nat → Option Nat) → Cert → Except Err Unit × (Nat → Option Nat)
  | 0, L, _ => (.error .fuel, L)
  | fuel + 1, L, c =>
    match verifyCertificate retr c with
    | .error e => (.error e, L)
    | .ok none => (.ok (), L)
    | .ok (some p) =>
      if p.epoch ≠ startEpoch then phase2Live retr fuel (store L c.hash c.prevHash) (.downloaded p)
      else phase1Live retr startEpoch fuel (store L c.hash c.prevHash) p

/-- `verify_chain_certificates` with the cache threaded through -/
def clientVerifyLive (retr : Nat → Option Cert) (cache : Nat → Option Nat) (fuel : Nat) (c : Cert) :
    Except Err Unit × (Nat → Option Nat) :=
  phase1Live retr c.epoch fuel cache c

/-- `verify_chain`: the cache is reset when the validation fails -/
def runLive (retr : Nat → Option Cert) (cache : Nat → Option Nat) (fuel : Nat) (c : Cert) :
    Except Err Unit × (Nat → Option Nat) :=
  match clientVerifyLive retr cache fuel c with
  | (.ok (), L) => (.ok (), L)
  | (.error e, _) => (.error e, fun _ => none)

/-! ### one step of the second loop, as a function of what the look-up returned -/

inductive Act where
  | fail (e : Err)
  | accept
  | jump (ph : Nat)
  | verified (c p : Cert)

def act (retr : Nat → Option Cert) (look : Option Nat) (tv : ToVerify) : Act :=
  match look with
  | some ph =>
    match tv with
    | .downloaded c => if !c.contentHashOk then .fail .hash else .jump ph
    | .toDownload _ => .jump ph
  | none =>
    match (match tv with
      | .downloaded c => some c
      | .toDownload h => retr h) with
    | none => .fail .notFound
    | some c =>
      match verifyCertificate retr c with
      | .error e => .fail e
      | .ok none => .accept
      | .ok (some p) => .verified c p

theorem phase2_act (retr : Nat → Option Cert) (cache : Nat → Option Nat) (f : Nat) (tv : ToVerify) :
    phase2 retr cache true (f + 1) tv =
      match act retr (cache tv.hash) tv with
      | .fail e => .error e
      | .accept => .ok ()
      | .jump ph => phase2 retr cache true f (.toDownload ph)
      | .verified _ p => phase2 retr cache true f (.downloaded p) := by
  simp only [phase2, act]
  cases cache tv.hash with
  | some ph =>
    cases tv with
    | downloaded c => cases hc : c.contentHashOk <;> simp [hc]
    | toDownload h => simp
  | none =>
    cases tv with
    | downloaded c =>
      simp only
      cases verifyCertificate retr c with
      | error e => rfl
      | ok x => cases x <;> rfl
    | toDownload h =>
      simp only
      cases retr h with
      | none => rfl
      | some c =>
        simp only
        cases verifyCertificate retr c with
        | error e => rfl
        | ok x => cases x <;> rfl

theorem phase2Wr_act (retr : Nat → Option Cert) (cache : Nat → Option Nat) (f : Nat) (tv : ToVerify) :
    phase2Wr retr cache (f + 1) tv =
      match act retr (cache tv.hash) tv with
      | .verified c p => (c.hash, c.prevHash) :: phase2Wr retr cache f (.downloaded p)
      | .jump ph => phase2Wr retr cache f (.toDownload ph)
      | _ => [] := by
  simp only [phase2Wr, act]
  cases cache tv.hash with
  | some ph =>
    cases tv with
    | downloaded c => cases hc : c.contentHashOk <;> simp [hc]
    | toDownload h => simp
  | none =>
    cases tv with
    | downloaded c =>
      simp only
      cases verifyCertificate retr c with
      | error e => rfl
      | ok x => cases x <;> rfl
    | toDownload h =>
      simp only
      cases retr h with
      | none => rfl
      | some c =>
        simp only
        cases verifyCertificate retr c with
        | error e => rfl
        | ok x => cases x <;> rfl

theorem phase2Live_act (retr : Nat → Option Cert) (L : Nat → Option Nat) (f : Nat) (tv : ToVerify) :
    phase2Live retr (f + 1) L tv =
      match act retr (L tv.hash) tv with
      | .fail e => (.error e, L)
      | .accept => (.ok (), L)
      | .jump ph => phase2Live retr f L (.toDownload ph)
      | .verified c p => phase2Live retr f (store L c.hash c.prevHash) (.downloaded p) := by
  simp only [phase2Live, act]
  cases L tv.hash with
  | some ph =>
    cases tv with
    | downloaded c => cases hc : c.contentHashOk <;> simp [hc]
    | toDownload h => simp
  | none =>
    cases tv with
    | downloaded c =>
      simp only
      cases verifyCertificate retr c with
      | error e => rfl
      | ok x => cases x <;> rfl
    | toDownload h =>
      simp only
      cases retr h with
      | none => rfl
      | some c =>
        simp only
        cases verifyCertificate retr c with
        | error e => rfl
        | ok x => cases x <;> rfl

/-! ### agreement with `clientVerify` on walks that do not come back to a hash -/

def storeAll (L : Nat → Option Nat) (w : List (Nat × Nat)) : Nat → Option Nat :=
  w.foldl (fun L x => store L x.1 x.2) L

/-- hashes a step of the second loop touches: the key looked up and, if a certificate is recorded, its hash (they differ
only when the certificate served for a cached previous-hash has another hash: the client never compares them) -/
def stepKeys (tv : ToVerify) (c : Cert) : List Nat := if c.hash = tv.hash then [tv.hash] else [tv.hash, c.hash]

/-- the hashes `clientVerify` comes to in its second loop, in order -/
def visited2 (retr : Nat → Option Cert) (cache : Nat → Option Nat) : Nat → ToVerify → List Nat
  | 0, _ => []
  | f + 1, tv =>
    match act retr (cache tv.hash) tv with
    | .verified c p => stepKeys tv c ++ visited2 retr cache f (.downloaded p)
    | .jump ph => tv.hash :: visited2 retr cache f (.toDownload ph)
    | _ => [tv.hash]

/-- … in its first loop and then in the second -/
def visited1 (retr : Nat → Option Cert) (cache : Nat → Option Nat) (se : Nat) : Nat → Cert → List Nat
  | 0, _ => []
  | f + 1, c =>
    c.hash :: (match verifyCertificate retr c with
      | .ok (some p) =>
        if p.epoch ≠ se then visited2 retr cache f (.downloaded p) else visited1 retr cache se f p
      | _ => [])

/-- the hashes one call of `clientVerify` comes to, in order -/
def visited (retr : Nat → Option Cert) (cache : Nat → Option Nat) (fuel : Nat) (c : Cert) : List Nat :=
  visited1 retr cache c.epoch fuel c

theorem mem_stepKeys_hash (tv : ToVerify) (c : Cert) : c.hash ∈ stepKeys tv c := by
  unfold stepKeys; split <;> simp [*]

theorem mem_stepKeys_key (tv : ToVerify) (c : Cert) : tv.hash ∈ stepKeys tv c := by
  unfold stepKeys; split <;> simp

/-- the recorded keys are among the visited hashes, in the same order -/
theorem wr2_sublist (retr : Nat → Option Cert) (cache : Nat → Option Nat) : ∀ (f : Nat) (tv : ToVerify),
    ((phase2Wr retr cache f tv).map (·.1)).Sublist (visited2 retr cache f tv) := by
  intro f
  induction f with
  | zero => intro tv; simp [phase2Wr, visited2]
  | succ f ih =>
    intro tv
    rw [phase2Wr_act]
    simp only [visited2]
    cases act retr (cache tv.hash) tv with
    | fail e => simp
    | accept => simp
    | jump ph => exact (ih _).cons _
    | verified c p =>
      simp only [List.map_cons]
      have h1 : [c.hash].Sublist (stepKeys tv c) := by
        simpa using mem_stepKeys_hash tv c
      exact List.Sublist.append h1 (ih _)

theorem wr1_sublist (retr : Nat → Option Cert) (cache : Nat → Option Nat) (se : Nat) : ∀ (f : Nat) (c : Cert),
    ((phase1Wr retr cache se f c).map (·.1)).Sublist (visited1 retr cache se f c) := by
  intro f
  induction f with
  | zero => intro c; simp [phase1Wr, visited1]
  | succ f ih =>
    intro c
    simp only [phase1Wr, visited1]
    cases verifyCertificate retr c with
    | error e => simp
    | ok x =>
      cases x with
      | none => simp
      | some p =>
        simp only [List.map_cons]
        apply List.Sublist.cons_cons
        split
        · exact wr2_sublist retr cache f _
        · exact ih p

theorem lookupW_none_of_not_mem (w : List (Nat × Nat)) (k : Nat) (h : k ∉ w.map (·.1)) : lookupW w k = none := by
  unfold lookupW
  rw [Option.map_eq_none_iff, List.find?_eq_none]
  intro x hx hk
  exact h (by simpa using ⟨x.2, by simpa [← (show x.1 = k by simpa using hk)] using hx⟩)

/-- stores made one after the other (the last one wins) give the cache `extend` describes (the first one wins) when no key
is recorded twice -/
theorem storeAll_eq_extend : ∀ (w : List (Nat × Nat)) (L : Nat → Option Nat), (w.map (·.1)).Nodup →
    ∀ k, storeAll L w k = extend L w k := by
  intro w
  induction w with
  | nil => intro L _ k; simp [storeAll, extend, lookupW]
  | cons x r ih =>
    intro L hn k
    obtain ⟨a, b⟩ := x
    simp only [List.map_cons, List.nodup_cons] at hn
    have := ih (store L a b) hn.2 k
    simp only [storeAll, List.foldl_cons] at this ⊢
    rw [this]
    unfold extend
    by_cases hk : k = a
    · subst hk
      rw [lookupW_none_of_not_mem r k hn.1]
      simp [lookupW, store]
    · have : lookupW ((a, b) :: r) k = lookupW r k := by
        unfold lookupW
        rw [List.find?_cons_of_neg]
        simpa using fun h => hk h.symm
      rw [this]
      cases lookupW r k with
      | some p => rfl
      | none => simp [store, hk]

/-- second loop: while the look-ups only meet hashes the call has not come to before, the live cache answers as the
initial one, and the records made are those `phase2Wr` lists -/
theorem phase2Live_agrees (retr : Nat → Option Cert) (cache : Nat → Option Nat) : ∀ (f : Nat) (tv : ToVerify)
    (L : Nat → Option Nat), (∀ k ∈ visited2 retr cache f tv, L k = cache k) → (visited2 retr cache f tv).Nodup →
    phase2Live retr f L tv = (phase2 retr cache true f tv, storeAll L (phase2Wr retr cache f tv)) := by
  intro f
  induction f with
  | zero => intro tv L _ _; simp [phase2Live, phase2, phase2Wr, storeAll]
  | succ f ih =>
    intro tv L hL hn
    rw [phase2Live_act, phase2_act, phase2Wr_act]
    simp only [visited2] at hL hn
    have hkey : L tv.hash = cache tv.hash := by
      apply hL
      cases act retr (cache tv.hash) tv with
      | verified c p => exact List.mem_append_left _ (mem_stepKeys_key tv c)
      | fail e => simp
      | accept => simp
      | jump ph => simp
    rw [hkey]
    cases hact : act retr (cache tv.hash) tv with
    | fail e => simp [storeAll]
    | accept => simp [storeAll]
    | jump ph =>
      simp only [hact] at hL hn
      simp only
      exact ih _ L (fun k hk => hL k (List.mem_cons_of_mem _ hk)) (List.nodup_cons.mp hn).2
    | verified c p =>
      simp only [hact] at hL hn
      simp only
      have hdis := List.nodup_append.mp hn
      rw [ih _ (store L c.hash c.prevHash) ?_ hdis.2.1]
      · simp [storeAll]
      · intro k hk
        have hne : k ≠ c.hash := fun h => hdis.2.2 _ (mem_stepKeys_hash tv c) _ hk h.symm
        simp only [store, hne, if_false]
        exact hL k (List.mem_append_right _ hk)

theorem phase1Live_agrees (retr : Nat → Option Cert) (cache : Nat → Option Nat) (se : Nat) : ∀ (f : Nat) (c : Cert)
    (L : Nat → Option Nat), (∀ k ∈ visited1 retr cache se f c, L k = cache k) → (visited1 retr cache se f c).Nodup →
    phase1Live retr se f L c = (phase1 retr cache true se f c, storeAll L (phase1Wr retr cache se f c)) := by
  intro f
  induction f with
  | zero => intro c L _ _; simp [phase1Live, phase1, phase1Wr, storeAll]
  | succ f ih =>
    intro c L hL hn
    simp only [phase1Live, phase1, phase1Wr]
    simp only [visited1] at hL hn
    cases hv : verifyCertificate retr c with
    | error e => simp [storeAll]
    | ok x =>
      cases x with
      | none => simp [storeAll]
      | some p =>
        simp only [hv] at hL hn
        simp only
        have hn' := List.nodup_cons.mp hn
        have hstore : ∀ k, k ∈ (if p.epoch ≠ se then visited2 retr cache f (.downloaded p) else visited1 retr cache se f p) →
            store L c.hash c.prevHash k = cache k := by
          intro k hk
          have hne : k ≠ c.hash := fun h => hn'.1 (h ▸ hk)
          simp only [store, hne, if_false]
          exact hL k (List.mem_cons_of_mem _ hk)
        by_cases he : p.epoch ≠ se
        · simp only [if_pos he] at hstore hn' ⊢
          rw [phase2Live_agrees retr cache f _ _ hstore hn'.2]
          simp [storeAll]
        · simp only [if_neg he] at hstore hn' ⊢
          rw [ih p _ hstore hn'.2]
          simp [storeAll]

/-- **the live client agrees with `clientVerify` / `run`** on every input whose walk does not come to the same hash twice:
same verdict (error class included), and the cache it leaves is the one `run` computes -/
theorem live_agrees (retr : Nat → Option Cert) (cache : Nat → Option Nat) (fuel : Nat) (c : Cert)
    (hn : (visited retr cache fuel c).Nodup) :
    (clientVerifyLive retr cache fuel c).1 = clientVerify retr cache true fuel c ∧
    ∀ k, (clientVerifyLive retr cache fuel c).2 k = extend cache (runWrites retr cache fuel c) k := by
  unfold clientVerifyLive clientVerify runWrites
  rw [phase1Live_agrees retr cache c.epoch fuel c cache (fun _ _ => rfl) hn]
  refine ⟨rfl, fun k => ?_⟩
  exact storeAll_eq_extend _ _ ((wr1_sublist retr cache c.epoch fuel c).nodup hn) k

theorem runLive_agrees (retr : Nat → Option Cert) (cache : Nat → Option Nat) (fuel : Nat) (c : Cert)
    (hn : (visited retr cache fuel c).Nodup) :
    (runLive retr cache fuel c).1 = (run true retr cache fuel c).1 ∧
    ∀ k, (runLive retr cache fuel c).2 k = (run true retr cache fuel c).2 k := by
  obtain ⟨h1, h2⟩ := live_agrees retr cache fuel c hn
  unfold runLive run
  generalize clientVerifyLive retr cache fuel c = lv at h1 h2
  obtain ⟨r, L⟩ := lv
  simp only at h1 h2
  rw [← h1]
  cases r with
  | error e => simp
  | ok u => cases u; exact ⟨rfl, h2⟩

/-! ### walks that DO come back to a hash: the live client never accepts on them

`T` lists the hashes the call has come to so far (looked up, or recorded). `KeyOk` says what the live cache `L` and the
retriever answer for such a hash `k`: either `L` has an entry, and it leads to a hash of `T` (or to the one about to be
processed); or `L` has none — then `k` was looked up, missed, and the certificate served for it has ANOTHER hash (it was
recorded under that one), is not a genesis certificate, and its parent is in `T` and has an entry. Once the walk is
inside `T` it can never leave it, and no step inside `T` ends with an acceptance. -/

def KeyOk (retr : Nat → Option Cert) (L : Nat → Option Nat) (T : List Nat) (tv : ToVerify) (k : Nat) : Prop :=
  (∀ v, L k = some v → v ∈ T ∨ v = tv.hash) ∧
  (L k = none → ∀ c, retr k = some c → c.hash ≠ k ∧ verifyCertificate retr c ≠ .ok none ∧
    ∀ p, verifyCertificate retr c = .ok (some p) →
      (p.hash ∈ T ∨ p.hash = tv.hash) ∧ (L p.hash ≠ none ∨ tv = .downloaded p))

def J (retr : Nat → Option Cert) (L : Nat → Option Nat) (T : List Nat) (tv : ToVerify) : Prop :=
  ∀ k ∈ T, KeyOk retr L T tv k

/-- a certificate handed to the second loop is the one the retriever serves for its own hash (it was fetched as the
parent of the previous one, and `previous_hash` was compared with its hash) -/
def Fetched (retr : Nat → Option Cert) (tv : ToVerify) : Prop := ∀ c, tv = .downloaded c → retr c.hash = some c

theorem act_jump {retr : Nat → Option Cert} {look : Option Nat} {tv : ToVerify} {ph : Nat}
    (h : act retr look tv = .jump ph) : look = some ph := by
  unfold act at h
  cases look with
  | some q =>
    cases tv with
    | downloaded c =>
      simp only at h
      split at h
      · cases h
      · cases h; rfl
    | toDownload k => simp only at h; cases h; rfl
  | none =>
    simp only at h
    split at h
    · cases h
    · split at h <;> cases h

theorem act_none {retr : Nat → Option Cert} {look : Option Nat} {tv : ToVerify} {a : Act}
    (h : act retr look tv = a) (ha : a = .accept ∨ ∃ c p, a = .verified c p) :
    look = none ∧ ∃ c, (tv = .downloaded c ∨ ∃ k, tv = .toDownload k ∧ retr k = some c) ∧
      ((a = .accept ∧ verifyCertificate retr c = .ok none) ∨
       ∃ p, a = .verified c p ∧ verifyCertificate retr c = .ok (some p)) := by
  unfold act at h
  cases look with
  | some q =>
    cases tv with
    | downloaded c =>
      simp only at h
      split at h <;> (subst h; rcases ha with ha | ⟨_, _, ha⟩ <;> cases ha)
    | toDownload k => simp only at h; subst h; rcases ha with ha | ⟨_, _, ha⟩ <;> cases ha
  | none =>
    refine ⟨rfl, ?_⟩
    simp only at h
    split at h
    · subst h; rcases ha with ha | ⟨_, _, ha⟩ <;> cases ha
    · rename_i c hc
      have hsrc : tv = .downloaded c ∨ ∃ k, tv = .toDownload k ∧ retr k = some c := by
        cases tv with
        | downloaded c' => simp only [Option.some.injEq] at hc; subst hc; exact Or.inl rfl
        | toDownload k => exact Or.inr ⟨k, rfl, hc⟩
      refine ⟨c, hsrc, ?_⟩
      split at h
      · subst h; rcases ha with ha | ⟨_, _, ha⟩ <;> cases ha
      · rename_i hv; subst h; exact Or.inl ⟨rfl, hv⟩
      · rename_i p hv; subst h; exact Or.inr ⟨p, rfl, hv⟩

theorem act_accept {retr : Nat → Option Cert} {look : Option Nat} {tv : ToVerify} (h : act retr look tv = .accept) :
    look = none ∧ ∃ c, (tv = .downloaded c ∨ ∃ k, tv = .toDownload k ∧ retr k = some c) ∧
      verifyCertificate retr c = .ok none := by
  obtain ⟨h1, c, h2, h3⟩ := act_none h (Or.inl rfl)
  refine ⟨h1, c, h2, ?_⟩
  rcases h3 with ⟨_, h3⟩ | ⟨p, h3, _⟩
  · exact h3
  · cases h3

theorem act_verified {retr : Nat → Option Cert} {look : Option Nat} {tv : ToVerify} {c p : Cert}
    (h : act retr look tv = .verified c p) :
    look = none ∧ (tv = .downloaded c ∨ ∃ k, tv = .toDownload k ∧ retr k = some c) ∧
      verifyCertificate retr c = .ok (some p) := by
  obtain ⟨h1, c', h2, h3⟩ := act_none h (Or.inr ⟨c, p, rfl⟩)
  rcases h3 with ⟨h3, _⟩ | ⟨p', h3, h4⟩
  · cases h3
  · cases h3; exact ⟨h1, h2, h4⟩

theorem store_ne_none {L : Nat → Option Nat} {a b x : Nat} (h : L x ≠ none) : store L a b x ≠ none := by
  unfold store; split
  · simp
  · exact h

/-- transport of `KeyOk` along a step -/
theorem keyOk_step {retr : Nat → Option Cert} {L L' : Nat → Option Nat} {T T' : List Nat} {tv tv' : ToVerify} {k : Nat}
    (h : KeyOk retr L T tv k) (hT : ∀ x, x ∈ T ∨ x = tv.hash → x ∈ T' ∨ x = tv'.hash) (hk : L' k = L k)
    (hL : ∀ x, L x ≠ none → L' x ≠ none) (hcur : ∀ p, tv = .downloaded p → L' p.hash ≠ none ∨ tv' = .downloaded p) :
    KeyOk retr L' T' tv' k := by
  obtain ⟨h1, h2⟩ := h
  refine ⟨fun v hv => hT v (h1 v (hk ▸ hv)), fun hn c hc => ?_⟩
  obtain ⟨a, b, d⟩ := h2 (hk ▸ hn) c hc
  refine ⟨a, b, fun p hp => ?_⟩
  obtain ⟨e1, e2⟩ := d p hp
  refine ⟨hT _ e1, ?_⟩
  rcases e2 with e2 | e2
  · exact Or.inl (hL _ e2)
  · exact hcur p e2

/-- the trap: once the key to process is in `T`, the second loop never accepts, whatever the fuel -/
theorem trap (retr : Nat → Option Cert) : ∀ (f : Nat) (L : Nat → Option Nat) (T : List Nat) (tv : ToVerify),
    J retr L T tv → tv.hash ∈ T → Fetched retr tv → (phase2Live retr f L tv).1 ≠ .ok () := by
  intro f
  induction f with
  | zero => intro L T tv _ _ _; simp [phase2Live]
  | succ f ih =>
    intro L T tv hJ hT hF
    rw [phase2Live_act]
    have hcur := hJ _ hT
    cases hact : act retr (L tv.hash) tv with
    | fail e => simp
    | accept =>
      exfalso
      obtain ⟨hl, c, hsrc, hv⟩ := act_accept hact
      rcases hsrc with rfl | ⟨k, rfl, hk⟩
      · exact (hcur.2 hl c (hF c rfl)).1 rfl
      · exact (hcur.2 hl c hk).2.1 hv
    | jump ph =>
      simp only
      have hl := act_jump hact
      have hph : ph ∈ T := by
        rcases hcur.1 ph hl with h | h
        · exact h
        · simp only [ToVerify.hash] at h; rw [h]; exact hT
      refine ih L T (.toDownload ph) ?_ hph (fun c hc => by cases hc)
      intro k hk
      refine keyOk_step (hJ k hk) ?_ rfl (fun _ h => h) ?_
      · intro x hx
        rcases hx with hx | hx
        · exact Or.inl hx
        · exact Or.inl (hx ▸ hT)
      · intro p hp
        left
        rw [hp] at hl
        simp only [ToVerify.hash] at hl
        simp [hl]
    | verified c p =>
      simp only
      obtain ⟨hl, hsrc, hv⟩ := act_verified hact
      rcases hsrc with rfl | ⟨h, rfl, hh⟩
      · exact absurd rfl (hcur.2 hl c (hF c rfl)).1
      · simp only [ToVerify.hash] at hl hT hcur
        obtain ⟨hne, _, hp⟩ := hcur.2 hl c hh
        obtain ⟨hp1, hp2⟩ := hp p hv
        have hpT : p.hash ∈ T := by
          rcases hp1 with h1 | h1
          · exact h1
          · exact h1 ▸ hT
        have hpL : L p.hash ≠ none := by
          rcases hp2 with h2 | h2
          · exact h2
          · cases h2
        have hlink := (verifyCertificate_ok_some hv).2.2.2.1
        have hretr := verifyCertificate_ok_some_retr hv
        refine ih (store L c.hash c.prevHash) (c.hash :: T) (.downloaded p) ?_ (List.mem_cons_of_mem _ hpT) ?_
        · intro k hk
          by_cases hkc : k = c.hash
          · subst hkc
            refine ⟨fun v hv' => ?_, fun hn => ?_⟩
            · right
              simp only [store, if_true, Option.some.injEq] at hv'
              simp only [ToVerify.hash]; rw [← hv', hlink]
            · simp [store] at hn
          · have hkT : k ∈ T := by
              rcases List.mem_cons.mp hk with h1 | h1
              · exact absurd h1 hkc
              · exact h1
            refine keyOk_step (hJ k hkT) ?_ (by simp [store, hkc]) (fun _ hx => store_ne_none hx) ?_
            · intro x hx
              rcases hx with hx | hx
              · exact Or.inl (List.mem_cons_of_mem _ hx)
              · exact Or.inl (List.mem_cons_of_mem _ (hx ▸ hT))
            · intro q hq; cases hq
        · intro q hq
          cases hq
          rw [hlink]; exact hretr

/-- second loop: an acceptance of the live client is an acceptance of `phase2` on the initial cache, with the same records -/
theorem sim2 (retr : Nat → Option Cert) (cache : Nat → Option Nat) : ∀ (f : Nat) (L : Nat → Option Nat) (T : List Nat)
    (tv : ToVerify), J retr L T tv → (∀ k, k ∉ T → L k = cache k) → Fetched retr tv →
    (phase2Live retr f L tv).1 = .ok () →
    phase2 retr cache true f tv = .ok () ∧
    (phase2Live retr f L tv).2 = storeAll L (phase2Wr retr cache f tv) := by
  intro f
  induction f with
  | zero => intro L T tv _ _ _ h; simp [phase2Live] at h
  | succ f ih =>
    intro L T tv hJ hA hF hok
    by_cases hT : tv.hash ∈ T
    · exact absurd hok (trap retr (f + 1) L T tv hJ hT hF)
    · have hkey := hA _ hT
      rw [phase2Live_act] at hok ⊢
      rw [phase2_act, phase2Wr_act, ← hkey]
      cases hact : act retr (L tv.hash) tv with
      | fail e => simp [hact] at hok
      | accept => simp [storeAll]
      | jump ph =>
        simp only [hact] at hok ⊢
        have hl := act_jump hact
        refine ih L (tv.hash :: T) (.toDownload ph) ?_ ?_ (fun c hc => by cases hc) hok
        · intro k hk
          by_cases hkc : k = tv.hash
          · subst hkc
            refine ⟨fun v hv => ?_, fun hn => ?_⟩
            · right; rw [hl] at hv; simp only [Option.some.injEq] at hv; simp [ToVerify.hash, hv]
            · rw [hl] at hn; cases hn
          · have hkT : k ∈ T := by
              rcases List.mem_cons.mp hk with h1 | h1
              · exact absurd h1 hkc
              · exact h1
            refine keyOk_step (hJ k hkT) ?_ rfl (fun _ h => h) ?_
            · intro x hx
              rcases hx with hx | hx
              · exact Or.inl (List.mem_cons_of_mem _ hx)
              · exact Or.inl (hx ▸ List.mem_cons_self)
            · intro q hq
              left
              rw [hq] at hl
              simp only [ToVerify.hash] at hl
              simp [hl]
        · intro k hk
          exact hA k (fun h => hk (List.mem_cons_of_mem _ h))
      | verified c p =>
        simp only [hact] at hok ⊢
        obtain ⟨hl, hsrc, hv⟩ := act_verified hact
        have hlink := (verifyCertificate_ok_some hv).2.2.2.1
        have hretr := verifyCertificate_ok_some_retr hv
        have hstep := ih (store L c.hash c.prevHash) (c.hash :: tv.hash :: T) (.downloaded p) ?_ ?_ ?_ hok
        · refine ⟨hstep.1, ?_⟩
          rw [hstep.2]; simp [storeAll]
        · intro k hk
          by_cases hkc : k = c.hash
          · subst hkc
            refine ⟨fun v hv' => ?_, fun hn => ?_⟩
            · right
              simp only [store, if_true, Option.some.injEq] at hv'
              simp only [ToVerify.hash]; rw [← hv', hlink]
            · simp [store] at hn
          · by_cases hkt : k = tv.hash
            · -- the key looked up is not the hash of the certificate recorded: a `toDownload` served with another hash
              subst hkt
              rcases hsrc with rfl | ⟨h, rfl, hh⟩
              · exact absurd rfl hkc
              · simp only [ToVerify.hash] at hkc hl ⊢
                refine ⟨fun v hv' => ?_, fun _ c2 hc2 => ?_⟩
                · simp only [store, hkc, if_false] at hv'
                  rw [hl] at hv'; cases hv'
                · rw [hh] at hc2
                  simp only [Option.some.injEq] at hc2
                  subst hc2
                  refine ⟨fun h' => hkc h'.symm, by rw [hv]; simp, fun p2 hp2 => ?_⟩
                  rw [hv] at hp2
                  simp only [Except.ok.injEq, Option.some.injEq] at hp2
                  subst hp2
                  exact ⟨Or.inr rfl, Or.inr rfl⟩
            · have hkT : k ∈ T := by
                rcases List.mem_cons.mp hk with h1 | h1
                · exact absurd h1 hkc
                · rcases List.mem_cons.mp h1 with h2 | h2
                  · exact absurd h2 hkt
                  · exact h2
              refine keyOk_step (hJ k hkT) ?_ (by simp [store, hkc]) (fun _ hx => store_ne_none hx) ?_
              · intro x hx
                rcases hx with hx | hx
                · exact Or.inl (List.mem_cons_of_mem _ (List.mem_cons_of_mem _ hx))
                · exact Or.inl (List.mem_cons_of_mem _ (hx ▸ List.mem_cons_self))
              · intro q hq
                left
                rcases hsrc with hs | ⟨h, hs, _⟩
                · rw [hs] at hq
                  cases hq
                  simp [store]
                · rw [hs] at hq; cases hq
        · intro k hk
          have hne : k ≠ c.hash := fun h => hk (h ▸ List.mem_cons_self)
          simp only [store, hne, if_false]
          exact hA k (fun h => hk (List.mem_cons_of_mem _ (List.mem_cons_of_mem _ h)))
        · intro q hq
          cases hq
          rw [hlink]; exact hretr

/-- first loop (no look-up): the same, whatever the hashes met -/
theorem sim1 (retr : Nat → Option Cert) (cache : Nat → Option Nat) (se : Nat) : ∀ (f : Nat) (L : Nat → Option Nat)
    (T : List Nat) (c : Cert), J retr L T (.downloaded c) → (∀ k, k ∉ T → L k = cache k) →
    (phase1Live retr se f L c).1 = .ok () →
    phase1 retr cache true se f c = .ok () ∧
    (phase1Live retr se f L c).2 = storeAll L (phase1Wr retr cache se f c) := by
  intro f
  induction f with
  | zero => intro L T c _ _ h; simp [phase1Live] at h
  | succ f ih =>
    intro L T c hJ hA hok
    simp only [phase1Live, phase1, phase1Wr] at hok ⊢
    cases hv : verifyCertificate retr c with
    | error e => simp [hv] at hok
    | ok x =>
      cases x with
      | none => simp [storeAll]
      | some p =>
        simp only [hv] at hok ⊢
        have hlink := (verifyCertificate_ok_some hv).2.2.2.1
        have hretr := verifyCertificate_ok_some_retr hv
        have hJ' : J retr (store L c.hash c.prevHash) (c.hash :: T) (.downloaded p) := by
          intro k hk
          by_cases hkc : k = c.hash
          · subst hkc
            refine ⟨fun v hv' => ?_, fun hn => ?_⟩
            · right
              simp only [store, if_true, Option.some.injEq] at hv'
              simp only [ToVerify.hash]; rw [← hv', hlink]
            · simp [store] at hn
          · have hkT : k ∈ T := by
              rcases List.mem_cons.mp hk with h1 | h1
              · exact absurd h1 hkc
              · exact h1
            refine keyOk_step (hJ k hkT) ?_ (by simp [store, hkc]) (fun _ hx => store_ne_none hx) ?_
            · intro x hx
              rcases hx with hx | hx
              · exact Or.inl (List.mem_cons_of_mem _ hx)
              · exact Or.inl (hx ▸ List.mem_cons_self)
            · intro q hq
              cases hq
              left; simp [store]
        have hA' : ∀ k, k ∉ c.hash :: T → store L c.hash c.prevHash k = cache k := by
          intro k hk
          have hne : k ≠ c.hash := fun h => hk (h ▸ List.mem_cons_self)
          simp only [store, hne, if_false]
          exact hA k (fun h => hk (List.mem_cons_of_mem _ h))
        by_cases he : p.epoch ≠ se
        · simp only [if_pos he] at hok ⊢
          have hF : Fetched retr (.downloaded p) := by
            intro q hq; cases hq; rw [hlink]; exact hretr
          obtain ⟨h1, h2⟩ := sim2 retr cache f _ _ _ hJ' hA' hF hok
          exact ⟨h1, by rw [h2]; simp [storeAll]⟩
        · simp only [if_neg he] at hok ⊢
          obtain ⟨h1, h2⟩ := ih _ _ p hJ' hA' hok
          exact ⟨h1, by rw [h2]; simp [storeAll]⟩

/-- **whenever the live client accepts, `clientVerify` accepts** (same retriever, same initial cache, same fuel), and the
cache the live client leaves is the initial one with the records of `runWrites`, stored in order — for EVERY retriever
and EVERY initial cache, cyclic or not, no hypothesis -/
theorem live_accept_static (retr : Nat → Option Cert) (cache : Nat → Option Nat) (fuel : Nat) (c : Cert)
    (h : (clientVerifyLive retr cache fuel c).1 = .ok ()) :
    clientVerify retr cache true fuel c = .ok () ∧
    (clientVerifyLive retr cache fuel c).2 = storeAll cache (runWrites retr cache fuel c) :=
  sim1 retr cache c.epoch fuel cache [] c (fun k hk => by cases hk) (fun _ _ => rfl) h

/-! ### soundness of the live client, one call and whole sessions -/

theorem store_inv {U : Cert → Prop} {cache : Nat → Option Nat} {a b : Nat} (hc : CacheInvOn U cache)
    (hw : JustOn U (a, b)) : CacheInvOn U (store cache a b) := by
  intro h ph hh
  unfold store at hh
  split at hh
  · rename_i heq
    obtain ⟨x, hxu, hx1, hx2, hx3⟩ := hw
    exact ⟨x, hxu, hx1.trans heq.symm, hx2, hx3⟩
  · exact hc h ph hh

theorem storeAll_inv {U : Cert → Prop} : ∀ (w : List (Nat × Nat)) (cache : Nat → Option Nat), CacheInvOn U cache →
    (∀ x ∈ w, JustOn U x) → CacheInvOn U (storeAll cache w) := by
  intro w
  induction w with
  | nil => intro cache hc _; exact hc
  | cons x r ih =>
    intro cache hc hw
    simp only [storeAll, List.foldl_cons]
    exact ih _ (store_inv hc (hw x (by simp))) (fun y hy => hw y (by simp [hy]))

/-- one call of the client as it really threads its cache: the cache invariant is kept, and an accepted certificate is
validly chained to a genesis certificate (binding relative to the world `U` of certificates: see ChainBinding.lean) -/
theorem runLive_inv (U : Cert → Prop) (retr : Nat → Option Cert) (cache : Nat → Option Nat) (hs : Serves U retr)
    (hc : CacheInvOn U cache) (hb : BindingOn U) (fuel : Nat) (c : Cert) (hu : U c) :
    CacheInvOn U (runLive retr cache fuel c).2 ∧ ((runLive retr cache fuel c).1 = .ok () → Valid LinkSpec c) := by
  have hsim := live_accept_static retr cache fuel c
  unfold runLive
  generalize clientVerifyLive retr cache fuel c = lv at hsim
  obtain ⟨r, L⟩ := lv
  cases r with
  | error e =>
    exact ⟨cacheInvOn_empty U, fun h => by cases h⟩
  | ok u =>
    cases u
    obtain ⟨h1, h2⟩ := hsim rfl
    simp only at h2
    refine ⟨?_, fun _ => client_sound_on U retr cache hs hc hb fuel c h1⟩
    show CacheInvOn U L
    rw [h2]
    exact storeAll_inv _ _ hc (phase1_sound_wr_on U retr cache hs hc hb c.epoch fuel c hu h1)

/-- a session of the live client -/
def sessionLive :
    (Nat → Option Nat) → List ((Nat → Option Cert) × Nat × Cert) → List (Except Err Unit) × (Nat → Option Nat)
  | cache, [] => ([], cache)
  | cache, (retr, fuel, c) :: rest =>
    let (r, cache') := runLive retr cache fuel c
    let (rs, cache'') := sessionLive cache' rest
    (r :: rs, cache'')

/-- **every accepted certificate of every call of every (sequential) session of the live client** is validly chained to a
genesis certificate: `session_sound_on` for the cache as the Rust threads it -/
theorem sessionLive_sound (U : Cert → Prop) (hb : BindingOn U) :
    ∀ (calls : List ((Nat → Option Cert) × Nat × Cert)) (cache : Nat → Option Nat), CacheInvOn U cache →
    (∀ call ∈ calls, Serves U call.1 ∧ U call.2.2) →
    ∀ i (hi : i < calls.length), (sessionLive cache calls).1[i]? = some (.ok ()) → Valid LinkSpec (calls[i]).2.2 := by
  intro calls
  induction calls with
  | nil => intro cache _ _ i hi; simp at hi
  | cons call rest ih =>
    intro cache hc hall i hi hok
    obtain ⟨retr, fuel, c⟩ := call
    obtain ⟨hs, hu⟩ := hall (retr, fuel, c) (by simp)
    obtain ⟨hinv, hval⟩ := runLive_inv U retr cache hs hc hb fuel c hu
    simp only [sessionLive] at hok
    cases i with
    | zero =>
      simp only [List.getElem?_cons_zero, Option.some.injEq] at hok
      simpa using hval hok
    | succ j =>
      simp only [List.getElem?_cons_succ] at hok
      simpa using ih _ hinv (fun call hm => hall call (by simp [hm])) j (by simpa using hi) hok

/-! ### an input on which the two differ

`clientVerify` (cache as at the start of the call) ACCEPTS, the live client never answers. It needs a walk that comes back
to a hash: an initial cache entry that points FORWARD (from the parent `P` to the certificate `C` being verified), which
`store_validated_certificate(hash, previous_hash)` cannot produce unless the content hash has a cycle, and — for the verdicts
to differ rather than both being "does not terminate" — a provider that answers the request for `C`'s hash with another
certificate (here the genesis certificate). The certificate `C` itself is perfectly valid.

To replay on the real client (`MithrilCertificateVerifier` of mithril-client, feature `unstable`, with a
`MemoryCertificateVerifierCache`): honest chain `G` (genesis, epoch 1) ← `P` (epoch 1) ← `C` (epoch 2);
initial cache `{P.hash ↦ C.hash}`; aggregator: `P.hash ↦ P`, `G.hash ↦ G`, `C.hash ↦ G`; call
`CertificateVerifier::verify_chain(&C)`. First loop: `C` validated against `P`, `C.hash ↦ P.hash` stored, epoch changed.
Second loop: `P`: cache hit (`C.hash`), content hash fine → `ToDownload C.hash` → cache hit (the record just made) →
`ToDownload P.hash` → cache hit → `ToDownload C.hash` → … without a single request to the aggregator, for ever. -/

def wC : Cert :=
  { hash := 900, prevHash := 500, epoch := 2, avk := 7, params := 1
    nextAvk := some 7, nextParams := some 1, isGenesis := false
    contentHashOk := true, signedMsgOk := true, epochPartOk := true
    multiSigOk := true, genesisSigOk := false }
def wRetr : Nat → Option Cert :=
  fun h => if h = 500 then some honestP else if h = 100 then some gen else if h = 900 then some gen else none
def wCache : Nat → Option Nat := fun h => if h = 500 then some 900 else none

theorem wCache_inv : CacheInv wCache := by
  intro h ph hh
  unfold wCache at hh
  split at hh
  · rename_i h5
    refine ⟨honestP, h5.symm, rfl, ?_⟩
    refine Valid.step honestP gen rfl ⟨rfl, rfl, rfl⟩ rfl rfl (Or.inl ⟨rfl, rfl, rfl⟩) ?_
    exact Valid.genesis gen rfl ⟨rfl, rfl, rfl⟩ rfl
  · cases hh

theorem wLive_loops : ∀ n,
    (phase2Live wRetr n (store wCache 900 500) (.toDownload 900)).1 = .error .fuel ∧
    (phase2Live wRetr n (store wCache 900 500) (.toDownload 500)).1 = .error .fuel := by
  intro n
  induction n with
  | zero => exact ⟨rfl, rfl⟩
  | succ n ih =>
    constructor
    · have : phase2Live wRetr (n + 1) (store wCache 900 500) (.toDownload 900) =
          phase2Live wRetr n (store wCache 900 500) (.toDownload 500) := by
        simp [phase2Live, store, ToVerify.hash]
      rw [this]; exact ih.2
    · have : phase2Live wRetr (n + 1) (store wCache 900 500) (.toDownload 500) =
          phase2Live wRetr n (store wCache 900 500) (.toDownload 900) := by
        simp [phase2Live, store, wCache, ToVerify.hash]
      rw [this]; exact ih.1

/-- the witness: the model that reads the initial cache accepts (and `wC` IS validly chained); the live client answers
`fuel` for every amount of fuel — the real client, which has no such bound, does not return; the walk comes back to
hash 900 -/
theorem live_differs :
    CacheInv wCache ∧ Valid LinkSpec wC ∧ clientVerify wRetr wCache true 4 wC = .ok () ∧
    (∀ fuel, (clientVerifyLive wRetr wCache fuel wC).1 = .error .fuel) ∧
    visited wRetr wCache 4 wC = [900, 500, 900] := by
  have hP : Valid LinkSpec honestP :=
    Valid.step honestP gen rfl ⟨rfl, rfl, rfl⟩ rfl rfl (Or.inl ⟨rfl, rfl, rfl⟩)
      (Valid.genesis gen rfl ⟨rfl, rfl, rfl⟩ rfl)
  refine ⟨wCache_inv, Valid.step wC honestP rfl ⟨rfl, rfl, rfl⟩ rfl rfl (Or.inr ⟨rfl, rfl, rfl⟩) hP, rfl, ?_, by decide⟩
  intro fuel
  cases fuel with
  | zero => rfl
  | succ f =>
    have hv : verifyCertificate wRetr wC = .ok (some honestP) := rfl
    have h1 : clientVerifyLive wRetr wCache (f + 1) wC =
        phase2Live wRetr f (store wCache 900 500) (.downloaded honestP) := by
      simp only [clientVerifyLive, phase1Live, hv]
      rfl
    rw [h1]
    cases f with
    | zero => rfl
    | succ f =>
      have h2 : phase2Live wRetr (f + 1) (store wCache 900 500) (.downloaded honestP) =
          phase2Live wRetr f (store wCache 900 500) (.toDownload 900) := by
        simp [phase2Live, store, wCache, ToVerify.hash, honestP]
      rw [h2]
      exact (wLive_loops f).1

/-! ### NOT covered by the session theorems: two calls in flight on one cache

`sessionLive_sound` is about calls made one after the other. The records of a call are in the shared cache from the moment
they are made, i.e. before the call has reached a genesis certificate, and the reset happens only when the call has
failed. With the certificates of `poisoning_counterexample`: call 1 (`advF` over the altered copy of the boundary
certificate) records `900 ↦ 500` and then asks the provider for the parent of the altered copy; if the provider holds that
answer back, a second call that starts in the meantime on `advF2` (genuine answers only) finds the record and is
accepted; call 1 fails afterwards. (Replayed on the real client with an aggregator that stalls one request:
`/verif/work/L4/replay`, experiment B — call 2 ACCEPTED.) -/
theorem concurrent_window :
    (phase1Live retr1 advF.epoch 1 (fun _ => none) advF).2 900 = some 500 ∧
    (clientVerifyLive retr2 (store (fun _ => none) 900 500) 10 advF2).1 = .ok () ∧
    (clientVerifyLive retr1 (fun _ => none) 10 advF).1 = .error .hash ∧
    (sessionLive (fun _ => none) [(retr1, 10, advF), (retr2, 10, advF2)]).1.map code = [some .hash, some .avk] := by
  refine ⟨rfl, rfl, rfl, by decide⟩

#print axioms live_agrees
#print axioms live_accept_static
#print axioms sessionLive_sound
#print axioms live_differs
#print axioms concurrent_window
end Chain
