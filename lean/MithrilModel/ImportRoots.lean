import MithrilModel.Import
/-! C13 layer 1b: cached block-range roots stay a function of the stored blocks -/
namespace Import

def LEN : Nat := 15

def inRange (k : Nat) (b : Block) : Bool := k * LEN ≤ b.number && b.number < (k + 1) * LEN
def blocksOf (S : List Block) (k : Nat) : List Block := S.filter (inRange k)

/- `R` computes the root of one range from the stored blocks of that range, `none` = the range is
skipped (no block for the blocks-and-transactions table, no transaction for the legacy table) -/
variable {ρ : Type} (R : List Block → Option ρ)

/-- the root of range `k` as computed from the store, `none` for a skipped range -/
def rootAt (S : List Block) (k : Nat) : Option (Nat × ρ) :=
  (R (blocksOf S k)).map (fun r => (k, r))

/-- `BlockRangeImporter::run(up_to)` -/
def resume (roots : List (Nat × ρ)) : Nat :=
  match (roots.map (·.1)).max? with
  | none => 0
  | some k => k + 1

def rangesRun (S : List Block) (roots : List (Nat × ρ)) (upTo : Nat) : List (Nat × ρ) :=
  let startK := resume roots
  let endK := (upTo + 1) / LEN
  roots ++ (List.range' startK (endK - startK)).filterMap (rootAt R S)

/-- root deletion of a roll-back whose anchor block has number `n`: `start >= start(range(n))` -/
def rollbackRoots (roots : List (Nat × ρ)) (n : Nat) : List (Nat × ρ) := roots.filter (fun r => r.1 < n / LEN)

def cached (S : List Block) (K : Nat) : List (Nat × ρ) := (List.range K).filterMap (rootAt R S)

theorem rootAt_fst {S : List Block} {k : Nat} {r : Nat × ρ} (h : rootAt R S k = some r) : r.1 = k := by
  unfold rootAt at h
  cases hR : R (blocksOf S k) with
  | none => rw [hR] at h; simp at h
  | some x => rw [hR] at h; simp at h; rw [← h]

theorem mem_cached {S : List Block} {K : Nat} {r : Nat × ρ} :
    r ∈ cached R S K ↔ r.1 < K ∧ rootAt R S r.1 = some r := by
  simp only [cached, List.mem_filterMap, List.mem_range]
  constructor
  · rintro ⟨k, hk, h⟩; have := rootAt_fst R h; subst this; exact ⟨hk, h⟩
  · rintro ⟨h1, h2⟩; exact ⟨r.1, h1, h2⟩

theorem filterMap_congr' {α β : Type} {f g : α → Option β} : ∀ (l : List α), (∀ x ∈ l, f x = g x) →
    l.filterMap f = l.filterMap g := by
  intro l
  induction l with
  | nil => intro _; rfl
  | cons a r ih =>
    intro h
    simp only [List.filterMap_cons, h a (by simp)]
    rw [ih (fun x hx => h x (by simp [hx]))]

theorem cached_congr {S S' : List Block} {K : Nat} (h : ∀ k < K, blocksOf S' k = blocksOf S k) :
    cached R S' K = cached R S K := by
  unfold cached
  apply filterMap_congr'
  intro k hk
  simp only [rootAt, h k (List.mem_range.mp hk)]

theorem cached_succ (S : List Block) (K : Nat) :
    cached R S (K + 1) = cached R S K ++ (rootAt R S K).toList := by
  unfold cached
  rw [List.range_succ, List.filterMap_append]
  congr 1

/-- deleting the roots from the anchor's range on is the cache of fewer ranges -/
theorem rollbackRoots_cached (S : List Block) (K m : Nat) :
    (cached R S K).filter (fun r => r.1 < m) = cached R S (min K m) := by
  induction K with
  | zero => simp [cached]
  | succ K ih =>
    rw [cached_succ, List.filter_append, ih]
    by_cases hm : K < m
    · have : min (K + 1) m = min K m + 1 := by omega
      rw [this, cached_succ]
      have hK : min K m = K := by omega
      rw [hK]
      congr 1
      cases h : rootAt R S K with
      | none => simp
      | some r => simp [rootAt_fst R h, hm]
    · have : min (K + 1) m = min K m := by omega
      rw [this]
      cases h : rootAt R S K with
      | none => simp
      | some r => simp [rootAt_fst R h, hm]

theorem range'_filterMap_none (f : Nat → Option (Nat × ρ)) (a n : Nat) (h : ∀ k, a ≤ k → k < a + n → f k = none) :
    (List.range' a n).filterMap f = [] := by
  rw [List.filterMap_eq_nil_iff]
  intro k hk
  rw [List.mem_range'_1] at hk
  exact h k hk.1 hk.2

/-- **the range importer extends the cache** from wherever the highest stored root is -/
theorem resume_spec (S : List Block) (K : Nat) :
    resume (cached R S K) ≤ K ∧ ∀ k, resume (cached R S K) ≤ k → k < K → rootAt R S k = none := by
  unfold resume
  cases hm : ((cached R S K).map (·.1)).max? with
  | none =>
    refine ⟨Nat.zero_le _, fun k _ hk => ?_⟩
    rw [List.max?_eq_none_iff, List.map_eq_nil_iff] at hm
    cases h : rootAt R S k with
    | none => rfl
    | some r =>
      have : r ∈ cached R S K := (mem_cached R).mpr ⟨by rw [rootAt_fst R h]; exact hk, by rw [rootAt_fst R h]; exact h⟩
      rw [hm] at this; simp at this
  | some kmax =>
    obtain ⟨hmem, hle⟩ := List.max?_eq_some_iff.mp hm
    simp only [List.mem_map] at hmem
    obtain ⟨r, hr, hrk⟩ := hmem
    have := ((mem_cached R).mp hr).1
    refine ⟨by simp only; omega, fun k hk1 hk2 => ?_⟩
    simp only at hk1
    cases h : rootAt R S k with
    | none => rfl
    | some r' =>
      have hin : r' ∈ cached R S K := (mem_cached R).mpr ⟨by rw [rootAt_fst R h]; exact hk2, by rw [rootAt_fst R h]; exact h⟩
      have := hle r'.1 (List.mem_map.mpr ⟨r', hin, rfl⟩)
      rw [rootAt_fst R h] at this
      omega

/-- **the range importer extends the cache** from wherever the highest stored root is -/
theorem rangesRun_cached (S : List Block) (K upTo : Nat) :
    rangesRun R S (cached R S K) upTo = cached R S (max K ((upTo + 1) / LEN)) := by
  unfold rangesRun
  generalize (upTo + 1) / LEN = endK
  obtain ⟨hsK, hnone⟩ := resume_spec R S K
  generalize resume (cached R S K) = startK at hsK hnone
  simp only
  by_cases hEK : endK ≤ K
  · have : max K endK = K := by omega
    rw [this, range'_filterMap_none (rootAt R S) startK (endK - startK) (fun k h1 h2 => hnone k h1 (by omega))]
    simp
  · have hmax : max K endK = endK := by omega
    rw [hmax]
    have hsplit : List.range' startK (endK - startK) = List.range' startK (K - startK) ++ List.range' K (endK - K) := by
      have h1 : endK - startK = (K - startK) + (endK - K) := by omega
      have h2 : K = startK + (K - startK) := by omega
      rw [h1, ← List.range'_append_1, ← h2]
    rw [hsplit, List.filterMap_append,
      range'_filterMap_none (rootAt R S) startK (K - startK) (fun k h1 h2 => hnone k h1 (by omega))]
    simp only [List.nil_append, cached]
    rw [← List.filterMap_append]
    congr 1
    have : endK = K + (endK - K) := by omega
    rw [this, List.range_add, ← List.range'_eq_map_range]
    simp

/-! ## blocks and roots together -/

/-- the cached ranges lie at or below the highest stored block -/
def Below (S : List Block) (K : Nat) : Prop := K = 0 ∨ ∃ b ∈ S, K * LEN ≤ b.number + 1

def RInv (S : List Block) (roots : List (Nat × ρ)) : Prop := ∃ K, roots = cached R S K ∧ Below S K

def applyOutRoots (S : List Block) (roots : List (Nat × ρ)) : Option Out → List (Nat × ρ)
  | some (.backward s) =>
    match anchor S s with
    | none => roots
    | some n => rollbackRoots roots n
  | _ => roots

theorem insertAll_prefix (S bs : List Block) : ∃ ext, insertAll S bs = S ++ ext := by
  induction bs generalizing S with
  | nil => exact ⟨[], by simp [insertAll]⟩
  | cons b r ih =>
    simp only [insertAll, List.foldl_cons]
    by_cases hc : conflicts S b
    · simp only [insertBlock, hc, if_true]; exact ih S
    · simp only [insertBlock, hc]
      obtain ⟨ext, h⟩ := ih (S ++ [b])
      exact ⟨b :: ext, by simpa [insertAll] using h⟩

theorem blocksOf_append_above (S ext : List Block) (K : Nat) (h : ∀ b ∈ ext, K * LEN ≤ b.number) :
    ∀ k < K, blocksOf (S ++ ext) k = blocksOf S k := by
  intro k hk
  unfold blocksOf
  rw [List.filter_append]
  have : ext.filter (inRange k) = [] := by
    simp only [List.filter_eq_nil_iff, inRange, Bool.and_eq_true, decide_eq_true_eq, not_and, Nat.not_lt]
    intro b hb _
    have := h b hb
    have : (k + 1) * LEN ≤ K * LEN := Nat.mul_le_mul_right _ hk
    omega
  simp [this]

theorem rinv_forwards (S ext : List Block) (roots : List (Nat × ρ)) (hS : Sorted (S ++ ext))
    (h : RInv R S roots) : RInv R (S ++ ext) roots := by
  obtain ⟨K, hr, hB⟩ := h
  refine ⟨K, ?_, ?_⟩
  · rw [hr]; symm
    apply cached_congr
    rcases hB with h0 | ⟨b, hb, hbK⟩
    · subst h0; intro k hk; omega
    · apply blocksOf_append_above
      intro x hx
      have := ((List.pairwise_append.mp hS).2.2 b hb x hx).1
      omega
  · rcases hB with h0 | ⟨b, hb, hbK⟩
    · exact Or.inl h0
    · exact Or.inr ⟨b, by simp [hb], hbK⟩

theorem rinv_backward (S : List Block) (roots : List (Nat × ρ)) (s n : Nat) (ha : anchor S s = some n)
    (h : RInv R S roots) : RInv R (S.filter (fun b => b.number ≤ n)) (rollbackRoots roots n) := by
  obtain ⟨K, hr, _⟩ := h
  obtain ⟨hmem, _⟩ := List.max?_eq_some_iff.mp ha
  simp only [List.mem_map, List.mem_filter, decide_eq_true_eq] at hmem
  obtain ⟨a, ⟨haS, _⟩, han⟩ := hmem
  refine ⟨min K (n / LEN), ?_, ?_⟩
  · rw [hr]; unfold rollbackRoots; rw [rollbackRoots_cached]; symm
    apply cached_congr
    intro k hk
    unfold blocksOf
    rw [List.filter_filter]
    apply List.filter_congr
    intro b _
    have h1 : (k + 1) * LEN ≤ n / LEN * LEN := Nat.mul_le_mul_right _ (by omega)
    have h2 : n / LEN * LEN ≤ n := Nat.div_mul_le_self n LEN
    simp only [inRange]
    by_cases hb : b.number < (k + 1) * LEN
    · have : b.number ≤ n := by omega
      simp [hb, this]
    · simp [hb]
  · by_cases h0 : min K (n / LEN) = 0
    · exact Or.inl h0
    · refine Or.inr ⟨a, by simp [haS, han], ?_⟩
      have h1 : min K (n / LEN) * LEN ≤ n / LEN * LEN := Nat.mul_le_mul_right _ (by omega)
      have h2 : n / LEN * LEN ≤ n := Nat.div_mul_le_self n LEN
      omega

/-- one importer step on blocks and roots keeps the roots a function of the stored blocks -/
theorem rinv_applyOut (S : List Block) (roots : List (Nat × ρ)) (out : Option Out)
    (hS' : Sorted (applyOut S out)) (h : RInv R S roots) :
    RInv R (applyOut S out) (applyOutRoots S roots out) := by
  cases out with
  | none => simpa [applyOut, applyOutRoots] using h
  | some o =>
    cases o with
    | forwards bs =>
      obtain ⟨ext, he⟩ := insertAll_prefix S bs
      simp only [applyOut, applyOutRoots] at hS' ⊢
      rw [he] at hS' ⊢
      exact rinv_forwards R S ext roots hS' h
    | backward s =>
      simp only [applyOut, applyOutRoots, rollback]
      cases ha : anchor S s with
      | none => simpa using h
      | some n => simpa using rinv_backward R S roots s n ha h

/-- the whole import: blocks loop, then `BlockRangeImporter::run(target)` -/
def runF (c : Cfg) : Nat → Option Nat → List Block → List (Nat × ρ) → List (Option Ev) →
    List Block × List (Nat × ρ) × List (Option Ev) × Option Nat
  | 0, lp, S, roots, rs => (S, roots, rs, lp)
  | fuel + 1, lp, S, roots, rs =>
    match poll c lp [] rs with
    | (none, rest, lp') => (S, roots, rest, lp')
    | (some out, rest, lp') => runF c fuel lp' (applyOut S (some out)) (applyOutRoots S roots (some out)) rest

def importF (c : Cfg) (fuel : Nat) (S : List Block) (roots : List (Nat × ρ)) (rs : List (Option Ev)) :
    List Block × List (Nat × ρ) × List (Option Ev) :=
  let r := runF c fuel none S roots rs
  (r.1, rangesRun R r.1 r.2.1 c.untilN, r.2.2.1)

theorem runF_refines (c : Cfg) : ∀ (fuel : Nat) (lp : Option Nat) (S V : List Block) (roots : List (Nat × ρ)) (rs : List (Option Ev)),
    Inv c S [] V → Good c lp V rs → RInv R S roots →
    ∃ pre, rs = pre ++ (runF c fuel lp S roots rs).2.2.1 ∧
      Inv c (runF c fuel lp S roots rs).1 [] (applyAll V pre) ∧
      RInv R (runF c fuel lp S roots rs).1 (runF c fuel lp S roots rs).2.1 := by
  intro fuel
  induction fuel with
  | zero => intro lp S V roots rs hI _ hR; exact ⟨[], by simp [runF], by simpa [runF, applyAll] using hI, by simpa [runF] using hR⟩
  | succ fuel ih =>
    intro lp S V roots rs hI hG hR
    obtain ⟨pre, h1, _, h3, h4⟩ := poll_refines c rs lp [] S V hI hG
    simp only [runF]
    cases hp : poll c lp [] rs with
    | mk out rest' =>
      cases rest' with
      | mk rest lp' =>
        rw [hp] at h1 h3 h4
        cases out with
        | none => exact ⟨pre, h1, by simpa [applyOut] using h3, hR⟩
        | some o =>
          simp only
          have hS' : Sorted (applyOut S (some o)) := by
            have := inv_sorted_store h3; simpa using this
          have hR' := rinv_applyOut R S roots (some o) hS' hR
          obtain ⟨pre', g1, g2, g3⟩ := ih lp' _ _ _ rest h3 h4 hR'
          refine ⟨pre ++ pre', ?_, ?_, g3⟩
          · rw [List.append_assoc, ← g1]; exact h1
          · rw [applyAll_append]; exact g2

/-- **C13, layer 1 (blocks and roots).** After one import of a good reply script, the stored blocks
are the abstract chain cut at the target, and — when the last complete range below the target is
covered by a stored block — the stored roots are exactly the roots of all complete ranges below the
target computed from those blocks: nothing depends on the batches, roll-backs, or earlier imports. -/
theorem importF_refines (c : Cfg) (fuel : Nat) (S0 : List Block) (roots0 : List (Nat × ρ)) (rs : List (Option Ev))
    (hS : Sorted S0) (hU : ∀ x ∈ S0, x.number ≤ c.untilN) (hG : Good c none S0 rs) (hR : RInv R S0 roots0) :
    ∃ pre, rs = pre ++ (importF R c fuel S0 roots0 rs).2.2 ∧
      (importF R c fuel S0 roots0 rs).1 = (applyAll S0 pre).filter (fun x => x.number ≤ c.untilN) ∧
      Sorted (importF R c fuel S0 roots0 rs).1 ∧
      (Below (importF R c fuel S0 roots0 rs).1 ((c.untilN + 1) / LEN) →
        (importF R c fuel S0 roots0 rs).2.1 = cached R (importF R c fuel S0 roots0 rs).1 ((c.untilN + 1) / LEN) ∧
        RInv R (importF R c fuel S0 roots0 rs).1 (importF R c fuel S0 roots0 rs).2.1) := by
  have hI : Inv c S0 [] S0 := by
    refine ⟨hS, ?_, Or.inl rfl⟩
    rw [List.append_nil]; symm; rw [List.filter_eq_self]; intro x hx; simpa using hU x hx
  obtain ⟨pre, h1, h2, K, hK, hB⟩ := runF_refines R c fuel none S0 S0 roots0 rs hI hG hR
  refine ⟨pre, h1, by simpa [importF] using h2.2.1, ?_, ?_⟩
  · have := inv_sorted_store h2; simpa [importF] using this
  intro hBelow
  simp only [importF]
  rw [hK, rangesRun_cached]
  -- every stored block is at or below the target, so the cache never extends beyond the target's ranges
  have hKle : K ≤ (c.untilN + 1) / LEN := by
    rcases hB with h0 | ⟨b, hb, hbK⟩
    · rw [h0]; exact Nat.zero_le _
    · have hbV : b ∈ (applyAll S0 pre).filter (fun x => x.number ≤ c.untilN) := by
        have := h2.2.1; simp only [List.append_nil] at this; rw [← this]; exact hb
      have hbU : b.number ≤ c.untilN := by simpa using (List.mem_filter.mp hbV).2
      rw [Nat.le_div_iff_mul_le (by decide : 0 < LEN)]
      omega
  have : max K ((c.untilN + 1) / LEN) = (c.untilN + 1) / LEN := by omega
  rw [this]
  exact ⟨rfl, _, rfl, hBelow⟩

#print axioms importF_refines

/-- class 3: a target above the delivered tip caches the root of a partially imported range for good -/
theorem partial_range_counterexample :
    let R : List Block → Option (List Nat) := fun bs => if bs.isEmpty then none else some (bs.map (·.hash))
    let b : Nat → Block := fun n => ⟨n, n, n * 10⟩
    let chain20 := (List.range' 1 20).map b
    let rest := (List.range' 21 30).map b
    let c1 : Cfg := ⟨0, 40, 100⟩
    let r1 := importF R c1 50 [] [] (chain20.map (fun x => some (.fwd x)))
    let c2 : Cfg := ⟨200, 50, 100⟩
    let r2 := importF R c2 50 r1.1 r1.2.1 (some (.back 200) :: rest.map (fun x => some (.fwd x)))
    let fresh := importF R ⟨0, 50, 100⟩ 50 [] [] ((chain20 ++ rest).map (fun x => some (.fwd x)))
    r2.1 = fresh.1 ∧ r2.2.1 ≠ fresh.2.1 := by
  decide +kernel

end Import
#print axioms Import.partial_range_counterexample
