import MithrilModel.AggChain
/-!
C15: the `signed_entity` table along every run, including ticks cut at a crash point: at most one
row per (type, beacon), each referencing a stored certificate that certifies exactly that entity.
Plus the gap lemma (no parent ⇒ nothing inserted) and the double-certificate observation.
-/
namespace Agg

def SeInv (s : St) : Prop :=
  s.ses.Pairwise (fun a b => a.1 ≠ b.1) ∧ ∀ x ∈ s.ses, ∃ c ∈ s.certs, c.id = x.2 ∧ c.entity = some x.1

theorem seinv_mono {s s' : St} (h : SeInv s) (hs : s'.ses = s.ses) (hc : ∀ c ∈ s.certs, c ∈ s'.certs) : SeInv s' := by
  obtain ⟨h1, h2⟩ := h
  refine ⟨by rw [hs]; exact h1, ?_⟩
  intro x hx
  rw [hs] at hx
  obtain ⟨c, hcm, a, b⟩ := h2 x hx
  exact ⟨c, hc c hcm, a, b⟩

theorem seinv_add {s s' : St} (h : SeInv s) {e id : Nat} (hs : s'.ses = addSignedEntity s.ses e id)
    (hc : ∀ c ∈ s.certs, c ∈ s'.certs) (hn : ∃ c ∈ s'.certs, c.id = id ∧ c.entity = some e) : SeInv s' := by
  obtain ⟨h1, h2⟩ := h
  unfold addSignedEntity at hs
  split at hs
  · exact seinv_mono ⟨h1, h2⟩ hs hc
  · rename_i hany
    refine ⟨?_, ?_⟩
    · rw [hs]
      refine List.pairwise_append.mpr ⟨h1, by simp, ?_⟩
      intro a ha b hb
      simp only [List.mem_singleton] at hb; subst hb
      intro hab
      apply hany
      exact List.any_eq_true.mpr ⟨a, ha, by simpa using hab⟩
    · intro x hx
      rw [hs] at hx
      rcases List.mem_append.mp hx with hx | hx
      · obtain ⟨c, hcm, a, b⟩ := h2 x hx
        exact ⟨c, hc c hcm, a, b⟩
      · simp only [List.mem_singleton] at hx; subst hx
        exact hn

theorem handOverGo_ses (e : Nat) : ∀ (l : List BufSig) (s : St) (r : List Nat),
    (handOverGo s e l r).1.ses = s.ses := by
  intro l
  induction l with
  | nil => intro s r; rfl
  | cons b rest ih =>
    intro s r
    simp only [handOverGo]
    split
    · exact ih (storeSig s e b.sig) (b.sig.party :: r)
    · exact ih s r
    · rfl

theorem idleStep_se (s : St) (tp : Tp) (last : Option Nat) :
    (idleStep s tp last).ses = s.ses ∧ (idleStep s tp last).certs = s.certs := by
  unfold idleStep
  dsimp only
  cases (last.isNone || last.any (· < tp.epoch))
  · simp only [Bool.false_and, Bool.false_eq_true, if_false]
    repeat' split
    all_goals exact ⟨rfl, rfl⟩
  · simp only [Bool.true_and, if_true]
    repeat' split
    all_goals exact ⟨rfl, rfl⟩

theorem readyStepCut_se (E : Env) (s : St) (tp : Tp) (p : CrashPoint) :
    (readyStepCut E s tp p).ses = s.ses ∧ (readyStepCut E s tp p).certs = s.certs := by
  unfold readyStepCut
  split
  · rename_i oms' e heq
    dsimp only
    have hs := handOverGo_ses e (({ s with oms := oms' } : St).buf.filter (·.disc = E.entityDisc e)).reverse { s with oms := oms' } []
    have hc := handOverGo_core e (({ s with oms := oms' } : St).buf.filter (·.disc = E.entityDisc e)).reverse { s with oms := oms' } []
    have hN : (handOverNoRemoval E { s with oms := oms' } e).1.ses = s.ses ∧ (handOverNoRemoval E { s with oms := oms' } e).1.certs = s.certs := by
      unfold handOverNoRemoval
      split <;> (rename_i heq3; rw [heq3] at hs hc; exact ⟨hs, hc.2.1⟩)
    have hH : (handOver E { s with oms := oms' } e).1.ses = s.ses ∧ (handOver E { s with oms := oms' } e).1.certs = s.certs := by
      unfold handOver; dsimp only
      split <;> (rename_i heq3; rw [heq3] at hs hc; exact ⟨hs, hc.2.1⟩)
    split
    · exact ⟨rfl, rfl⟩
    · split
      · exact ⟨rfl, rfl⟩
      · split
        · rename_i s2 heq2; rw [heq2] at hN; exact hN
        · rename_i s2 heq2; rw [heq2] at hN; exact hN
      · split
        · rename_i s2 heq2; rw [heq2] at hH; exact hH
        · rename_i s2 heq2; rw [heq2] at hH; exact hH
  · exact ⟨rfl, rfl⟩

theorem signingStepCut_se (E : Env) (s : St) (tp : Tp) (ep e : Nat) (p : CrashPoint) (h : SeInv s) :
    SeInv (signingStepCut E s tp ep e p) := by
  unfold signingStepCut
  dsimp only
  split
  · exact seinv_mono h rfl (fun c hc => hc)
  · split
    · exact seinv_mono h rfl (fun c hc => hc)
    · split
      · rename_i c hc
        obtain ⟨o, m, _, _, _, _, _, hceq⟩ := newCert_spec hc
        have hid : c.id = s.certs.length := by rw [hceq]
        have hent : c.entity = some e := by rw [hceq]
        have hsub : ∀ c' ∈ s.certs, c' ∈ s.certs ++ [c] := fun c' h' => List.mem_append_left _ h'
        unfold createCertificateCut
        cases p <;> dsimp only
        · exact seinv_mono h rfl (fun c hc => hc)
        · exact seinv_mono h rfl hsub
        · exact seinv_mono h rfl hsub
        · exact seinv_mono h rfl hsub
        · exact seinv_mono h rfl hsub
        all_goals exact seinv_add h rfl hsub ⟨c, by simp, rfl, hent⟩
      · exact seinv_mono h rfl (fun c hc => hc)

theorem crashTick_se (E : Env) (s : St) (tp : Tp) (p : CrashPoint) (h : SeInv s) : SeInv (crashTick E s tp p) := by
  unfold crashTick
  split
  · have := idleStep_se s tp ‹_›
    exact seinv_mono h this.1 (fun c hc => by rw [this.2]; exact hc)
  · split <;> exact seinv_mono h rfl (fun c hc => hc)
  · split
    · exact seinv_mono h rfl (fun c hc => hc)
    · have := readyStepCut_se E s tp p
      exact seinv_mono h this.1 (fun c hc => by rw [this.2]; exact hc)
  · exact signingStepCut_se E s tp _ _ p h

theorem step_se (E : Env) (s : St) (ev : Event) (h : SeInv s) : SeInv (step E s ev) := by
  cases ev with
  | tick tp =>
    show SeInv { tick E s tp with seen := tp.epoch }
    rw [tick_eq_crashTick]
    exact seinv_mono (crashTick_se E s tp _ h) rfl (fun c hc => hc)
  | crash tp p => exact seinv_mono (crashTick_se E s tp p h) rfl (fun c hc => hc)
  | signature e g =>
    show SeInv (registerSig E s e g)
    unfold registerSig
    split
    · exact seinv_mono h rfl (fun c hc => hc)
    · exact seinv_mono h rfl (fun c hc => hc)
    · exact h
  | register k p =>
    show SeInv (register s k p)
    unfold register
    split
    · exact seinv_mono h rfl (fun c hc => hc)
    · exact h
  | expire e => exact seinv_mono h rfl (fun c hc => hc)
  | restart => exact seinv_mono h rfl (fun c hc => hc)

theorem run_se (E : Env) : ∀ (evs : List Event) (s : St), SeInv s → SeInv (evs.foldl (step E) s) := by
  intro evs
  induction evs with
  | nil => intro s h; exact h
  | cons ev r ih => intro s h; exact ih _ (step_se E s ev h)

theorem se_init (n g : Nat) : SeInv (init n g) := by
  refine ⟨by simp [init], ?_⟩
  intro x hx; simp [init] at hx

/-! ### epoch gap -/

/-- no certificate of the entity's epoch or of the one before ⇒ no parent ⇒ nothing is inserted -/
theorem master_none_of_gap {certs : List CertRec} {e : Nat} (h : ∀ c ∈ certs, c.epoch ≠ e ∧ c.epoch + 1 ≠ e) :
    master certs e = none := by
  unfold master
  have : certs.filter (fun c => (c.epoch = e || c.epoch + 1 = e) && isMaster certs c) = [] := by
    apply List.filter_eq_nil_iff.mpr
    intro c hc
    obtain ⟨h1, h2⟩ := h c hc
    simp [h1, h2]
  rw [this]; rfl

theorem newCert_none_of_gap (E : Env) (s : St) (e : Nat) {o : OM} (ho : findOm e s.oms = some o)
    (h : ∀ c ∈ s.certs, c.epoch ≠ o.epoch ∧ c.epoch + 1 ≠ o.epoch) : newCert E s e = none := by
  unfold newCert
  rw [ho]
  dsimp only
  split
  · rfl
  · rw [master_none_of_gap h]

/-- the idle tick blocks on an epoch gap -/
theorem idle_blocks_on_gap (s : St) (tp : Tp) (last : Option Nat) {latest : CertRec}
    (hl : s.certs.getLast? = some latest) (hgap : absDiff tp.epoch latest.epoch > 1) :
    (idleStep s tp last).rt = s.rt ∨ (idleStep s tp last).rt = .blocked tp.epoch 2 := by
  unfold idleStep
  dsimp only
  have hcerts : (epochInit s tp).certs = s.certs := rfl
  cases (last.isNone || last.any (· < tp.epoch))
  · simp [hl, hgap]
  · simp only [Bool.true_and, if_true, hcerts, hl, hgap]
    split
    · left; rfl
    · right; rfl

/-! ### the double-certificate observation (C15 note) -/

def E1 : Env := { entityEpoch := fun _ => 2, entityDisc := fun _ => 0, quorum := fun _ _ => true, timeout := fun _ => none }
def s1 : St :=
  { rt := .signing 2 7, oms := [{ entity := 7, epoch := 2, msg := 0, certified := false, expired := false, expiresAt := none }],
    certs := [{ id := 0, entity := none, epoch := 1, parent := none, avk := 1, signers := [] }],
    sigs := [{ entity := 7, party := 1, sigma := 5, idx := [1], signer := 1, msg := 0, vEpoch := 2 }],
    cleaned := 0, seen := 2, buf := [], ses := [], regs := [(1, 1), (2, 1)], es := some 2, round := some 3 }
def tp2 : Tp := { epoch := 2, now := 0, avail := [7], newmsg := 0 }

/-- a stop between the certificate insert and the open-message update, a restart and three ticks:
the same entity is certified a second time (the first certificate stays, valid, without artifact) -/
theorem crash_double_certificate :
    let s3 := [Event.crash tp2 .certAfterInsert, .restart, .tick tp2, .tick tp2, .tick tp2].foldl (step E1) s1
    (s3.certs.filter (fun c => c.entity = some 7)).length = 2 ∧ s3.ses = [(7, 2)] := by
  decide

/-- while the same history without the stop certifies it once -/
theorem nocrash_single_certificate :
    let s3 := [Event.tick tp2, .restart, .tick tp2, .tick tp2, .tick tp2].foldl (step E1) s1
    (s3.certs.filter (fun c => c.entity = some 7)).length = 1 ∧ s3.ses = [(7, 1)] := by
  decide

end Agg
