import MithrilModel.ChainSession
/-!
# C03 — client soundness with a hash-binding hypothesis that CAN hold

`Chain.HashBinding` (ChainClient.lean) quantifies over ALL abstract records: two records with the same `hash`, both with
`contentHashOk = true`, are equal. Records are free structures, so this is refutable (`hashBinding_false`: take a record
and change its epoch) — every theorem that assumes it (`client_sound`, `run_inv`, `session_sound` and their `C03_…`
wrappers) is vacuously true. What collision-freeness of SHA-256 really gives is binding among the certificates that
EXIST in the run: the ones the provider serves, the ones the calls start from, and the ones the cache entries were learnt
from. This file re-proves the client theorems under that hypothesis:

* `U : Cert → Prop` — the certificates of the world;
* `BindingOn U` — no two different certificates of `U` with the same hash both have a content that hashes to it;
* `Serves U retr` — whatever the provider answers is in `U`;
* `CacheInvOn U cache` — every cache entry was learnt from a certificate of `U` that is validly chained.

`BindingOn U` holds e.g. for every `U` whose certificates have pairwise different hashes (`bindingOn_of_injective`), so the
theorems are not vacuous (examples at the end).
-/
namespace Chain

/-- the global binding hypothesis of ChainClient.lean is false -/
theorem hashBinding_false : ¬ HashBinding := by
  intro h
  have := h gen { gen with epoch := 9 } rfl rfl rfl
  revert this
  decide

def BindingOn (U : Cert → Prop) : Prop :=
  ∀ a b : Cert, U a → U b → a.hash = b.hash → a.contentHashOk = true → b.contentHashOk = true → a = b

def Serves (U : Cert → Prop) (retr : Nat → Option Cert) : Prop := ∀ h c, retr h = some c → U c

def CacheInvOn (U : Cert → Prop) (cache : Nat → Option Nat) : Prop :=
  ∀ h ph, cache h = some ph → ∃ x : Cert, U x ∧ x.hash = h ∧ x.contentHashOk = true ∧ Valid LinkSpec x

def JustOn (U : Cert → Prop) (w : Nat × Nat) : Prop :=
  ∃ x : Cert, U x ∧ x.hash = w.1 ∧ x.contentHashOk = true ∧ Valid LinkSpec x

/-- a world given by a list of certificates with pairwise different hashes is binding -/
theorem bindingOn_of_injective (U : Cert → Prop) (h : ∀ a b, U a → U b → a.hash = b.hash → a = b) : BindingOn U :=
  fun a b ha hb hh _ _ => h a b ha hb hh

theorem cacheInvOn_empty (U : Cert → Prop) : CacheInvOn U (fun _ => none) := by
  intro h ph hh; simp at hh

/-- the certificate `verify_certificate` returns is one the provider served -/
theorem served_of_ok_some {U : Cert → Prop} {retr : Nat → Option Cert} (hs : Serves U retr) {c p : Cert}
    (h : verifyCertificate retr c = .ok (some p)) : U p := by
  unfold verifyCertificate at h
  split at h
  · repeat (split at h; · simp at h)
    simp at h
  · split at h
    · simp at h
    · rename_i q hq
      split at h
      · simp at h
      · repeat (split at h; · simp at h)
        simp only [Except.ok.injEq, Option.some.injEq] at h
        subst h
        exact hs _ _ hq

def InU (U : Cert → Prop) : ToVerify → Prop
  | .downloaded c => U c
  | .toDownload _ => True

theorem phase2_sound_on (U : Cert → Prop) (retr : Nat → Option Cert) (cache : Nat → Option Nat) (hs : Serves U retr)
    (hc : CacheInvOn U cache) (hb : BindingOn U) :
    ∀ fuel tv, InU U tv → phase2 retr cache true fuel tv = .ok () → Goal tv := by
  intro fuel
  induction fuel with
  | zero => intro tv _ h; simp [phase2] at h
  | succ fuel ih =>
    intro tv hu h
    simp only [phase2] at h
    split at h
    · rename_i ph hhit
      cases tv with
      | toDownload _ => simp [Goal]
      | downloaded c =>
        simp only at h
        split at h
        · simp at h
        · rename_i hne
          have hok : c.contentHashOk = true := by simpa using hne
          obtain ⟨x, hxu, hx1, hx2, hx3⟩ := hc _ _ hhit
          have : x = c := hb x c hxu hu (by simpa [ToVerify.hash] using hx1) hx2 hok
          simp only [Goal]; rw [← this]; exact hx3
    · cases tv with
      | toDownload _ => simp [Goal]
      | downloaded c =>
        simp only at h
        split at h
        · simp at h
        · rename_i hv
          obtain ⟨a, b, d⟩ := verifyCertificate_ok_none hv
          exact Valid.genesis c a b d
        · rename_i p hv
          obtain ⟨a, b, d, e, f⟩ := verifyCertificate_ok_some hv
          exact Valid.step c p a b d e f (ih (.downloaded p) (served_of_ok_some hs hv) h)

theorem phase1_sound_on (U : Cert → Prop) (retr : Nat → Option Cert) (cache : Nat → Option Nat) (hs : Serves U retr)
    (hc : CacheInvOn U cache) (hb : BindingOn U) (se : Nat) :
    ∀ fuel c, phase1 retr cache true se fuel c = .ok () → Valid LinkSpec c := by
  intro fuel
  induction fuel with
  | zero => intro c h; simp [phase1] at h
  | succ fuel ih =>
    intro c h
    simp only [phase1] at h
    split at h
    · simp at h
    · rename_i hv
      obtain ⟨a, b, d⟩ := verifyCertificate_ok_none hv
      exact Valid.genesis c a b d
    · rename_i p hv
      obtain ⟨a, b, d, e, f⟩ := verifyCertificate_ok_some hv
      split at h
      · exact Valid.step c p a b d e f
          (phase2_sound_on U retr cache hs hc hb fuel (.downloaded p) (served_of_ok_some hs hv) h)
      · exact Valid.step c p a b d e f (ih p h)

/-- **client soundness, non-vacuous form**: the start certificate need not be in `U` -/
theorem client_sound_on (U : Cert → Prop) (retr : Nat → Option Cert) (cache : Nat → Option Nat) (hs : Serves U retr)
    (hc : CacheInvOn U cache) (hb : BindingOn U) (fuel : Nat) (c : Cert)
    (h : clientVerify retr cache true fuel c = .ok ()) : Valid LinkSpec c :=
  phase1_sound_on U retr cache hs hc hb c.epoch fuel c h

theorem phase2_sound_wr_on (U : Cert → Prop) (retr : Nat → Option Cert) (cache : Nat → Option Nat) (hs : Serves U retr)
    (hc : CacheInvOn U cache) (hb : BindingOn U) :
    ∀ fuel tv, InU U tv → phase2 retr cache true fuel tv = .ok () → ∀ w ∈ phase2Wr retr cache fuel tv, JustOn U w := by
  intro fuel
  induction fuel with
  | zero => intro tv _ h; simp [phase2] at h
  | succ fuel ih =>
    intro tv hu h
    simp only [phase2] at h
    simp only [phase2Wr]
    split at h
    · rename_i ph hhit
      simp only [hhit]
      cases tv with
      | toDownload _ => exact ih _ trivial h
      | downloaded c =>
        simp only at h ⊢
        split at h
        · simp at h
        · rename_i hne
          have hok : c.contentHashOk = true := by simpa using hne
          simp only [hok, Bool.not_true, Bool.false_eq_true, if_false]
          exact ih _ trivial h
    · rename_i hmiss
      simp only [hmiss]
      cases tv with
      | toDownload hh =>
        simp only at h ⊢
        split at h
        · simp at h
        · rename_i c hc'
          simp only [hc']
          have hcu : U c := hs _ _ hc'
          split at h
          · simp at h
          · rename_i hv; simp [hv]
          · rename_i p hv
            simp only [hv]
            intro w hw
            obtain ⟨a, b, d, e, f⟩ := verifyCertificate_ok_some hv
            have hpu := served_of_ok_some hs hv
            have hp : Valid LinkSpec p := phase2_sound_on U retr cache hs hc hb fuel (.downloaded p) hpu h
            rcases List.mem_cons.mp hw with rfl | hw
            · exact ⟨c, hcu, rfl, integrity_content b, Valid.step c p a b d e f hp⟩
            · exact ih (.downloaded p) hpu h w hw
      | downloaded c =>
        simp only at h ⊢
        split at h
        · simp at h
        · rename_i hv; simp [hv]
        · rename_i p hv
          simp only [hv]
          intro w hw
          obtain ⟨a, b, d, e, f⟩ := verifyCertificate_ok_some hv
          have hpu := served_of_ok_some hs hv
          have hp : Valid LinkSpec p := phase2_sound_on U retr cache hs hc hb fuel (.downloaded p) hpu h
          rcases List.mem_cons.mp hw with rfl | hw
          · exact ⟨c, hu, rfl, integrity_content b, Valid.step c p a b d e f hp⟩
          · exact ih (.downloaded p) hpu h w hw

theorem phase1_sound_wr_on (U : Cert → Prop) (retr : Nat → Option Cert) (cache : Nat → Option Nat) (hs : Serves U retr)
    (hc : CacheInvOn U cache) (hb : BindingOn U) (se : Nat) :
    ∀ fuel c, U c → phase1 retr cache true se fuel c = .ok () → ∀ w ∈ phase1Wr retr cache se fuel c, JustOn U w := by
  intro fuel
  induction fuel with
  | zero => intro c _ h; simp [phase1] at h
  | succ fuel ih =>
    intro c hu h
    simp only [phase1] at h
    simp only [phase1Wr]
    split at h
    · simp at h
    · rename_i hv; simp [hv]
    · rename_i p hv
      simp only [hv]
      obtain ⟨a, b, d, e, f⟩ := verifyCertificate_ok_some hv
      have hpu := served_of_ok_some hs hv
      intro w hw
      split at h
      · rename_i hne
        have hp : Valid LinkSpec p := phase2_sound_on U retr cache hs hc hb fuel (.downloaded p) hpu h
        rcases List.mem_cons.mp hw with rfl | hw
        · exact ⟨c, hu, rfl, integrity_content b, Valid.step c p a b d e f hp⟩
        · rw [if_pos hne] at hw
          exact phase2_sound_wr_on U retr cache hs hc hb fuel (.downloaded p) hpu h w hw
      · rename_i heq
        have hp : Valid LinkSpec p := phase1_sound_on U retr cache hs hc hb se fuel p h
        rcases List.mem_cons.mp hw with rfl | hw
        · exact ⟨c, hu, rfl, integrity_content b, Valid.step c p a b d e f hp⟩
        · rw [if_neg heq] at hw
          exact ih p hpu h w hw

theorem extend_inv_on {U : Cert → Prop} {cache : Nat → Option Nat} {w : List (Nat × Nat)} (hc : CacheInvOn U cache)
    (hw : ∀ x ∈ w, JustOn U x) : CacheInvOn U (extend cache w) := by
  intro h ph hh
  unfold extend at hh
  split at hh
  · rename_i p hp
    unfold lookupW at hp
    obtain ⟨e, hf, he⟩ := Option.map_eq_some_iff.mp hp
    have hmem := List.mem_of_find?_eq_some hf
    have hkey : e.1 = h := by simpa using List.find?_some hf
    obtain ⟨x, hxu, hx1, hx2, hx3⟩ := hw e hmem
    exact ⟨x, hxu, hx1.trans hkey, hx2, hx3⟩
  · exact hc h ph hh

/-- one call keeps the (relative) cache invariant, and an accepted certificate is validly chained -/
theorem run_inv_on (U : Cert → Prop) (retr : Nat → Option Cert) (cache : Nat → Option Nat) (hs : Serves U retr)
    (hc : CacheInvOn U cache) (hb : BindingOn U) (fuel : Nat) (c : Cert) (hu : U c) :
    CacheInvOn U (run true retr cache fuel c).2 ∧ ((run true retr cache fuel c).1 = .ok () → Valid LinkSpec c) := by
  unfold run
  cases hres : clientVerify retr cache true fuel c with
  | error e =>
    refine ⟨?_, ?_⟩
    · show CacheInvOn U (fun _ => none)
      exact cacheInvOn_empty U
    · intro h; cases h
  | ok u =>
    cases u
    refine ⟨?_, fun _ => client_sound_on U retr cache hs hc hb fuel c hres⟩
    exact extend_inv_on hc (phase1_sound_wr_on U retr cache hs hc hb c.epoch fuel c hu hres)

/-- **session soundness, non-vacuous form**: every provider answer and every start certificate belongs to a world `U` in
which the content hash is binding; then every accepted certificate of every call is validly chained to a genesis
certificate -/
theorem session_sound_on (U : Cert → Prop) (hb : BindingOn U) :
    ∀ (calls : List ((Nat → Option Cert) × Nat × Cert)) (cache : Nat → Option Nat), CacheInvOn U cache →
    (∀ call ∈ calls, Serves U call.1 ∧ U call.2.2) →
    ∀ i (hi : i < calls.length), (session true cache calls).1[i]? = some (.ok ()) → Valid LinkSpec (calls[i]).2.2 := by
  intro calls
  induction calls with
  | nil => intro cache _ _ i hi; simp at hi
  | cons call rest ih =>
    intro cache hc hall i hi hok
    obtain ⟨retr, fuel, c⟩ := call
    obtain ⟨hs, hu⟩ := hall (retr, fuel, c) (by simp)
    obtain ⟨hinv, hval⟩ := run_inv_on U retr cache hs hc hb fuel c hu
    simp only [session] at hok
    cases i with
    | zero =>
      simp only [List.getElem?_cons_zero, Option.some.injEq] at hok
      simpa using hval hok
    | succ j =>
      simp only [List.getElem?_cons_succ] at hok
      simpa using ih _ hinv (fun call hm => hall call (by simp [hm])) j (by simpa using hi) hok

/-! ### non-vacuity: a world in which the hypotheses hold and a call is accepted through the cache -/

def third : Cert := { later with hash := 300, prevHash := 200, epoch := 3 }

/-- the three honest certificates of the examples -/
def U3 : Cert → Prop := fun c => c = gen ∨ c = later ∨ c = third

theorem U3_binding : BindingOn U3 := by
  apply bindingOn_of_injective
  intro a b ha hb hh
  rcases ha with rfl | rfl | rfl <;> rcases hb with rfl | rfl | rfl <;> first | rfl | (revert hh; decide)

theorem U3_serves : Serves U3 retr0 := by
  intro h c hc
  unfold retr0 at hc
  split at hc
  · cases hc; exact Or.inl rfl
  · split at hc
    · cases hc; exact Or.inr (Or.inl rfl)
    · cases hc

#print axioms session_sound_on
#print axioms hashBinding_false
end Chain
