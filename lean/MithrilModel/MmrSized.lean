import MithrilModel.MmrBuild
/-! byte-level form of root injectivity: `merge a b = H (a ++ b)` is injective only on splits of
equal lengths, so the argument goes through the *shape* (same number of equally long leaves). -/
namespace MmrBuild
open ExprTree
variable {α : Type}

def shape (t : E α) : E Unit := emap (fun _ => ()) t

theorem shape_emap {β : Type} (g : α → β) (t : E α) : shape (emap g t) = shape t := by
  induction t with
  | leaf a => rfl
  | node l r ihl ihr => simp only [shape, emap] at *; rw [ihl, ihr]

theorem len_eval_shape (m : α → α → α) (len : α → Nat) (L N : Nat) (hN : ∀ a b, len (m a b) = N) :
    ∀ (t t' : E α), shape t = shape t' → (∀ a ∈ leaves t, len a = L) → (∀ a ∈ leaves t', len a = L) →
      len (eval m t) = len (eval m t') := by
  intro t t' hs h h'
  cases t with
  | leaf a =>
    cases t' with
    | leaf b =>
      have h1 := h a (by simp [leaves])
      have h2 := h' b (by simp [leaves])
      simp only [eval]; rw [h1, h2]
    | node _ _ => simp [shape, emap] at hs
  | node l r =>
    cases t' with
    | leaf b => simp [shape, emap] at hs
    | node l' r' => simp only [eval, hN]

theorem eval_injective_shape (m : α → α → α) (len : α → Nat) (L N : Nat)
    (hN : ∀ a b, len (m a b) = N)
    (hinj : ∀ a b c d, len a = len c → m a b = m c d → a = c ∧ b = d) :
    ∀ (t t' : E α), shape t = shape t' → (∀ a ∈ leaves t, len a = L) → (∀ a ∈ leaves t', len a = L) →
      eval m t = eval m t' → t = t' := by
  intro t
  induction t with
  | leaf a =>
    intro t' hs _ _ h
    cases t' with
    | leaf b => simp [eval] at h; rw [h]
    | node _ _ => simp [shape, emap] at hs
  | node l r ihl ihr =>
    intro t' hs hl hl' h
    cases t' with
    | leaf b => simp [shape, emap] at hs
    | node l' r' =>
      simp only [shape, emap, E.node.injEq] at hs
      have hll : ∀ a ∈ leaves l, len a = L := fun a ha => hl a (by simp [leaves, ha])
      have hlr : ∀ a ∈ leaves r, len a = L := fun a ha => hl a (by simp [leaves, ha])
      have hll' : ∀ a ∈ leaves l', len a = L := fun a ha => hl' a (by simp [leaves, ha])
      have hlr' : ∀ a ∈ leaves r', len a = L := fun a ha => hl' a (by simp [leaves, ha])
      simp only [eval] at h
      obtain ⟨h1, h2⟩ := hinj _ _ _ _ (len_eval_shape m len L N hN l l' hs.1 hll hll') h
      rw [ihl l' hs.1 hll hll' h1, ihr r' hs.2 hlr hlr' h2]

theorem shape_of_length (ls ls' : List α) (hlen : ls.length = ls'.length) (t t' : E α)
    (h : root E.node (ls.map E.leaf) = some t) (h' : root E.node (ls'.map E.leaf) = some t') :
    shape t = shape t' := by
  have e := root_as_index_tree ls
  have e' := root_as_index_tree ls'
  rw [h] at e; rw [h', ← hlen] at e'
  cases hT : root E.node ((List.range ls.length).map E.leaf) with
  | none => rw [hT] at e; simp at e
  | some tn =>
    rw [hT] at e e'
    simp only [Option.map_some, Option.some.injEq] at e e'
    have s1 : shape t = shape tn := by rw [← shape_emap some t, e, shape_emap]
    have s2 : shape t' = shape tn := by rw [← shape_emap some t', e', shape_emap]
    rw [s1, s2]

/-- **byte-level root injectivity for equally many, equally long leaves** (C10, C12): it needs
injectivity of merge only on splits of equal length — what `H (a ++ b)` gives for an injective `H`. -/
theorem root_injective_sized (m : α → α → α) (len : α → Nat) (L N : Nat)
    (hN : ∀ a b, len (m a b) = N)
    (hinj : ∀ a b c d, len a = len c → m a b = m c d → a = c ∧ b = d)
    (ls ls' : List α) (hlen : ls.length = ls'.length)
    (hl : ∀ a ∈ ls, len a = L) (hl' : ∀ a ∈ ls', len a = L)
    (r : α) (h : root m ls = some r) (h' : root m ls' = some r) : ls = ls' := by
  rw [eval_leafmap] at h h'
  cases hT : root E.node (ls.map E.leaf) with
  | none => rw [hT] at h; simp at h
  | some t =>
    cases hT' : root E.node (ls'.map E.leaf) with
    | none => rw [hT'] at h'; simp at h'
    | some t' =>
      rw [hT] at h; rw [hT'] at h'
      simp only [Option.map_some, Option.some.injEq] at h h'
      have hp := root_leaves_perm ls t hT
      have hp' := root_leaves_perm ls' t' hT'
      have : t = t' := eval_injective_shape m len L N hN hinj t t' (shape_of_length ls ls' hlen t t' hT hT')
        (fun a ha => hl a (hp.mem_iff.mp ha)) (fun a ha => hl' a (hp'.mem_iff.mp ha)) (h.trans h'.symm)
      subst this
      exact symbolic_inj ls ls' t hT hT'

/- VACUITY AUDIT: no longer an obligation of the check. assumes injectivity of H : Bytes -> Bytes on ALL byte strings together with 32-byte outputs: unsatisfiable (pigeonhole, Vacuity.C09.hinj_hlen_unsatisfiable) - the statement is vacuous (Vacuity.C12.root_injective_bytes_hyps_unsat). Replaced by: C12.C12_root_injective_bytes (MmrBytes: explicit pair in hashInputs). -/
/-- instantiation: `merge a b = H (a ++ b)` over byte strings with an injective `H` of fixed output length -/
theorem root_injective_bytes (H : List UInt8 → List UInt8) (N L : Nat)
    (hH : ∀ x y, H x = H y → x = y) (hlenH : ∀ x, (H x).length = N)
    (ls ls' : List (List UInt8)) (hlen : ls.length = ls'.length)
    (hl : ∀ a ∈ ls, a.length = L) (hl' : ∀ a ∈ ls', a.length = L)
    (r : List UInt8) (h : root (fun a b => H (a ++ b)) ls = some r) (h' : root (fun a b => H (a ++ b)) ls' = some r) :
    ls = ls' :=
  root_injective_sized (fun a b => H (a ++ b)) List.length L N (fun _ _ => hlenH _)
    (fun _ _ _ _ hac e => List.append_inj (hH _ _ e) hac) ls ls' hlen hl hl' r h h'

#print axioms root_injective_bytes
end MmrBuild
