import MithrilModel.Expr
namespace ExprTree
variable {α : Type} (merge : α → α → α)

/-- **The value of a tree determines the tree**, when merge is injective and leaves are not
merge values. (Root injectivity for every Merkle structure in the repository, relative to the
leaf/node separation hypothesis.) -/
theorem eval_injective
    (hinj : ∀ a b c d, merge a b = merge c d → a = c ∧ b = d) :
    ∀ (t t' : E α), (∀ a ∈ leaves t, ¬ IsMerge merge a) → (∀ a ∈ leaves t', ¬ IsMerge merge a) →
      eval merge t = eval merge t' → t = t' := by
  intro t
  induction t with
  | leaf a =>
    intro t' hT hT' h
    cases t' with
    | leaf b => simp [eval] at h; rw [h]
    | node l r => exact absurd ⟨_, _, by simpa [eval] using h⟩ (hT a (by simp [leaves]))
  | node l r ihl ihr =>
    intro t' hT hT' h
    cases t' with
    | leaf b => exact absurd ⟨_, _, by simpa [eval] using h.symm⟩ (hT' b (by simp [leaves]))
    | node l' r' =>
      simp only [eval] at h
      obtain ⟨h1, h2⟩ := hinj _ _ _ _ h
      rw [ihl l' (fun a ha => hT a (by simp [leaves, ha])) (fun a ha => hT' a (by simp [leaves, ha])) h1,
          ihr r' (fun a ha => hT a (by simp [leaves, ha])) (fun a ha => hT' a (by simp [leaves, ha])) h2]

/-- in particular the leaf sequences agree -/
theorem leaves_eq_of_eval_eq
    (hinj : ∀ a b c d, merge a b = merge c d → a = c ∧ b = d)
    (t t' : E α) (hT : ∀ a ∈ leaves t, ¬ IsMerge merge a) (hT' : ∀ a ∈ leaves t', ¬ IsMerge merge a)
    (h : eval merge t = eval merge t') : leaves t = leaves t' := by
  rw [eval_injective merge hinj t t' hT hT' h]

#print axioms eval_injective
end ExprTree
