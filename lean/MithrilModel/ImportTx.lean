import MithrilModel.ImportRoots
/-!
# C13 layer 1c: the `cardano_tx` table

`cardano_tx (transaction_hash primary key, block_hash references cardano_block on delete cascade)`:
* a batch inserts its transaction rows with `insert or ignore` — a row whose transaction hash is already
  stored is dropped, whatever block it names (`insertTx`);
* deleting blocks (roll-back, pruning) deletes their rows (`cascade`).

A transaction of an abandoned fork is usually INCLUDED AGAIN in another block of the new fork. The new
row survives only because the roll-back removed the old one first. This file proves that, for every
good reply script in which no chain presented by the node carries a transaction twice, the table is
exactly the rows of the stored blocks (`TInv`), so that a re-included transaction is stored under its
new block and the block-range roots computed from the join are those of the stored blocks.
-/
namespace Import

/-- a row of `cardano_tx`: (transaction hash, block hash) -/
abbrev TxRow := Nat × Nat

section
/- `txsOf h`: the transactions carried by the block with hash `h`, in delivery order -/
variable (txsOf : Nat → List Nat)

def rowsOfBlock (b : Block) : List TxRow := (txsOf b.hash).map (fun t => (t, b.hash))
def rowsOf (bs : List Block) : List TxRow := bs.flatMap (rowsOfBlock txsOf)

/-- the transaction hashes carried by a list of blocks -/
def txKeys (bs : List Block) : List Nat := bs.flatMap (fun b => txsOf b.hash)
end

/-- `insert or ignore into cardano_tx`: the primary key is the transaction hash alone -/
def insertTx (T : List TxRow) (r : TxRow) : List TxRow := if T.any (fun x => x.1 = r.1) then T else T ++ [r]
def insertTxs (T : List TxRow) (rs : List TxRow) : List TxRow := rs.foldl insertTx T

/-- `on delete cascade`: the rows whose block is no longer stored are gone -/
def cascade (S : List Block) (T : List TxRow) : List TxRow := T.filter (fun r => S.any (fun b => b.hash = r.2))

/-- the transactions the join `cardano_block ⋈ cardano_tx` gives for one block -/
def txsIn (T : List TxRow) (h : Nat) : List Nat := (T.filter (fun r => r.2 = h)).map (·.1)

section
variable (txsOf : Nat → List Nat)

/-- the table after one store call of the importer -/
def applyOutT (S : List Block) (T : List TxRow) : Option Out → List TxRow
  | none => T
  | some (.forwards bs) => insertTxs T (rowsOf txsOf bs)
  | some (.backward s) => cascade (rollback S s) T

/-- the table holds exactly the rows of the stored blocks, in block order -/
def TInv (S : List Block) (T : List TxRow) : Prop := T = rowsOf txsOf S

/-- no transaction twice on one chain -/
def TxFresh (V : List Block) : Prop := (txKeys txsOf V).Nodup

/-- every chain the node presents during the scan carries no transaction twice (a transaction of a
rolled-back block MAY come back in a later block: the roll-back removed it from the chain first) -/
def GoodTx : List Block → List (Option Ev) → Prop
  | V, [] => TxFresh txsOf V
  | V, none :: rs => GoodTx V rs
  | V, some e :: rs => TxFresh txsOf V ∧ GoodTx (applyEv V e) rs

def txFreshB (V : List Block) : Bool :=
  let rec nodupB : List Nat → Bool
    | [] => true
    | x :: r => !r.contains x && nodupB r
  nodupB (txKeys txsOf V)

def goodTxB : List Block → List (Option Ev) → Bool
  | V, [] => txFreshB txsOf V
  | V, none :: rs => goodTxB V rs
  | V, some e :: rs => txFreshB txsOf V && goodTxB (applyEv V e) rs

theorem nodupB_iff : ∀ (l : List Nat), txFreshB.nodupB l = true ↔ l.Nodup
  | [] => by simp [txFreshB.nodupB]
  | x :: r => by
    simp only [txFreshB.nodupB, Bool.and_eq_true, Bool.not_eq_true', List.nodup_cons, nodupB_iff r]
    constructor
    · rintro ⟨h1, h2⟩; exact ⟨by simpa using h1, h2⟩
    · rintro ⟨h1, h2⟩; exact ⟨by simpa using h1, h2⟩

theorem txFreshB_iff (V : List Block) : txFreshB txsOf V = true ↔ TxFresh txsOf V := by
  unfold txFreshB TxFresh; exact nodupB_iff _

theorem goodTxB_iff : ∀ (rs : List (Option Ev)) (V : List Block), goodTxB txsOf V rs = true ↔ GoodTx txsOf V rs := by
  intro rs
  induction rs with
  | nil => intro V; simp [goodTxB, GoodTx, txFreshB_iff]
  | cons r rs ih =>
    intro V
    cases r with
    | none => simpa [goodTxB, GoodTx] using ih V
    | some e => simp [goodTxB, GoodTx, txFreshB_iff, ih]

/-! ## rows of block lists -/

theorem rowsOf_append (a b : List Block) : rowsOf txsOf (a ++ b) = rowsOf txsOf a ++ rowsOf txsOf b := by
  simp [rowsOf]

theorem map_fst_pair (l : List Nat) (h : Nat) : (l.map (fun t => (t, h))).map (·.1) = l := by
  induction l with
  | nil => rfl
  | cons a r ih => simp only [List.map_cons, ih]

theorem rowsOf_keys (bs : List Block) : (rowsOf txsOf bs).map (·.1) = txKeys txsOf bs := by
  induction bs with
  | nil => rfl
  | cons b r ih =>
    simp only [rowsOf, txKeys, List.flatMap_cons, List.map_append] at ih ⊢
    rw [ih]
    simp only [rowsOfBlock, map_fst_pair]

theorem mem_rowsOf {bs : List Block} {r : TxRow} :
    r ∈ rowsOf txsOf bs ↔ ∃ b ∈ bs, r.2 = b.hash ∧ r.1 ∈ txsOf b.hash := by
  simp only [rowsOf, rowsOfBlock, List.mem_flatMap, List.mem_map]
  constructor
  · rintro ⟨b, hb, t, ht, rfl⟩; exact ⟨b, hb, rfl, ht⟩
  · rintro ⟨b, hb, h2, h1⟩; exact ⟨b, hb, r.1, h1, by rw [← h2]⟩

/-- a sorted chain holds every block hash once -/
theorem sorted_hash_inj {S : List Block} (h : Sorted S) : ∀ a ∈ S, ∀ b ∈ S, a.hash = b.hash → a = b := by
  induction S with
  | nil => simp
  | cons x r ih =>
    have hp := List.pairwise_cons.mp h
    intro a ha b hb hab
    simp only [List.mem_cons] at ha hb
    rcases ha with rfl | ha <;> rcases hb with rfl | hb
    · rfl
    · exact absurd hab (hp.1 b hb).2.2
    · exact absurd hab.symm (hp.1 a ha).2.2
    · exact ih hp.2 a ha b hb hab

/-! ## insert or ignore -/

theorem insertTxs_fresh (T rs : List TxRow) (h : (T.map (·.1) ++ rs.map (·.1)).Nodup) :
    insertTxs T rs = T ++ rs := by
  induction rs generalizing T with
  | nil => simp [insertTxs]
  | cons r rest ih =>
    have hnot : T.any (fun x => x.1 = r.1) = false := by
      simp only [List.any_eq_false, decide_eq_true_eq]
      intro x hx hxr
      have := (List.nodup_append.mp h).2.2 x.1 (List.mem_map.mpr ⟨x, hx, rfl⟩) r.1 (by simp)
      exact this hxr
    have h' : ((T ++ [r]).map (·.1) ++ rest.map (·.1)).Nodup := by
      simpa [List.append_assoc] using h
    have := ih (T ++ [r]) h'
    simp only [insertTxs, List.foldl_cons, insertTx, hnot] at this ⊢
    simpa [insertTxs] using this

/-- a row whose transaction hash is stored is dropped: the stored row stays, whatever block it names -/
theorem insertTx_ignored (T : List TxRow) (r : TxRow) (h : ∃ x ∈ T, x.1 = r.1) : insertTx T r = T := by
  obtain ⟨x, hx, hxr⟩ := h
  have : T.any (fun x => x.1 = r.1) = true := by
    simp only [List.any_eq_true, decide_eq_true_eq]; exact ⟨x, hx, hxr⟩
  simp [insertTx, this]

theorem insertTxs_prefix (T rs : List TxRow) : ∃ ext, insertTxs T rs = T ++ ext := by
  induction rs generalizing T with
  | nil => exact ⟨[], by simp [insertTxs]⟩
  | cons r rest ih =>
    simp only [insertTxs, List.foldl_cons]
    by_cases hc : T.any (fun x => x.1 = r.1)
    · simp only [insertTx, hc, if_true]; exact ih T
    · simp only [insertTx, hc]
      obtain ⟨ext, h⟩ := ih (T ++ [r])
      exact ⟨r :: ext, by simpa [insertTxs] using h⟩

/-! ## the cascade -/

/-- **the cascade**: after the deletion every remaining row names a stored block -/
theorem cascade_no_orphan (S : List Block) (T : List TxRow) :
    ∀ r ∈ cascade S T, ∃ b ∈ S, b.hash = r.2 := by
  intro r hr
  simp only [cascade, List.mem_filter, List.any_eq_true, decide_eq_true_eq] at hr
  exact hr.2

theorem cascade_filter_rows (L S : List Block) (q : Block → Bool)
    (h : ∀ b ∈ S, L.any (fun x => x.hash = b.hash) = q b) :
    cascade L (rowsOf txsOf S) = rowsOf txsOf (S.filter q) := by
  induction S with
  | nil => simp [cascade, rowsOf]
  | cons b r ih =>
    have ih' := ih (fun x hx => h x (by simp [hx]))
    have hb := h b (by simp)
    have hrows : cascade L (rowsOfBlock txsOf b) = if q b then rowsOfBlock txsOf b else [] := by
      unfold cascade
      by_cases hq : q b = true
      · rw [if_pos hq, List.filter_eq_self]
        intro x hx
        simp only [rowsOfBlock, List.mem_map] at hx
        obtain ⟨t, _, rfl⟩ := hx
        simpa [hq] using hb
      · rw [if_neg hq, List.filter_eq_nil_iff]
        intro x hx
        simp only [rowsOfBlock, List.mem_map] at hx
        obtain ⟨t, _, rfl⟩ := hx
        have hq' : q b = false := by simpa using hq
        simp only [hb, hq']
        simp
    have hsplit : cascade L (rowsOf txsOf (b :: r)) = cascade L (rowsOfBlock txsOf b) ++ cascade L (rowsOf txsOf r) := by
      simp [cascade, rowsOf, List.filter_append]
    rw [hsplit, hrows, ih']
    by_cases hq : q b = true
    · simp [hq, rowsOf]
    · simp [hq, rowsOf]

/-- deleting blocks of a chain by a predicate deletes exactly their rows -/
theorem cascade_filter (S : List Block) (p : Block → Bool) (hS : Sorted S) :
    cascade (S.filter p) (rowsOf txsOf S) = rowsOf txsOf (S.filter p) := by
  apply cascade_filter_rows
  intro b hb
  by_cases hp : p b = true
  · rw [hp, List.any_eq_true]
    exact ⟨b, List.mem_filter.mpr ⟨hb, hp⟩, by simp⟩
  · have hp' : p b = false := by simpa using hp
    rw [hp', List.any_eq_false]
    intro x hx
    simp only [decide_eq_true_eq]
    intro hxb
    have hx' := List.mem_filter.mp hx
    have := sorted_hash_inj hS x hx'.1 b hb hxb
    rw [this] at hx'
    exact hp hx'.2

theorem cascade_self (S : List Block) (hS : Sorted S) : cascade S (rowsOf txsOf S) = rowsOf txsOf S := by
  have e : S.filter (fun _ => true) = S := List.filter_eq_self.mpr (by simp)
  have := cascade_filter txsOf S (fun _ => true) hS
  rw [e] at this
  exact this

/-- **roll-back**: on a chain whose table holds the rows of the stored blocks, the table after the
roll-back holds exactly the rows of the blocks that remain -/
theorem tinv_backward (S : List Block) (T : List TxRow) (s : Nat) (hS : Sorted S) (h : TInv txsOf S T) :
    TInv txsOf (rollback S s) (cascade (rollback S s) T) := by
  unfold TInv at h ⊢
  subst h
  unfold rollback
  cases anchor S s with
  | none => exact cascade_self txsOf S hS
  | some n => exact cascade_filter txsOf S _ hS

/-- **the cascade, on blocks**: no row of a block removed by the roll-back remains -/
theorem rollback_removes_transactions (S : List Block) (T : List TxRow) (s : Nat) (hS : Sorted S)
    (b : Block) (hb : b ∈ S) (hgone : b ∉ rollback S s) :
    ∀ r ∈ cascade (rollback S s) T, r.2 ≠ b.hash := by
  intro r hr heq
  obtain ⟨x, hx, hxr⟩ := cascade_no_orphan (rollback S s) T r hr
  have hxS : x ∈ S := by
    unfold rollback at hx
    cases ha : anchor S s with
    | none => rw [ha] at hx; exact hx
    | some n => rw [ha] at hx; exact (List.mem_filter.mp hx).1
  have : x = b := sorted_hash_inj hS x hxS b hb (by rw [hxr, heq])
  rw [this] at hx
  exact hgone hx

/-! ## forwards -/

theorem txFresh_sublist {V W : List Block} (h : List.Sublist W V) (hV : TxFresh txsOf V) : TxFresh txsOf W :=
  List.Nodup.sublist (List.Sublist.flatMap_left h) hV
where
  /-- `flatMap` keeps sublists -/
  List.Sublist.flatMap_left {α β : Type} {f : α → List β} {l₁ l₂ : List α} (h : List.Sublist l₁ l₂) :
      List.Sublist (l₁.flatMap f) (l₂.flatMap f) := by
    induction h with
    | slnil => simp
    | cons a _ ih => simp only [List.flatMap_cons]; exact List.Sublist.trans ih (List.sublist_append_right _ _)
    | cons_cons a _ ih => simp only [List.flatMap_cons]; exact List.Sublist.append (List.Sublist.refl _) ih

/-- **forwards**: a batch that extends the chain with transactions the chain does not carry is stored
row for row -/
theorem tinv_forwards (S bs : List Block) (T : List TxRow) (hF : TxFresh txsOf (S ++ bs)) (h : TInv txsOf S T) :
    TInv txsOf (S ++ bs) (insertTxs T (rowsOf txsOf bs)) := by
  unfold TInv at h ⊢
  subst h
  rw [rowsOf_append]
  apply insertTxs_fresh
  rw [rowsOf_keys, rowsOf_keys]
  unfold TxFresh at hF
  simpa [txKeys, List.flatMap_append] using hF

/-! ## what the join gives -/

/-- under the invariant the join gives, for a stored block, the transactions it carries -/
theorem txsIn_rowsOf (S : List Block) (hS : Sorted S) (b : Block) (hb : b ∈ S) :
    txsIn (rowsOf txsOf S) b.hash = txsOf b.hash := by
  induction S with
  | nil => simp at hb
  | cons x r ih =>
    have hp := List.pairwise_cons.mp hS
    have hx : ∀ (y : Block), txsIn (rowsOfBlock txsOf y) b.hash = if y.hash = b.hash then txsOf y.hash else [] := by
      intro y
      unfold txsIn rowsOfBlock
      by_cases hy : y.hash = b.hash
      · rw [if_pos hy, List.filter_eq_self.mpr (by intro r hr; simp only [List.mem_map] at hr; obtain ⟨t, _, rfl⟩ := hr; simpa using hy)]
        exact map_fst_pair _ _
      · rw [if_neg hy, List.filter_eq_nil_iff.mpr (by intro r hr; simp only [List.mem_map] at hr; obtain ⟨t, _, rfl⟩ := hr; simpa using hy)]
        simp
    have hsplit : txsIn (rowsOf txsOf (x :: r)) b.hash = txsIn (rowsOfBlock txsOf x) b.hash ++ txsIn (rowsOf txsOf r) b.hash := by
      simp [txsIn, rowsOf, List.filter_append]
    rw [hsplit, hx]
    simp only [List.mem_cons] at hb
    rcases hb with rfl | hb
    · -- the block itself; no later block has its hash
      have : txsIn (rowsOf txsOf r) b.hash = [] := by
        unfold txsIn
        rw [List.filter_eq_nil_iff.mpr, List.map_nil]
        intro row hrow
        obtain ⟨y, hy, h2, _⟩ := (mem_rowsOf txsOf).mp hrow
        simp only [decide_eq_true_eq]
        rw [h2]; exact fun e => (hp.1 y hy).2.2 e.symm
      simp [this]
    · have hne : x.hash ≠ b.hash := (hp.1 b hb).2.2
      rw [if_neg hne, List.nil_append]
      exact ih hp.2 hb

/-- in a table whose keys are all different a key names one row -/
theorem key_unique : ∀ (T : List TxRow), (T.map (·.1)).Nodup → ∀ a ∈ T, ∀ b ∈ T, a.1 = b.1 → a = b := by
  intro T
  induction T with
  | nil => simp
  | cons x r ih =>
    intro h a ha b hb hab
    simp only [List.map_cons, List.nodup_cons, List.mem_map, not_exists, not_and] at h
    simp only [List.mem_cons] at ha hb
    rcases ha with rfl | ha <;> rcases hb with rfl | hb
    · rfl
    · exact absurd hab.symm (h.1 b hb)
    · exact absurd hab (h.1 a ha)
    · exact ih h.2 a ha b hb hab

/-- **a re-included transaction is stored under its new block.** The store is a chain whose table
holds the rows of its blocks; the node rolls back to slot `s` and then delivers the batch `bs` that
extends what remains, a chain that carries no transaction twice — but `bs` MAY carry transactions of
the blocks the roll-back removed. Every transaction `t` of a block `b'` of the batch is then stored
under `b'` and under no other block, and the join gives `b'` exactly the transactions it carries. -/
theorem reincluded_under_new_block (S : List Block) (T : List TxRow) (s : Nat) (bs : List Block)
    (hS : Sorted S) (hT : TInv txsOf S T)
    (hs : Sorted (rollback S s ++ bs)) (hF : TxFresh txsOf (rollback S s ++ bs))
    (b' : Block) (hb' : b' ∈ bs) (t : Nat) (ht : t ∈ txsOf b'.hash) :
    (t, b'.hash) ∈ applyOutT txsOf (rollback S s) (applyOutT txsOf S T (some (.backward s))) (some (.forwards bs)) ∧
    (∀ r ∈ applyOutT txsOf (rollback S s) (applyOutT txsOf S T (some (.backward s))) (some (.forwards bs)),
      r.1 = t → r.2 = b'.hash) ∧
    txsIn (applyOutT txsOf (rollback S s) (applyOutT txsOf S T (some (.backward s))) (some (.forwards bs))) b'.hash
      = txsOf b'.hash := by
  have h1 := tinv_backward txsOf S T s hS hT
  have h2 := tinv_forwards txsOf (rollback S s) bs _ hF h1
  simp only [applyOutT]
  unfold TInv at h2
  rw [h2]
  have hmem : b' ∈ rollback S s ++ bs := by simp [hb']
  have hrow : (t, b'.hash) ∈ rowsOf txsOf (rollback S s ++ bs) := (mem_rowsOf txsOf).mpr ⟨b', hmem, rfl, ht⟩
  refine ⟨hrow, ?_, txsIn_rowsOf txsOf _ hs b' hmem⟩
  intro r hr hrt
  have hk : ((rowsOf txsOf (rollback S s ++ bs)).map (·.1)).Nodup := by rw [rowsOf_keys]; exact hF
  have := key_unique _ hk r hr (t, b'.hash) hrow hrt
  rw [this]


/-! ## the scan loop on blocks and transactions -/

/-- `Import.run` with the transaction table -/
def runT (c : Cfg) : Nat → Option Nat → List Block → List TxRow → List (Option Ev) → List Block × List TxRow × List (Option Ev)
  | 0, _, S, T, rs => (S, T, rs)
  | fuel + 1, lp, S, T, rs =>
    match poll c lp [] rs with
    | (none, rest, _) => (S, T, rest)
    | (some out, rest, lp') => runT c fuel lp' (applyOut S (some out)) (applyOutT txsOf S T (some out)) rest

/-- a batch the streamer hands over extends the store as a chain: every block of it is inserted -/
theorem poll_forwards_sorted (c : Cfg) : ∀ (rs : List (Option Ev)) (lp : Option Nat) (buf S V : List Block),
    Inv c S buf V → Good c lp V rs → ∀ bs, (poll c lp buf rs).1 = some (.forwards bs) → Sorted (S ++ bs) := by
  intro rs
  induction rs with
  | nil =>
    intro lp buf S V hI _ bs h
    simp only [poll, flush] at h
    split at h
    · cases h
    · simp only [Option.some.injEq, Out.forwards.injEq] at h; subst h; exact inv_sorted_store hI
  | cons r rs ih =>
    intro lp buf S V hI hG bs h
    have hflush : ∀ {S buf V : List Block}, Inv c S buf V → flush buf = some (.forwards bs) → Sorted (S ++ bs) := by
      intro S buf V hI h
      simp only [flush] at h
      split at h
      · cases h
      · simp only [Option.some.injEq, Out.forwards.injEq] at h; subst h; exact inv_sorted_store hI
    cases r with
    | none => simp only [poll] at h; exact hflush hI h
    | some e =>
      cases e with
      | fwd b =>
        obtain ⟨hgb, hG'⟩ := hG
        simp only [applyEv] at hG'
        by_cases hU : b.number > c.untilN
        · rw [poll_fwd_drop c lp buf b rs hU] at h; exact hflush hI h
        · have hI' := inv_fwd_keep hI hgb hU
          simp only [lpNext, if_neg hU] at hG'
          by_cases hret : (buf ++ [b]).length ≥ c.maxPer ∨ b.number ≥ c.untilN
          · rw [poll_fwd_ret c lp buf b rs hU hret] at h
            simp only [Option.some.injEq, Out.forwards.injEq] at h; subst h
            exact inv_sorted_store hI'
          · rw [poll_fwd_cont c lp buf b rs hU hret] at h
            exact ih (some b.slot) (buf ++ [b]) S (V ++ [b]) hI' hG' bs h
      | back s =>
        obtain ⟨hgb, hG'⟩ := hG
        simp only [applyEv] at hG'
        by_cases hf : s = c.fromSlot ∧ lp = none
        · simp only [GoodEv, if_pos hf] at hgb
          simp only [lpNext, if_pos hf] at hG'
          have hV : V.filter (fun x => x.slot ≤ s) = V := by
            rw [List.filter_eq_self]; intro y hy; simpa using hgb y hy
          rw [hV] at hG'
          rw [poll_back_skip c lp buf s rs hf] at h
          exact ih lp buf S V hI hG' bs h
        · simp only [lpNext, if_neg hf] at hG'
          cases ht : truncAt s buf with
          | some buf' =>
            have hI' := inv_back_trunc hI ht
            rw [poll_back_trunc c lp buf buf' s rs hf ht] at h
            exact ih (some s) buf' S _ hI' hG' bs h
          | none =>
            rw [poll_back_full c lp buf s rs hf ht] at h
            cases h

theorem goodTx_fresh : ∀ (rs : List (Option Ev)) (V : List Block), GoodTx txsOf V rs → TxFresh txsOf V := by
  intro rs
  induction rs with
  | nil => intro V h; exact h
  | cons r rs ih =>
    intro V h
    cases r with
    | none => exact ih V h
    | some e => exact h.1

theorem goodTx_split : ∀ (pre rest : List (Option Ev)) (V : List Block), GoodTx txsOf V (pre ++ rest) →
    GoodTx txsOf (applyAll V pre) rest := by
  intro pre
  induction pre with
  | nil => intro rest V h; exact h
  | cons r pre ih =>
    intro rest V h
    cases r with
    | none => exact ih rest V h
    | some e => exact ih rest _ h.2

/-- one store call keeps the table the rows of the stored blocks -/
theorem tinv_applyOut (c : Cfg) (S V' : List Block) (T : List TxRow) (out : Option Out)
    (hS : Sorted S) (hfw : ∀ bs, out = some (.forwards bs) → Sorted (S ++ bs))
    (hI' : Inv c (applyOut S out) [] V') (hF : TxFresh txsOf V') (h : TInv txsOf S T) :
    TInv txsOf (applyOut S out) (applyOutT txsOf S T out) := by
  cases out with
  | none => simpa [applyOut, applyOutT] using h
  | some o =>
    cases o with
    | forwards bs =>
      have hs := hfw bs rfl
      have he : applyOut S (some (.forwards bs)) = S ++ bs := insertAll_sorted S bs hs
      rw [he] at hI' ⊢
      simp only [applyOutT]
      apply tinv_forwards txsOf S bs T _ h
      have : S ++ bs = V'.filter (fun x => x.number ≤ c.untilN) := by simpa using hI'.2.1
      rw [this]
      exact txFresh_sublist txsOf List.filter_sublist hF
    | backward s =>
      simp only [applyOut, applyOutT]
      exact tinv_backward txsOf S T s hS h

/-- **the loop keeps the table the rows of the stored blocks** — for every good script in which no
chain presented by the node carries a transaction twice; the blocks are those of `Import.run` -/
theorem runT_refines (c : Cfg) : ∀ (fuel : Nat) (lp : Option Nat) (S V : List Block) (T : List TxRow) (rs : List (Option Ev)),
    Inv c S [] V → Good c lp V rs → GoodTx txsOf V rs → TInv txsOf S T →
    (runT txsOf c fuel lp S T rs).1 = (run c fuel lp S rs).1 ∧
    (runT txsOf c fuel lp S T rs).2.2 = (run c fuel lp S rs).2.1 ∧
    TInv txsOf (runT txsOf c fuel lp S T rs).1 (runT txsOf c fuel lp S T rs).2.1 := by
  intro fuel
  induction fuel with
  | zero => intro lp S V T rs _ _ _ hT; exact ⟨rfl, rfl, by simpa [runT] using hT⟩
  | succ fuel ih =>
    intro lp S V T rs hI hG hGT hT
    obtain ⟨pre, h1, _, h3, h4⟩ := poll_refines c rs lp [] S V hI hG
    have hfw := poll_forwards_sorted c rs lp [] S V hI hG
    simp only [runT, run]
    cases hp : poll c lp [] rs with
    | mk out rest' =>
      cases rest' with
      | mk rest lp' =>
        rw [hp] at h1 h3 h4 hfw
        cases out with
        | none => exact ⟨rfl, rfl, hT⟩
        | some o =>
          simp only
          simp only at h1
          have hGT' : GoodTx txsOf (applyAll V pre) rest := by
            rw [h1] at hGT; exact goodTx_split txsOf pre rest V hGT
          have hSs : Sorted S := by have := inv_sorted_store hI; simpa using this
          have hT' := tinv_applyOut txsOf c S (applyAll V pre) T (some o) hSs hfw h3
            (goodTx_fresh txsOf rest _ hGT') hT
          exact ih lp' _ _ _ rest h3 h4 hGT' hT'

/-! ## the roots computed from the join are the roots of the stored blocks -/

section
variable {ρ : Type}

/-- a root function reads the transactions of the blocks it is given, and nothing else -/
def LocalRoot (R : (Nat → List Nat) → List Block → Option ρ) : Prop :=
  ∀ (tx tx' : Nat → List Nat) (bs : List Block), (∀ b ∈ bs, tx b.hash = tx' b.hash) → R tx bs = R tx' bs

/-- under the table invariant the range importer that reads the join `cardano_block ⋈ cardano_tx`
computes what the theorems of `ImportRoots` are about: the roots of the stored blocks with the
transactions they were delivered with -/
theorem rootAt_join (R : (Nat → List Nat) → List Block → Option ρ) (hR : LocalRoot R) (S : List Block) (hS : Sorted S) (k : Nat) :
    rootAt (R (txsIn (rowsOf txsOf S))) S k = rootAt (R txsOf) S k := by
  unfold rootAt
  rw [hR (txsIn (rowsOf txsOf S)) txsOf (blocksOf S k)]
  intro b hb
  exact txsIn_rowsOf txsOf S hS b (List.mem_filter.mp hb).1

theorem rangesRun_join (R : (Nat → List Nat) → List Block → Option ρ) (hR : LocalRoot R) (S : List Block) (hS : Sorted S)
    (roots : List (Nat × ρ)) (upTo : Nat) :
    rangesRun (R (txsIn (rowsOf txsOf S))) S roots upTo = rangesRun (R txsOf) S roots upTo := by
  unfold rangesRun
  simp only
  congr 1
  apply filterMap_congr'
  intro k _
  exact rootAt_join txsOf R hR S hS k

end

/-! ## the cascade is necessary -/

/-- the table WITHOUT the cascade (foreign keys not enforced): the roll-back leaves the rows behind -/
def applyOutTNoCascade (T : List TxRow) : Option Out → List TxRow
  | some (.forwards bs) => insertTxs T (rowsOf txsOf bs)
  | _ => T

end

/-- block 2 (hash 102) carries transaction 7; the node rolls back to block 1 and the new block 2'
(hash 202) carries transaction 7 again. With the cascade the row is `(7, 202)`; without it the stale
row `(7, 102)` shadows the new one and the join with the stored blocks loses the transaction. -/
theorem reinclusion_needs_cascade :
    let txsOf : Nat → List Nat := fun h => if h = 102 ∨ h = 202 then [7] else []
    let S : List Block := [⟨101, 1, 10⟩, ⟨102, 2, 20⟩]
    let T := rowsOf txsOf S
    let S' := rollback S 10
    let bs : List Block := [⟨202, 2, 21⟩]
    let S'' := insertAll S' bs
    txsIn (applyOutT txsOf S' (applyOutT txsOf S T (some (.backward 10))) (some (.forwards bs))) 202 = [7] ∧
    txsIn (applyOutTNoCascade txsOf (applyOutTNoCascade txsOf T (some (.backward 10))) (some (.forwards bs))) 202 = [] ∧
    S'' = [⟨101, 1, 10⟩, ⟨202, 2, 21⟩] := by
  decide

#print axioms runT_refines
#print axioms reinclusion_needs_cascade
end Import
