import MithrilModel.Properties.C03
/-!
# Vacuity audit — C03

`HashBinding` (refutable) was already repaired (`BindingOn U`). Remaining points:
* `CacheInv` (the un-relativised cache invariant) is the opposite defect: it holds for EVERY cache (`cacheInv_always`), so
  as a hypothesis it constrains nothing and as a conclusion (`C03_live_differs_on_revisiting_walk`, first conjunct;
  `C03_client_run_keeps_cache_invariant`) it claims nothing. The relativised `CacheInvOn U` is the meaningful one; the
  witness cache of `live_differs` does satisfy it in a binding world (`wCache_inv_on`).
* joint instances for the theorems that had none.
-/
set_option autoImplicit false
namespace Vacuity.C03
open Chain

/-! ## `CacheInv` is trivially true -/

/-- for every hash there is an abstract genesis record with that hash whose bits are all set: `CacheInv` holds for every
cache whatsoever (poisoned ones included) -/
theorem cacheInv_always (cache : Nat → Option Nat) : CacheInv cache := by
  intro h ph _
  exact ⟨{ gen with hash := h }, rfl, rfl, Valid.genesis _ rfl ⟨rfl, rfl, rfl⟩ rfl⟩

/-- in particular the poisoned cache of `C03_cache_poisoning_counterexample_before_repair` (900 ↦ 500, learnt from a
certificate chained to nothing) "satisfies the cache invariant" -/
example : CacheInv (store (fun _ => none) 900 500) := cacheInv_always _

/-- the meaningful form for the witness of `C03_live_differs_on_revisiting_walk`: in the world of the three certificates
of that example the content hash is binding, the provider serves only them, and the initial cache `500 ↦ 900` is
justified by a certificate OF THAT WORLD (so the example lies inside the hypotheses of the `_on` theorems) -/
def Uw : Cert → Prop := fun c => c = gen ∨ c = honestP ∨ c = wC

theorem Uw_binding : BindingOn Uw := by
  apply bindingOn_of_injective
  intro a b ha hb hh
  rcases ha with rfl | rfl | rfl <;> rcases hb with rfl | rfl | rfl <;> first | rfl | (revert hh; decide)

theorem Uw_serves : Serves Uw wRetr := by
  intro h c hc
  unfold wRetr at hc
  split at hc
  · cases hc; exact Or.inr (Or.inl rfl)
  · split at hc
    · cases hc; exact Or.inl rfl
    · split at hc
      · cases hc; exact Or.inl rfl
      · cases hc

theorem wCache_inv_on : CacheInvOn Uw wCache := by
  intro h ph hh
  unfold wCache at hh
  split at hh
  · rename_i h5
    refine ⟨honestP, Or.inr (Or.inl rfl), h5.symm, rfl, ?_⟩
    exact Valid.step honestP gen rfl ⟨rfl, rfl, rfl⟩ rfl rfl (Or.inl ⟨rfl, rfl, rfl⟩)
      (Valid.genesis gen rfl ⟨rfl, rfl, rfl⟩ rfl)
  · cases hh

/-! ## the hypotheses of the `_on` theorems do not exclude an adversarial provider -/

/-- the world of `C03_cache_counterexample_prefix`: the genuine certificate of hash 500 AND the fake one served under the
same hash (content not hashing to it) are both in the world; binding holds, the provider (which serves the fake parent)
is a provider of that world, the warm cache is justified by the genuine certificate — and the call is rejected -/
def Ua : Cert → Prop := fun c => c = gen ∨ c = honestP ∨ c = fakeParent ∨ c = advC

example :
    BindingOn Ua ∧ Serves Ua retrAdv ∧ CacheInvOn Ua cacheWarm ∧ Ua advC ∧
    honestP.hash = fakeParent.hash ∧ honestP ≠ fakeParent ∧
    clientVerify retrAdv cacheWarm true 10 advC = .error .hash := by
  refine ⟨?_, ?_, ?_, Or.inr (Or.inr (Or.inr rfl)), rfl, by decide, rfl⟩
  · intro a b ha hb hh oa ob
    rcases ha with rfl | rfl | rfl | rfl <;> rcases hb with rfl | rfl | rfl | rfl <;>
      first | rfl | (revert hh; decide) | (revert oa; decide) | (revert ob; decide)
  · intro h c hc
    unfold retrAdv at hc
    split at hc
    · cases hc; exact Or.inr (Or.inr (Or.inl rfl))
    · split at hc
      · cases hc; exact Or.inl rfl
      · cases hc
  · intro h ph hh
    unfold cacheWarm at hh
    split at hh
    · rename_i h5
      refine ⟨honestP, Or.inr (Or.inl rfl), h5.symm, rfl, ?_⟩
      exact Valid.step honestP gen rfl ⟨rfl, rfl, rfl⟩ rfl rfl (Or.inl ⟨rfl, rfl, rfl⟩)
        (Valid.genesis gen rfl ⟨rfl, rfl, rfl⟩ rfl)
    · cases hh

/-! ## joint instances for theorems that had none -/

/-- `C03_finite`: accepted with fuel 5, the chain has 2 ≤ 5 certificates -/
example : verifyChain retr0 5 later = .ok () ∧ C03.ValidD 2 later :=
  ⟨rfl, .step 1 later gen rfl ⟨rfl, rfl, rfl⟩ rfl rfl (Or.inr ⟨rfl, rfl, rfl⟩) (.genesis gen rfl ⟨rfl, rfl, rfl⟩ rfl)⟩

/-- `C03_rejects_nonchained_signers`: the three hypotheses at once (a served parent, a standard certificate, a link the
property does not allow — here: to the following epoch), with a certificate all of whose integrity bits are set, so that
the rejection is due to the link -/
example :
    retr0 earlier.prevHash = some later ∧ earlier.isGenesis = false ∧ ¬ LinkSpec earlier later ∧
    integrityStd earlier = .ok () ∧ verifyCertificate retr0 earlier = .error .missingEpoch := by
  refine ⟨rfl, rfl, ?_, rfl, rfl⟩
  unfold LinkSpec earlier later; simp

/-- … and with an aggregate key the parent does not commit to (the case the name refers to): a valid multi-signature
(`multiSigOk = true`) under key 9, parent committing to key 7 -/
example :
    let c : Cert := { later with avk := 9 }
    retr0 c.prevHash = some gen ∧ c.isGenesis = false ∧ c.multiSigOk = true ∧ ¬ LinkSpec c gen ∧
    verifyCertificate retr0 c = .error .avk := by
  refine ⟨rfl, rfl, rfl, ?_, rfl⟩
  unfold LinkSpec later gen; simp

/-- `C03_self_loop_guard`: both disjuncts of the conclusion -/
example :
    let c : Cert := { later with prevHash := 200 }
    c.isGenesis = false ∧ c.hash = c.prevHash ∧ verifyCertificate retr0 c = .error .loop ∧
    verifyCertificate (fun _ => none) c = .error .notFound := ⟨rfl, rfl, rfl, rfl⟩

/-- `C03_cycle_diverges`: hypotheses (`i = 0 < j = 2`, the same certificate at both positions) -/
example : (0 : Nat) < 2 ∧ (walk retrCyc 3 cycA)[0]? = some cycA ∧ (walk retrCyc 3 cycA)[2]? = some cycA :=
  ⟨by decide, by decide, by decide⟩

/-- `Chain.accepted_walk_nodup_on`: binding world, provider of that world, start certificate in it, accepted, two
certificates walked -/
example : BindingOn U3 ∧ Serves U3 retr0 ∧ U3 third ∧ verifyChain retr0 5 third = .ok () ∧
    (walk retr0 5 third).map (·.hash) = [300, 200, 100] :=
  ⟨U3_binding, U3_serves, Or.inr (Or.inr rfl), rfl, by decide⟩

/-- `C03_complete_of_locally_good` (`verifyChain_of_locally_good`): a store of three certificates over two epoch
boundaries, rank = position in the chain; every hypothesis holds and the conclusion's interesting case (a non-genesis
certificate verified with its whole chain) is reached -/
def stored3 : Cert → Prop := fun c => c = gen ∨ c = later ∨ c = third
def rank3 (c : Cert) : Nat := c.hash / 100

theorem stored3_good : ∀ c, stored3 c → LocallyGood retr0 rank3 c := by
  intro c hc
  rcases hc with rfl | rfl | rfl
  · exact ⟨⟨rfl, rfl, rfl⟩, rfl⟩
  · refine ⟨⟨rfl, rfl, rfl⟩, ?_⟩
    show later.hash ≠ later.prevHash ∧ _
    exact ⟨by decide, rfl, gen, rfl, rfl, by decide, by decide, by decide, rfl, rfl⟩
  · refine ⟨⟨rfl, rfl, rfl⟩, ?_⟩
    show third.hash ≠ third.prevHash ∧ _
    exact ⟨by decide, rfl, later, rfl, rfl, by decide, by decide, by decide, rfl, rfl⟩

theorem stored3_closed : ∀ c p, stored3 c → retr0 c.prevHash = some p → c.isGenesis = false → stored3 p := by
  intro c p hc hp hg
  rcases hc with rfl | rfl | rfl
  · cases hg
  · have : p = gen := by
      have h : retr0 later.prevHash = some gen := rfl
      rw [h] at hp; exact (Option.some.inj hp).symm
    exact Or.inl this
  · have : p = later := by
      have h : retr0 third.prevHash = some later := rfl
      rw [h] at hp; exact (Option.some.inj hp).symm
    exact Or.inr (Or.inl this)

example : verifyChain retr0 4 third = .ok () :=
  C03.C03_complete_of_locally_good retr0 rank3 stored3 stored3_good stored3_closed 4 third (Or.inr (Or.inr rfl))
    (by decide) 4 (Nat.le_refl _)

/-- `Chain.trap` (the lemma behind `C03_live_accept_implies_model_accept`): its three hypotheses at once, with a non-empty
set `T` of visited hashes — the two-entry loop of `live_differs` (cache `900 ↦ 500`, `500 ↦ 900`) -/
example :
    J wRetr (store wCache 900 500) [900, 500] (.toDownload 900) ∧ (ToVerify.toDownload 900).hash ∈ [900, 500] ∧
    Fetched wRetr (.toDownload 900) := by
  refine ⟨?_, by simp [ToVerify.hash], fun c h => by cases h⟩
  intro k hk
  simp only [List.mem_cons, List.not_mem_nil, or_false] at hk
  rcases hk with rfl | rfl
  · refine ⟨fun v hv => ?_, fun hn => ?_⟩
    · have : v = 500 := by simpa [store] using hv.symm
      subst this; simp
    · simp [store] at hn
  · refine ⟨fun v hv => ?_, fun hn => ?_⟩
    · have : v = 900 := by simpa [store, wCache] using hv.symm
      subst this; simp
    · simp [store, wCache] at hn

end Vacuity.C03
