import MithrilModel.Properties.C17
/-!
# Vacuity audit — C17

The hypotheses of C17 are arithmetic side conditions on three numbers; each is met by a concrete triple below (the file's
own example covers `adjStep step ≤ tip - sec` only). Nothing to refute. One remark is made formal: the two margin theorems are
stated with the TRUNCATED subtraction `tip - sec`, so below the security parameter (`tip < sec`) they read `b ≤ 0` and say
nothing about the distance to the tip; the additive form `b + sec ≤ tip` holds exactly when `sec ≤ tip`.
-/
namespace Vacuity.C17
open Beacon

/-! ### `C17_monotone_*` (hypothesis `t1 ≤ t2`): a pair on which the value does move -/
example : (100 : Nat) ≤ 131 ∧ blocks 100 10 30 = 90 ∧ blocks 131 10 30 = 120 ∧ txs 100 10 30 = 89 ∧ txs 131 10 30 = 119 := by decide

/-! ### `C17_step_txs`, `C17_range_boundary`, `C17_whole_steps_txs` (hypotheses `adjStep step ≤ tᵢ - sec`, `t1 ≤ t2`) -/
example : adjStep 30 ≤ 100 - 10 ∧ adjStep 30 ≤ 131 - 10 ∧ (100 : Nat) ≤ 131 ∧ adjStep 30 = 30 ∧
    txs 131 10 30 - txs 100 10 30 = 30 ∧ (txs 131 10 30 + 1) % LEN = 0 := by decide

/-- a step that is not a multiple of the range length: the adjusted step differs from the configured one -/
example : adjStep 40 = 30 ∧ adjStep 40 ≤ 100 - 10 ∧ txs 100 10 40 = 89 ∧ adjStep 7 = 15 ∧ adjStep 0 = 15 := by decide

/-! ### `C17_first_step_note` (hypothesis `tip - sec < adjStep step`) -/
example : 20 - 10 < adjStep 30 ∧ txs 20 10 30 = 0 ∧ 5 - 10 < adjStep 30 ∧ txs 5 10 30 = 0 := by decide

/-! ### `C17_no_overflow`, `C17_entity_txs` (hypothesis `step + 2 * LEN ≤ U64`), `C17_entity_blocks` -/
example : 30 + 2 * LEN ≤ U64 ∧ txsM 100 10 30 = .ok 89 := by decide

example :
    let cfg : Config := { tx := some (10, 30), btx := some (10, 30) }
    let tp : TimePoint := { epoch := 7, immutable := 3, block := 100 }
    cfg.tx = some (10, 30) ∧ entity cfg 2 tp = .ok (.ctx 7 89) ∧ entity cfg 3 tp = .ok (.cbtx 7 90 10) := by decide

/-! ### `C17_epoch0`, `C17_csd_previous` (hypotheses on the epoch) -/
example :
    let cfg : Config := { tx := none, btx := none }
    entity cfg 1 { epoch := 0, immutable := 0, block := 0 } = .err ∧
    (0 < 7 ∧ 7 < 2 ^ 63) ∧ entity cfg 1 { epoch := 7, immutable := 0, block := 0 } = .ok (.csd 6) := by decide

/-! ### the margin, without the truncated subtraction -/

/-- what `C17_margin_*` give when the tip is past the security parameter: the selected block is `sec` behind the tip -/
theorem margin_blocks_additive (tip sec step : Nat) (h : sec ≤ tip) : blocks tip sec step + sec ≤ tip := by
  have := C17.C17_margin_blocks tip sec step; omega

theorem margin_txs_additive (tip sec step : Nat) (h : sec ≤ tip) : txs tip sec step + sec ≤ tip := by
  have := C17.C17_margin_txs tip sec step; omega

/-- … and what they hide below it: block 0 is selected although it is less than `sec` behind the tip
(`BlockNumber - x` saturates in the code as well: the model is faithful, the statement `≤ tip - sec` is weak there) -/
theorem margin_additive_false_below_sec :
    ¬ (∀ tip sec step, blocks tip sec step + sec ≤ tip) ∧ ¬ (∀ tip sec step, txs tip sec step + sec ≤ tip) :=
  ⟨fun h => absurd (h 5 10 30) (by decide), fun h => absurd (h 5 10 30) (by decide)⟩

/-- `C17_whole_steps_blocks` has no hypothesis `t1 ≤ t2`: for `t2 < t1` it is `s ∣ 0` (truncated subtraction) -/
example : blocks 100 10 30 - blocks 131 10 30 = 0 := by decide

end Vacuity.C17
