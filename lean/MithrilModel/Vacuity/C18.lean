import MithrilModel.Properties.C18
/-!
# Vacuity audit — C18

Hypotheses of the theorems of `Properties/C18.lean`: `Bounded s`, `Inv s0` (assumed of the INITIAL state only, then
established for every reachable state), `Reach`, `OpOk` (what callers hand to `give_back_resource`; generation changes
through `newGen`), `StdOp` (the steps `std::sync::Condvar` allows). None quantifies over all records or functions; each is
instantiated below on `Pool.init` / `PoolWake.p0` with states in which the conclusion has work to do (an item checked out
under an older generation, a refused give-back, a blocked thread next to a queued resource). `PoolWake.lean` already has
complete instances for `wake_safe`, `wake_counts`, `queue_empty_until_parked`, `timeout_enabled`, `run_pool_inv`; they are
repeated here only where the wrapper adds a hypothesis. Nothing was refuted.
-/
namespace Vacuity.C18
open Pool

instance : DecidablePred OpOk := fun op => by cases op <;> unfold OpOk <;> infer_instance
instance (s : St) : Decidable (Pool.Inv s) := by unfold Pool.Inv; infer_instance
instance (s : St) : Decidable (Fresh s) := by unfold Fresh; infer_instance
instance (s : St) : Decidable (Bounded s) := by unfold Bounded; infer_instance

/-! ### `C18_bounded` (hypothesis `Bounded s`) -/

/-- a full pool and two refills (one for the right, one for a wrong generation): both refused, the bound is tight -/
example : Bounded init ∧ ([Op.giveBack ⟨0⟩ 0, .giveBack ⟨5⟩ 5].foldl step init).queue.length = 2 ∧ init.size = 2 ∧
    -- … and an accepted one after an acquire
    ([Op.acquire 0, .giveBack ⟨0⟩ 0, .giveBack ⟨0⟩ 0].foldl step init).queue.length = 2 := by decide

/-- the hypothesis is needed (`step` never shrinks an over-full queue) -/
example : ¬ Bounded { init with size := 1 } ∧ ¬ Bounded (step { init with size := 1 } .reset) := by decide

/-! ### `C18_fresh`, `C18_handout_fresh` (hypotheses `Inv s0`, `Reach s0 s`, a hand-out from a non-empty queue) -/

/-- thread 0 acquires under generation 0, the pool is refreshed to generation 1 (two adjacent calls), a resource of
generation 1 is handed back, thread 1 acquires it -/
def sR : St := step (step (step (step init (.acquire 0)) (.setDisc 1)) .clear) (.giveBack ⟨1⟩ 1)

theorem sR_reach : Reach init sR :=
  Reach.api _ _ (Reach.refresh _ 1 (Reach.api _ _ Reach.init trivial) (by decide)) rfl

/-- all hypotheses of `C18_fresh` / `C18_handout_fresh` at `s0 := init`, `s := sR`, `tid := 1`; in `sR` an item of the OLD
generation is checked out (tag 0 = its resource's generation < discriminant 1) and the queue holds a resource of the new one -/
example : Pool.Inv init ∧ Reach init sR ∧ sR.queue ≠ [] ∧ sR.disc = 1 ∧ sR.held = [(0, ⟨⟨0⟩, 0⟩)] ∧
    lookupHeld 1 (step sR (.acquire 1)).held = some ⟨⟨1⟩, 1⟩ :=
  ⟨by decide, sR_reach, by decide, by decide, by decide, by decide⟩

/-! ### `C18_stale_not_readmitted` (hypotheses: the thread holds an item whose tag is not the discriminant) -/

/-- in `sR` thread 0 holds a stale item: neither way of returning it changes the queue … -/
example : lookupHeld 0 sR.held = some ⟨⟨0⟩, 0⟩ ∧ (⟨⟨0⟩, 0⟩ : Item).tag ≠ sR.disc ∧
    (step sR (.giveBackItem 0)).queue = [⟨1⟩] ∧ (step sR (.dropItem 0)).queue = [⟨1⟩] ∧
    -- … whereas an item of the current generation IS re-admitted (the conclusion is not a property of every return)
    (step (step init (.acquire 0)) (.dropItem 0)).queue = [⟨0⟩, ⟨0⟩] ∧ (step init (.acquire 0)).queue = [⟨0⟩] := by decide

/-! ### `C18_fresh_every_interleaving` (hypotheses `Inv s0`, every call `OpOk`) -/

def opsI : List Op :=
  [.acquire 0, .acquire 1, .newGen, .dropItem 0, .giveBack ⟨1⟩ 1, .acquire 2, .newGen, .giveBackItem 1, .giveBackItem 2,
   .giveBack ⟨2⟩ 2, .giveBack ⟨1⟩ 1, .reset, .clear, .giveBack ⟨2⟩ 2, .acquire 3]

/-- two generation changes with items checked out across them; stale returns and a stale refill refused -/
example : Pool.Inv init ∧ (∀ op ∈ opsI, OpOk op) ∧ (opsI.foldl step init).disc = 2 ∧
    (opsI.foldl step init).held = [(3, ⟨⟨2⟩, 2⟩)] ∧ ((opsI.take 11).foldl step init).queue = [⟨2⟩] := by decide

/-- `OpOk` is needed, twice: a refill that lies about its generation, and the two-call refresh with a call in between
(the latter is `C18_tag_race_counterexample`) -/
example : ¬ OpOk (.giveBack ⟨0⟩ 1) ∧ ¬ Fresh ([Op.newGen, .giveBack ⟨0⟩ 1].foldl step init) := by decide

/-! ### the `C18_wake*` wrappers (hypotheses `StdOp`, `parked ≠ []`, `owner = some t`, `t ∈ parked`, `Inv p` + `OpOk`) -/

open PoolWake in
/-- one std run for all of them: two threads find the queue empty and block, a refill wakes thread 2; then a thread
stands between the test and the parking. `C18_wake_counts`: a thread is blocked, one resource queued, one notification
pending. `C18_wake_no_lost_wakeup`: thread 3 owns the mutex, a refill does nothing. `C18_wake_timeout_enabled`. -/
example :
    let ops : List PoolWake.Op := [.call (.acquire 1) 0, .park 1, .call (.acquire 2) 0, .park 2, .call (.giveBack ⟨0⟩ 0) 2]
    let s := run (start { p0 with size := 2 }) ops
    (∀ op ∈ ops, StdOp op) ∧ s.parked = [1] ∧ s.pool.queue = [⟨0⟩] ∧ s.woken = [2] ∧ ¬ Stuck s ∧
    (1 ∈ s.parked ∧ (PoolWake.step s (.timeout 1)).parked = [] ∧ (PoolWake.step s (.timeout 1)).expired = [1]) ∧
    (let ops' : List PoolWake.Op := [.call (.acquire 3) 0]
     (∀ op ∈ ops', StdOp op) ∧ (run (start p0) ops').owner = some 3 ∧ (run (start p0) ops').pool.queue = [] ∧
       stepCall (run (start p0) ops') (.giveBack ⟨0⟩ 0) 0 = run (start p0) ops') := by
  decide

open PoolWake in
/-- `C18_wake_fresh`: `Pool.Inv` of the start pool, every call `OpOk`, a generation change while a thread is blocked -/
example :
    let ops : List PoolWake.Op := [.call (.acquire 1) 0, .call (.acquire 2) 0, .call (.acquire 3) 0, .park 3,
      .call .newGen 0, .call (.dropItem 1) 3, .call (.giveBack ⟨1⟩ 1) 3, .resume 3]
    Pool.Inv Pool.init ∧ ops.all (fun op => match op with | .call pop _ => decide (OpOk pop) | _ => true) = true ∧
    (run (start Pool.init) ops).pool.held.head? = some (3, ⟨⟨1⟩, 1⟩) ∧ (run (start Pool.init) ops).pool.disc = 1 := by
  decide

end Vacuity.C18
