import MithrilModel.Properties.C20
/-!
# Vacuity audit of C20 (`Properties/C20.lean`, `Signer*.lean`, `SignerAgg.lean`)

For every theorem of `Properties/C20.lean` that has hypotheses: a concrete, non-trivial instance that satisfies ALL of
them at once and exercises the interesting branch of the conclusion. The signer side is always the run
`C20.witnessEnv` / `C20.signingEvents` (four epochs, a restart, six publications with two keys, of all three entity kinds
— including `CardanoStakeDistribution(2)`, signed at chain epoch 3, whose `Entity.epoch` differs from its `signEpoch`).

The aggregator side of the `accepted` family is a REACHABLE state of the aggregator model: `A n` is the state after the
first `n` events of `aggEvs` from `Agg.init 3 1`, a run in which the registrations of the signer model's history go
through `Agg.register`, each of the six open messages is created by a tick, receives the signer model's signature
(`sg p`, verdicts computed by `SignerAgg.sigOf`) and the signature of party 1, and is certified by the next tick.
`Agg.SInv` is DERIVED for `A n` (`Agg.run_sinv`, `Agg.sinv_init`, `RunWfC` decided), not assumed.

No hypothesis of a C20 theorem quantifies over all records of a type or over all functions: every universally quantified
hypothesis is relativised (`∀ ev ∈ evs`, `∀ r ∈ runs`). The findings are about conclusions (restated definitions,
decorative quantifiers, a totalised subtraction), see the notes at each item.
-/
namespace Vacuity.C20
open Signer

abbrev env0 : Env := _root_.C20.witnessEnv
abbrev evs0 : List Event := _root_.C20.signingEvents

/-- the registrations the signer model's fake aggregator holds at the end of the history (with keys) -/
abbrev finalReg : List (Nat × Reg) := (run (initState env0) evs0).env.aggReg

def p1 : Pub := ⟨⟨.msd, 3, 0⟩, 0, 3, 3, 0⟩
def p2 : Pub := ⟨⟨.csd, 2, 0⟩, 0, 3, 3, 0⟩
def p3 : Pub := ⟨⟨.cdb, 3, 1⟩, 0, 3, 3, 0⟩
def p4 : Pub := ⟨⟨.msd, 4, 0⟩, 1, 4, 4, 0⟩
def p5 : Pub := ⟨⟨.csd, 3, 0⟩, 1, 4, 4, 0⟩
def p6 : Pub := ⟨⟨.cdb, 4, 1⟩, 1, 4, 4, 0⟩

/-! ## 1. The signer side: every run-side hypothesis at once -/

set_option maxRecDepth 100000 in
/-- `env.aggReg = []`, `env.markFail = 0`, `OthersOnly`, `NoMarkFault`, "no tick reports all lotteries lost" hold for
`witnessEnv` / `signingEvents`; the run publishes six signatures, marks six beacons, stores four registrations, and the
fake aggregator holds a registration of party 0 in each of the four rounds. -/
theorem signer_facts :
    env0.aggReg = [] ∧ env0.markFail = 0 ∧
    (∀ ev ∈ evs0, SignerAgg.OthersOnly ev) ∧ (∀ ev ∈ evs0, NoMarkFault ev) ∧ (∀ ev ∈ evs0, ev ≠ .tick true) ∧
    (run (initState env0) evs0).pubs = [p1, p2, p3, p4, p5, p6] ∧
    (run (initState env0) evs0).st.signed =
      [(3, p1.entity), (3, p2.entity), (3, p3.entity), (4, p4.entity), (4, p5.entity), (4, p6.entity)] ∧
    (run (initState env0) evs0).saved = [⟨2, 0, 1, true⟩, ⟨3, 1, 2, true⟩, ⟨4, 2, 3, true⟩, ⟨5, 3, 4, true⟩] ∧
    finalReg = [(2, ⟨1, 1001⟩), (2, ⟨0, 0⟩), (3, ⟨1, 1001⟩), (3, ⟨0, 1⟩), (4, ⟨2, 1002⟩), (4, ⟨0, 2⟩), (5, ⟨0, 3⟩)] ∧
    SignerAgg.chainVers env0 evs0 = [(1, 0), (2, 0), (3, 1), (4, 1)] ∧
    -- the `Entity.epoch` of the Cardano stake distribution is NOT its signing epoch
    p2.entity.epoch = 2 ∧ p2.entity.signEpoch = 3 ∧ p2.chainEpoch = 3 := by
  decide +kernel

/-- what `NoMarkFault` excludes: exactly the events `setMarkFail n` with `n ≠ 0` — restarts, `setPubFail`, `setDown`,
epoch changes on either side, `regOthers` (also under party id 0), lost lotteries are all allowed -/
theorem noMarkFault_iff (ev : Event) : NoMarkFault ev ↔ ∀ n, ev = .setMarkFail n → n = 0 := by
  cases ev <;> simp [NoMarkFault]

/-- what `OthersOnly` excludes: exactly the events `regOthers rs` in which some registration carries party id 0 -/
theorem othersOnly_iff (ev : Event) : SignerAgg.OthersOnly ev ↔ ∀ rs, ev = .regOthers rs → ∀ r ∈ rs, r.party ≠ 0 := by
  cases ev <;> simp [SignerAgg.OthersOnly]

/-- `C20_once_partial`: hypotheses satisfied, conclusion about six publications -/
example : ((run (initState env0) evs0).pubs.map (·.entity)).Nodup ∧ (run (initState env0) evs0).pubs.length = 6 := by
  obtain ⟨_, h0, _, hev, _, hp, _⟩ := signer_facts
  exact ⟨_root_.C20.C20_once_partial env0 evs0 h0 hev, by rw [hp]; rfl⟩

set_option maxRecDepth 100000 in
/-- `C20_once_partial` with faults that `NoMarkFault` allows between publications: the aggregator down, two failing
publications against a retry policy of two attempts, a restart, a lost lottery — still three publications, and the
failed one is published by the retry, once -/
example :
    let evs := evs0.take 13 ++ [.setPubFail 2, .tick false, .setDown true, .tick false, .setDown false, .restart,
      .tick false, .tick false, .tick false, .tick true, .tick false, .setMarkFail 0]
    (∀ ev ∈ evs, NoMarkFault ev) ∧
    (run (initState env0) evs).pubs.map (·.entity) = [⟨.msd, 3, 0⟩, ⟨.cdb, 3, 1⟩] ∧
    (run (initState env0) evs).st.signed = [(3, ⟨.msd, 3, 0⟩), (3, ⟨.csd, 2, 0⟩), (3, ⟨.cdb, 3, 1⟩)] := by
  decide +kernel

/-- `C20_once_core`: three cycles publish (and mark), one fails to publish; `hm` holds, the log has three entries -/
example :
    let runs : List (List Nat × Bool × Bool) :=
      [([5, 6, 7], true, true), ([5, 6, 7], false, false), ([5, 6, 7], true, true), ([5, 6, 7], false, true), ([5, 6, 7], true, true)]
    (∀ r ∈ runs, r.2.1 = true → r.2.2 = true) ∧
    (runs.foldl (fun s r => SignerOnce.cycle s r.1 r.2.1 r.2.2) { signed := [], log := [] }).log = [5, 6, 7] := by
  decide

/-- `C20_offsets`: the hypothesis holds for `reg = 1`, `E = 3` (and for no other `E`: the statement is the arithmetic
identity `reg + 1 = E − 1 ↔ E = reg + 2` on the three constants; the subtraction is on `Int`, nothing is truncated) -/
example : (((1 + SignerOnce.RECORDING : Nat) : Int) = (3 : Int) + SignerOnce.RETRIEVAL) ∧ 3 = 1 + SignerOnce.SIGNING := by decide

/-- … and the converse holds too -/
theorem offsets_iff (E reg : Nat) :
    ((reg + SignerOnce.RECORDING : Nat) : Int) = (E : Int) + SignerOnce.RETRIEVAL ↔ E = reg + SignerOnce.SIGNING := by
  unfold SignerOnce.RECORDING SignerOnce.RETRIEVAL SignerOnce.SIGNING; omega

/-- `C20_offsets_run` without truncated subtraction: `retrieval p.aggEpoch = p.aggEpoch − 1` is not `0 − 1 = 0`, the
recording epoch of the registration is a genuine predecessor (`q.recEpoch + 1 = p.aggEpoch`), and `2 ≤ p.aggEpoch`
follows from `p.aggEpoch = q.aggEpoch + 2` -/
theorem offsets_run_no_truncation (env : Env) (evs : List Event) :
    ∀ p ∈ (run (initState env) evs).pubs, ∃ q ∈ (run (initState env) evs).saved,
      q.key = p.key ∧ q.recEpoch = q.aggEpoch + 1 ∧ q.recEpoch + 1 = p.aggEpoch ∧ p.aggEpoch = q.aggEpoch + 2 := by
  intro p hp
  have inv := run_reg evs (initState env) (initState_reg env)
  obtain ⟨q, hq, r1, r2, r3⟩ := inv.pubsKey p hp
  exact ⟨q, hq, r1, inv.savedRec q hq, r2, by unfold SIGNING at r3; omega⟩

/-- `C20_offsets_both_sides`, `C20_stake_in_force`, `C20_offsets_both_models`, `C20_offsets_run`: `∀ p ∈ pubs` ranges
over six publications; for the Cardano stake distribution of epoch 2 the registration found is the one of aggregator
epoch 1, recorded under 2 -/
example :
    ∃ q ∈ (run (initState env0) evs0).saved, q.key = p2.key ∧ q.recEpoch = 2 ∧ q.aggEpoch = 1 ∧
      (2 ≤ p2.chainEpoch ∧ (p2.chainEpoch - 2, p2.stakeVer) ∈ SignerAgg.chainVers env0 evs0) := by
  obtain ⟨h0, _, _, _, _, hp, _⟩ := signer_facts
  have hp2 : p2 ∈ (run (initState env0) evs0).pubs := by rw [hp]; simp
  obtain ⟨q, hq, k, r1, r2, r3, _⟩ := _root_.C20.C20_offsets_both_models env0 evs0 h0 p2 hp2
  have e1 : p2.chainEpoch = 3 := rfl
  refine ⟨q, hq, k, ?_, ?_, (_root_.C20.C20_stake_in_force env0 evs0 h0).2 p2 hp2⟩
  · rw [← r3]; rfl
  · unfold SIGNING at r2; omega

set_option maxRecDepth 100000 in
/-- `C20_never_before_registered`: the tick after the first 13 events (resp. 17: the third tick after the restart) does
publish -/
example :
    (step (run (initState env0) (evs0.take 13)) (.tick false)).pubs ≠ (run (initState env0) (evs0.take 13)).pubs ∧
    (run (initState env0) (evs0.take 13)).mach = .ready 3 ∧
    (step (run (initState env0) (evs0.take 17)) (.tick false)).pubs ≠ (run (initState env0) (evs0.take 17)).pubs := by
  decide +kernel

set_option maxRecDepth 100000 in
/-- `C20_restart_no_blind_signature` is not true because nothing ever happens after a restart: the bound "two ticks" is
tight — in `signingEvents` the restart is event 14, events 15 and 16 are the two silent ticks (`Init → Unregistered →
ReadyToSign`), and event 17, the THIRD tick, publishes `CardanoStakeDistribution(2)` -/
example :
    evs0[14]? = some .restart ∧ evs0[15]? = some (.tick false) ∧ evs0[16]? = some (.tick false) ∧ evs0[17]? = some (.tick false) ∧
    (run (initState env0) (evs0.take 15)).mach = .init ∧
    (run (initState env0) (evs0.take 17)).pubs = [p1] ∧ (run (initState env0) (evs0.take 17)).mach = .ready 3 ∧
    (run (initState env0) (evs0.take 18)).pubs = [p1, p2] := by
  decide +kernel

/-- `C20_marked_published_when_won`: `hw` holds and `st.signed` has six rows; the row of the Cardano stake distribution
is matched by a publication made at chain epoch 3 -/
example : ∃ p ∈ (run (initState env0) evs0).pubs, p.entity = ⟨.csd, 2, 0⟩ ∧ p.chainEpoch = 3 := by
  obtain ⟨_, _, _, _, hw, _, hs, _⟩ := signer_facts
  exact _root_.C20.C20_marked_published_when_won env0 evs0 hw 3 ⟨.csd, 2, 0⟩ (by rw [hs]; simp [p2])

/-- `C20_restart`: its first five conjuncts are `rfl` (they restate the `.restart` case of `Signer.step`); the two
implications have satisfiable premises — the state right before the restart of `signingEvents` (one publication made)
satisfies both invariants, and so does the state after it -/
example :
    InvOnce (run (initState env0) (evs0.take 14)) ∧ InvReg (run (initState env0) (evs0.take 14)) ∧
    InvOnce (step (run (initState env0) (evs0.take 14)) .restart) ∧ InvReg (step (run (initState env0) (evs0.take 14)) .restart) := by
  obtain ⟨_, h0, _, hev, _⟩ := signer_facts
  have a := run_once (evs0.take 14) (initState env0) (initState_once env0 h0) (fun ev h => hev ev (List.mem_of_mem_take h))
  have b := run_reg (evs0.take 14) (initState env0) (initState_reg env0)
  obtain ⟨_, _, _, _, _, c, d⟩ := _root_.C20.C20_restart (run (initState env0) (evs0.take 14))
  exact ⟨a, b, c a, d b⟩

set_option maxRecDepth 100000 in
/-- `C20_marked_implies_published` on this history: the log has twelve observations, six `published` each followed by its
`marked`; no `noLottery` — the second disjunct of `Justified` is not what makes the statement hold here -/
example :
    (SignerAgg.runG false (SignerAgg.initG env0) evs0).log.map
        (fun o => match o with | .published p _ => (0, p.entity) | .noLottery _ x => (1, x) | .marked _ x => (2, x)) =
      [(0, p1.entity), (2, p1.entity), (0, p2.entity), (2, p2.entity), (0, p3.entity), (2, p3.entity),
       (0, p4.entity), (2, p4.entity), (0, p5.entity), (2, p5.entity), (0, p6.entity), (2, p6.entity)] := by
  decide +kernel

/-! ## 2. `one_key_per_round`: the premise is inhabited, and `OthersOnly` is needed -/

/-- the aggregator holds a registration of party 0 in round 3 (key 1); the theorem applies to it -/
example : ∀ k, (3, (⟨0, k⟩ : Reg)) ∈ finalReg → k = 1 := by
  obtain ⟨h0, _, hev, _, _, _, _, _, hr, _⟩ := signer_facts
  intro k hk
  exact _root_.C20.C20_one_key_per_round env0 evs0 h0 hev 3 k 1 hk (by show _ ∈ finalReg; rw [hr]; simp)

set_option maxRecDepth 100000 in
/-- without `OthersOnly` the conclusion is false (somebody registers under the signer's party id in the open round, then
the signer registers): the hypothesis is not decoration -/
theorem one_key_needs_othersOnly :
    ¬ ∀ (env : Env) (evs : List Event), env.aggReg = [] → ∀ r k k',
      (r, (⟨0, k⟩ : Reg)) ∈ (run (initState env) evs).env.aggReg →
      (r, (⟨0, k'⟩ : Reg)) ∈ (run (initState env) evs).env.aggReg → k = k' := by
  intro h
  have := h env0 [.regOthers [⟨0, 99⟩], .tick false, .tick false] rfl 2 99 0 (by decide +kernel) (by decide +kernel)
  cases this

/-! ## 3. `accepted`: signEpoch and chain epoch

The hypotheses of `C20_accepted` mention three epochs — `o.epoch = p.entity.signEpoch` (`hoe`), `A.es = some o.epoch`
(`hes`), `retrieval p.chainEpoch` (`hregs`, `hstake`) — while `Agg.sigClass` reads `signersOf A.regs (o.epoch − 1)`.
They are consistent for EVERY publication of every history, because a publication's entity is always one that is signed
in the chain epoch of the publication (for the Cardano stake distribution `Entity.epoch = chainEpoch − 1`, but
`signEpoch = Entity.epoch + 1`). -/

/-- every publication: `signEpoch = chainEpoch = aggEpoch ≥ 2` -/
theorem pubs_signEpoch (env : Env) (evs : List Event) (h0 : env.aggReg = []) (hev : ∀ ev ∈ evs, SignerAgg.OthersOnly ev)
    (p : Pub) (hp : p ∈ (run (initState env) evs).pubs) :
    p.entity.signEpoch = p.chainEpoch ∧ p.aggEpoch = p.chainEpoch ∧ 2 ≤ p.chainEpoch := by
  obtain ⟨_, _, h1, h2, h3, _⟩ := SignerAgg.pub_facts env evs h0 hev p hp
  exact ⟨h2, h1, h3⟩

/-- so under `hoe` the epoch key `Agg.sigClass` reads is the one `hregs` speaks about, without truncation -/
theorem accepted_epochs_agree (env : Env) (evs : List Event) (h0 : env.aggReg = []) (hev : ∀ ev ∈ evs, SignerAgg.OthersOnly ev)
    (p : Pub) (hp : p ∈ (run (initState env) evs).pubs) (o : Agg.OM) (hoe : o.epoch = p.entity.signEpoch) :
    o.epoch - 1 = retrieval p.chainEpoch ∧ o.epoch = retrieval p.chainEpoch + 1 := by
  obtain ⟨h1, _, h3⟩ := pubs_signEpoch env evs h0 hev p hp
  unfold retrieval
  omega

/-! ## 4. The joint run of the two models -/

abbrev aggEnv : Agg.Env := SignerAgg.demoAggEnv
abbrev enc : Entity → Nat := SignerAgg.enc
/-- a concrete `compute_message` -/
abbrev M : Entity → List Reg → Nat → Nat := SignerAgg.demoM

/-- the aggregator's stake table: under `e` what the chain reported in `e − 1` -/
def stake : List (Nat × Nat) := [(2, 0), (3, 0), (4, 1), (5, 1)]

/-- the version the aggregator stores for the NEXT signers of the publication's epoch -/
def nsv (p : Pub) : Nat := (lookup stake (nextRetrieval p.chainEpoch)).getD 0

/-- the aggregator's protocol message for the entity of `p`: from ITS next signer list and ITS stake table -/
def msgOf (p : Pub) : Nat := M p.entity (regsFor finalReg (nextRetrieval p.chainEpoch)) (nsv p)

/-- the signer model's signature for `p` as the aggregator model sees it (verdicts computed from the keys) -/
def sg (p : Pub) : Agg.Sig :=
  SignerAgg.sigOf ⟨finalReg, stake⟩ (regsFor finalReg (retrieval p.chainEpoch)) p (msgOf p) (500 + enc p.entity) [7] false

/-- the open message the aggregator is expected to hold for `p` -/
def om (p : Pub) : Agg.OM :=
  { entity := enc p.entity, epoch := p.entity.signEpoch, msg := msgOf p, certified := false, expired := false, expiresAt := none }

def tp := SignerAgg.demoTp
def honest := SignerAgg.demoHonest
def av3 : List Nat := [30, 21, 1032]
def av4 : List Nat := [40, 31, 1042]

/-- one entity's round on the aggregator: the tick that creates its open message (READY → SIGNING), the signer model's
signature, party 1's signature, the tick that certifies (SIGNING → READY) -/
def round (ep : Nat) (av : List Nat) (p : Pub) : List Agg.Event :=
  [.tick (tp ep av (msgOf p)), .signature (enc p.entity) (sg p), .signature (enc p.entity) (honest 1 ep (msgOf p)),
   .tick (tp ep av (msgOf p))]

/-- genesis in epoch 1 with three fixture signers; the registrations of `signingEvents` in the same order; a certificate
in epoch 2; then the six entities of epochs 3 and 4, one after the other -/
def aggEvs : List Agg.Event :=
  [.tick (tp 1 [] 0), .register 2 1, .register 2 0,
   .tick (tp 2 [20] 7), .tick (tp 2 [20] 7), .register 3 1, .register 3 0,
   .tick (tp 2 [20] 7), .signature 20 (honest 0 2 7), .signature 20 (honest 1 2 7), .tick (tp 2 [20] 7),
   .tick (tp 3 av3 0), .tick (tp 3 av3 0), .register 4 2, .register 4 0] ++
  round 3 av3 p1 ++ round 3 av3 p2 ++ round 3 av3 p3 ++
  [.tick (tp 4 av4 0), .tick (tp 4 av4 0), .register 5 0] ++
  round 4 av4 p4 ++ round 4 av4 p5 ++ round 4 av4 p6

/-- the aggregator model after the first `n` events -/
def A (n : Nat) : Agg.St := (aggEvs.take n).foldl (Agg.step aggEnv) (Agg.init 3 1)

/-- `Agg.RunWfC`, decided -/
def wfB (E : Agg.Env) : Agg.St → List Agg.Event → Bool
  | _, [] => true
  | s, ev :: r =>
    (match ev with
      | .tick t => decide (s.seen ≤ t.epoch) && t.avail.all (fun e => E.entityEpoch e == t.epoch)
      | .crash t _ => decide (s.seen ≤ t.epoch) && t.avail.all (fun e => E.entityEpoch e == t.epoch)
      | _ => true) && wfB E (Agg.step E s ev) r

theorem wfB_sound (E : Agg.Env) : ∀ (evs : List Agg.Event) (s : Agg.St), wfB E s evs = true → Agg.RunWfC E s evs := by
  intro evs
  induction evs with
  | nil => intro s _; trivial
  | cons ev r ih =>
    intro s h
    simp only [wfB, Bool.and_eq_true] at h
    refine ⟨?_, ih _ h.2⟩
    cases ev with
    | tick t =>
      have h1 := h.1
      simp only [Bool.and_eq_true, decide_eq_true_eq, List.all_eq_true, beq_iff_eq] at h1
      exact h1
    | crash t p =>
      have h1 := h.1
      simp only [Bool.and_eq_true, decide_eq_true_eq, List.all_eq_true, beq_iff_eq] at h1
      exact h1
    | _ => trivial

theorem runWfC_take (E : Agg.Env) : ∀ (evs : List Agg.Event) (s : Agg.St) (n : Nat),
    Agg.RunWfC E s evs → Agg.RunWfC E s (evs.take n) := by
  intro evs
  induction evs with
  | nil => intro s n _; simp [Agg.RunWfC]
  | cons ev r ih =>
    intro s n h
    cases n with
    | zero => trivial
    | succ n => exact ⟨h.1, ih _ n h.2⟩

set_option maxRecDepth 100000 in
theorem aggEvs_wf : Agg.RunWfC aggEnv (Agg.init 3 1) aggEvs := wfB_sound _ _ _ (by decide +kernel)

/-- every prefix state is a state of the aggregator model's invariant — derived from reachability, not assumed -/
theorem A_sinv (n : Nat) : Agg.SInv aggEnv (A n) :=
  Agg.run_sinv aggEnv (aggEvs.take n) (Agg.init 3 1) (Agg.sinv_init _ _ _) (runWfC_take _ _ _ n aggEvs_wf)

/-- ALL hypotheses of `C20_accepted`, `C20_accepted_msg`, `C20_accepted_signing` about the aggregator state `A n` and the
publication `p` (the run-side ones are in `signer_facts`; `SInv` is `A_sinv`), in decidable form -/
abbrev Hyps (n : Nat) (p : Pub) : Prop :=
  p ∈ (run (initState env0) evs0).pubs ∧
  (A n).rt = .signing p.chainEpoch (enc p.entity) ∧
  aggEnv.entityEpoch (enc p.entity) = p.entity.signEpoch ∧
  lookup stake (retrieval p.chainEpoch) = some p.stakeVer ∧
  (retrieval p.chainEpoch - 1, p.stakeVer) ∈ SignerAgg.chainVers env0 evs0 ∧
  Agg.signersOf (A n).regs (retrieval p.chainEpoch) = (regsFor finalReg (retrieval p.chainEpoch)).map (·.party) ∧
  Agg.findOm (enc p.entity) (A n).oms = some (om p) ∧
  (A n).es = some p.entity.signEpoch ∧
  lookup stake (nextRetrieval p.chainEpoch) = some (nsv p) ∧
  (nextRetrieval p.chainEpoch - 1, nsv p) ∈ SignerAgg.chainVers env0 evs0

set_option maxRecDepth 100000 in
theorem hyps1 : Hyps 16 p1 := by decide +kernel
set_option maxRecDepth 100000 in
theorem hyps2 : Hyps 20 p2 := by decide +kernel
set_option maxRecDepth 100000 in
theorem hyps3 : Hyps 24 p3 := by decide +kernel
set_option maxRecDepth 100000 in
theorem hyps4 : Hyps 31 p4 := by decide +kernel
set_option maxRecDepth 100000 in
theorem hyps5 : Hyps 35 p5 := by decide +kernel
set_option maxRecDepth 100000 in
theorem hyps6 : Hyps 39 p6 := by decide +kernel

/-- the six publications, each at the prefix of the aggregator's run where its entity is being signed -/
theorem hyps_all : Hyps 16 p1 ∧ Hyps 20 p2 ∧ Hyps 24 p3 ∧ Hyps 31 p4 ∧ Hyps 35 p5 ∧ Hyps 39 p6 :=
  ⟨hyps1, hyps2, hyps3, hyps4, hyps5, hyps6⟩

/-- `C20_accepted` applied: every hypothesis discharged, conclusion in full -/
theorem accepted_inst (n : Nat) (p : Pub) (h : Hyps n p) :
    (∃ w, SignerAgg.Obs.published p w ∈ (SignerAgg.runG false (SignerAgg.initG env0) evs0).log ∧
      w.cur = regsFor finalReg (retrieval p.chainEpoch)) ∧
    Agg.sigClass (A n) (enc p.entity) (sg p) = .registered ∧
    (Agg.registerSig aggEnv (A n) (enc p.entity) (sg p)).sigs.filter (fun r => r.entity = enc p.entity && r.party = 0) =
      [{ entity := enc p.entity, party := 0, sigma := 500 + enc p.entity, idx := [7], signer := 0, msg := msgOf p,
         vEpoch := p.chainEpoch }] := by
  obtain ⟨h0, _, hev, _⟩ := signer_facts
  obtain ⟨hp, _, _, hs1, hs2, hregs, hom, hes, _, _⟩ := h
  exact _root_.C20.C20_accepted env0 evs0 h0 hev p hp stake (msgOf p) (500 + enc p.entity) [7] false aggEnv (A n) enc (om p)
    ⟨p.stakeVer, hs1, hs2⟩ hregs hom rfl rfl rfl rfl hes

/-- `C20_accepted_msg` applied with the concrete message function `SignerAgg.demoM` -/
theorem accepted_msg_inst (n : Nat) (p : Pub) (h : Hyps n p) :
    ∃ w, SignerAgg.Obs.published p w ∈ (SignerAgg.runG false (SignerAgg.initG env0) evs0).log ∧
      M p.entity w.next w.nextStake = msgOf p ∧
      Agg.sigClass (A n) (enc p.entity)
        (SignerAgg.sigOf ⟨finalReg, stake⟩ w.cur p (M p.entity w.next w.nextStake) (500 + enc p.entity) [7] false) = .registered := by
  obtain ⟨h0, _, hev, _⟩ := signer_facts
  obtain ⟨hp, _, _, hs1, hs2, hregs, hom, hes, hn1, hn2⟩ := h
  exact _root_.C20.C20_accepted_msg env0 evs0 h0 hev p hp stake M (500 + enc p.entity) [7] false aggEnv (A n) enc (om p)
    ⟨p.stakeVer, hs1, hs2⟩ hregs hom rfl ⟨nsv p, hn1, hn2, rfl⟩ rfl rfl hes

/-- `C20_accepted_signing` applied: `SInv` comes from `A_sinv` (reachability), the epoch of the open message and of the
epoch service are not given -/
theorem accepted_signing_inst (n : Nat) (p : Pub) (h : Hyps n p) :
    Agg.sigClass (A n) (enc p.entity) (sg p) = .registered := by
  obtain ⟨h0, _, hev, _⟩ := signer_facts
  obtain ⟨hp, hrt, henc, hs1, hs2, hregs, hom, _, _, _⟩ := h
  exact _root_.C20.C20_accepted_signing env0 evs0 h0 hev p hp stake (500 + enc p.entity) [7] false aggEnv (A n) enc (om p)
    p.chainEpoch (A_sinv n) hrt henc ⟨p.stakeVer, hs1, hs2⟩ hregs hom rfl rfl

/-- in particular for `CardanoStakeDistribution(2)` signed at chain epoch 3 (`Entity.epoch ≠ chainEpoch`) and for the
Cardano database of epoch 4 signed with the second key -/
example : Agg.sigClass (A 20) 21 (sg p2) = .registered ∧ Agg.sigClass (A 39) 1042 (sg p6) = .registered :=
  ⟨accepted_signing_inst 20 p2 hyps_all.2.1, accepted_signing_inst 39 p6 hyps_all.2.2.2.2.2⟩

set_option maxRecDepth 100000 in
/-- the joint run, computed: the aggregator model certifies the six entities, each certificate lists the signer
(party 0) among its signers, the registration table of the aggregator model is the party projection of the signer
model's one (after the six fixture rows); and the verdicts discriminate for the Cardano stake distribution too: the
signature made with the key of the NEXT epoch, or claimed with the stake distribution of the next epoch, is `invalid` -/
theorem joint_run :
    (A 42).ses = [(20, 1), (30, 2), (21, 3), (1032, 4), (40, 5), (31, 6), (1042, 7)] ∧
    ((A 42).certs.drop 2).map (·.signers) = [[1, 0], [1, 0], [1, 0], [1, 0], [1, 0], [1, 0]] ∧
    (A 42).regs.drop 6 = SignerAgg.projRegs finalReg ∧
    sg p2 = { party := 0, signer := 0, sigma := 521, msg := msgOf p2, ok := [3], idx := [7], auth := false } ∧
    Agg.sigClass (A 20) 21 (SignerAgg.sigOf ⟨finalReg, stake⟩ (regsFor finalReg 2) { p2 with key := 1 } (msgOf p2) 521 [7] false) = .invalid ∧
    Agg.sigClass (A 20) 21 (SignerAgg.sigOf ⟨finalReg, stake⟩ (regsFor finalReg 3) { p2 with key := 1 } (msgOf p2) 521 [7] false) = .invalid ∧
    Agg.sigClass (A 20) 21 (SignerAgg.sigOf ⟨finalReg, stake⟩ (regsFor finalReg 2) { p2 with stakeVer := 1 } (msgOf p2) 521 [7] false) = .invalid := by
  decide +kernel

/-! ## 5. `registered_only_if` -/

/-- the premise holds for the signature of the joint run; the conclusion's witnesses are forced: `ep = 3`, the open
message is the one of entity 21 -/
example :
    ∃ ep o, (A 20).es = some ep ∧ Agg.findOm 21 (A 20).oms = some o ∧ o.msg = msgOf p2 ∧
      regsFor finalReg (retrieval ep) = regsFor finalReg (retrieval p2.chainEpoch) ∧
      SignerAgg.keyOf finalReg (retrieval ep) 0 = some p2.key ∧
      lookup stake (retrieval ep) = some p2.stakeVer ∧ 0 ∈ Agg.signersOf (A 20).regs (o.epoch - 1) :=
  _root_.C20.C20_registered_only_if ⟨finalReg, stake⟩ _ p2 (msgOf p2) (500 + enc p2.entity) [7] false (A 20) 21
    (accepted_signing_inst 20 p2 hyps_all.2.1)

/-- NOTE (totalised subtraction, unreachable states only): `verifiesAt … ep` reads key `ep − 1`, so at `ep = 0` it reads
key 0 — the same list as `ep = 1` — and a signature built from the list recorded under key 0 is `ok` for BOTH epochs 0
and 1; an `Agg.St` whose epoch service is in epoch 0 registers it, and `C20_registered_only_if` then concludes
`regsFor V.reg (retrieval 0) = R` with `retrieval 0 = 0`. In the code `offset_to_signer_retrieval_epoch` fails on epoch 0.
Harmless for the `accepted` family (`2 ≤ p.chainEpoch`, `pubs_signEpoch`) and for reachable aggregator states
(`es = some ep` only after a genesis epoch `< ep`), but `C20_registered_only_if` is stated for ANY `A`. -/
example :
    let V : SignerAgg.KeyView := ⟨[(0, ⟨0, 5⟩)], [(0, 7)]⟩
    let p : Pub := ⟨⟨.msd, 0, 0⟩, 5, 0, 0, 7⟩
    let A0 : Agg.St := { rt := .idle none, oms := [⟨9, 0, 5, false, false, none⟩], certs := [], sigs := [], cleaned := 0,
                         seen := 0, buf := [], ses := [], regs := [(0, 0)], es := some 0, round := none }
    (SignerAgg.sigOf V [⟨0, 5⟩] p 5 1 [1] false).ok = [0, 1] ∧
    Agg.sigClass A0 9 (SignerAgg.sigOf V [⟨0, 5⟩] p 5 1 [1] false) = .registered := by
  decide

/-- the repaired converse: with `1 ≤ ep` made explicit the retrieval epoch is a genuine predecessor -/
theorem registered_only_if_pos (V : SignerAgg.KeyView) (R : List Reg) (p : Pub) (m sigma : Nat) (idx : List Nat) (auth : Bool)
    (A : Agg.St) (e : Nat) (hpos : ∀ ep, A.es = some ep → 1 ≤ ep)
    (h : Agg.sigClass A e (SignerAgg.sigOf V R p m sigma idx auth) = .registered) :
    ∃ ep o k, A.es = some ep ∧ ep = k + 1 ∧ Agg.findOm e A.oms = some o ∧ o.msg = m ∧
      regsFor V.reg k = R ∧ SignerAgg.keyOf V.reg k 0 = some p.key ∧ lookup V.stake k = some p.stakeVer := by
  obtain ⟨ep, o, h1, h2, h3, h4, h5, h6, _⟩ := _root_.C20.C20_registered_only_if V R p m sigma idx auth A e h
  have := hpos ep h1
  refine ⟨ep, o, ep - 1, h1, by omega, h2, h3, h4, h5, h6⟩

/-! ## 6. `offsets_both_models`: the aggregator-side conjuncts, tied to `Agg.regClass` / `Agg.sigClass`

The last two conjuncts of `C20_offsets_both_models` are `∀ s tp, tp.epoch = q.aggEpoch → (Agg.epochInit s tp).round = some
q.recEpoch` — `rfl` on the definition of `Agg.epochInit` plus conjunct 2 — and `∀ o : Agg.OM, o.epoch = p.chainEpoch →
o.epoch − 1 = q.recEpoch` — conjunct 4 (`retrieval p.chainEpoch = q.recEpoch`) with the number wrapped in a record; the
quantified `o` plays no role and no function of the aggregator model that USES the offsets occurs. Repaired statement: the
decisions of the aggregator model. -/
theorem offsets_both_models_decisions (env : Env) (evs : List Event) (h0 : env.aggReg = []) (p : Pub)
    (hp : p ∈ (run (initState env) evs).pubs) :
    ∃ q ∈ (run (initState env) evs).saved, q.key = p.key ∧ q.recEpoch = q.aggEpoch + 1 ∧ p.chainEpoch = q.recEpoch + 1 ∧
      -- registration: right after its epoch initialisation in epoch `q.aggEpoch` (the epoch the signer had been told),
      -- `Agg.register` stores a party under the key `q.recEpoch` and under no other key
      (∀ (s : Agg.St) (tp : Agg.Tp) (key party : Nat), tp.epoch = q.aggEpoch →
        Agg.regClass (Agg.epochInit s tp) key party = .ok → key = q.recEpoch) ∧
      -- signature: for an open message of the publication's epoch, `Agg.sigClass` registers a signature only if its
      -- party is in the list recorded under that same key
      (∀ (A : Agg.St) (e : Nat) (o : Agg.OM) (g : Agg.Sig), Agg.findOm e A.oms = some o → o.epoch = p.chainEpoch →
        Agg.sigClass A e g = .registered → g.party ∈ Agg.signersOf A.regs q.recEpoch) := by
  obtain ⟨q, hq, r1, r2, r3, r4, _⟩ := _root_.C20.C20_offsets_both_models env evs h0 p hp
  have e2 : q.recEpoch = q.aggEpoch + 1 := r2
  refine ⟨q, hq, r1, e2, by unfold SIGNING at r3; omega, ?_, ?_⟩
  · intro s tp key party htp hc
    unfold Agg.regClass at hc
    have hr : (Agg.epochInit s tp).round = some (tp.epoch + 1) := rfl
    rw [hr] at hc
    simp only at hc
    split at hc
    · cases hc
    · rename_i hk
      have : tp.epoch + 1 = key := by simpa using hk
      omega
  · intro A e o g hom hoe hreg
    obtain ⟨o', hom', _, _, _, hparty⟩ := (Agg.sigClass_registered_iff A e g).mp hreg
    rw [hom] at hom'
    cases hom'
    have : o.epoch - 1 = q.recEpoch := by rw [hoe]; unfold SIGNING at r3; omega
    rw [← this]; exact hparty

end Vacuity.C20
