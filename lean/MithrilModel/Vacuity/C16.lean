import MithrilModel.Properties.C16
import MithrilModel.Vacuity.C14
/-!
# Vacuity audit — C16

Hypotheses of the theorems of `Properties/C16.lean` instantiated on reachable states of the model (`Agg.Ex`, histories from
`init 2 1`) and on the key-level model `Attribution.E0`. The only hypothesis about primitives, `hσ` of
`C16_no_two_labels`, is already relativised to the rows of the table (not to all signature values); it is satisfied
below by a table that DOES contain one signature value twice. Nothing was refuted.
-/
namespace Vacuity.C16
open Agg Vacuity.C14

/-! ### `C16_bound` (an `↔`): both sides occur in a reachable state -/

/-- the state of `hist` before its last event: SIGNING entity 20, parties 0 and 1 registered; party 0's own signature is
recorded, the same value under label 1 is invalid, a signature of an unregistered party hits the foreign key -/
def sSigning : St := (hist.dropLast).foldl (step Ex) (init 2 1)

example : sSigning.rt = .signing 2 20 ∧
    sigClass sSigning 20 (honestSig (rdx 2 [20]) 102 0) = .registered ∧
    sigClass sSigning 20 { honestSig (rdx 2 [20]) 102 0 with party := 1 } = .invalid ∧
    sigClass sSigning 20 { honestSig (rdx 2 [20]) 102 0 with party := 5, signer := 5 } = .storeErr := by
  decide +kernel

/-! ### `C16_bound_keys` (hypothesis `acceptFixed E g = true`) -/

example : Attribution.acceptFixed Attribution.E0 { label := 20, slot := 1, sigma := 200 } = true ∧
    Attribution.vkOf Attribution.E0 20 = some 200 ∧ Attribution.vkAt Attribution.E0 1 = some 200 := by decide

/-! ### `C16_table_inv` (no hypothesis), `C16_no_two_labels` (hypothesis `hσ`) -/

/-- a history with buffered submissions handed over, a relabelled copy (party 0's value under label 1, authenticated or
not) submitted before and after the open message exists, a re-submission that replaces the own row, a cut tick -/
def evsT : List Event :=
  histBuf ++
  [.signature 20 { honestSig (rdx 2 [20]) 102 0 with party := 7, auth := true },   -- buffered under a foreign label
   .tick (tpx 2 [20]),                                                               -- open message, hand-over
   .signature 20 { honestSig (rdx 2 [20]) 102 0 with party := 1 },                  -- relabelled copy: invalid
   .signature 20 { honestSig (rdx 2 [20]) 102 1 with sigma := 99 },                 -- party 1 again: row replaced
   .crash (tpx 2 [20]) .certAfterInsert, .restart, .tick (tpx 2 [20]), .tick (tpx 2 [20]), .tick (tpx 2 [20, 21]),
   .tick (tpx 2 [20, 21]), .signature 21 (honestSig (rdx 2 [21]) 102 0)]

def finalT : St := evsT.foldl (step Ex) (init 2 1)

/-- the table at the end: three rows, one per (entity, party), each under the party whose key produced it; party 0's
value 50 is stored twice (for two entities) — under the same label -/
example : finalT.sigs.map (fun r => (r.entity, r.party, r.signer, r.sigma)) =
      [(20, 0, 0, 50), (20, 1, 1, 99), (21, 0, 0, 50)] ∧
    finalT.buf.map (fun b => (b.sig.party, b.sig.signer)) = [(7, 0)] := by
  decide +kernel

/-- `hσ` holds of that table, and its premise `a.sigma = b.sigma` is inhabited by two DIFFERENT rows -/
example : (∀ a ∈ finalT.sigs, ∀ b ∈ finalT.sigs, a.sigma = b.sigma → a.signer = b.signer) ∧
    (∃ a ∈ finalT.sigs, ∃ b ∈ finalT.sigs, a ≠ b ∧ a.sigma = b.sigma) := by
  decide +kernel

/-- `hσ` is a genuine restriction: a table (not reachable: `C16_table_inv`) on which it fails -/
example : ¬ (∀ a ∈ (storeSig wS 7 wCopy).sigs, ∀ b ∈ (storeSig wS 7 wCopy).sigs, a.sigma = b.sigma → a.party = b.party) := by
  decide

/-! ### `C16_no_disappear`, `C16_other_rows_kept`, `C16_no_disappear_keys` -/

/-- party 0 records its own signature in the witness state: party 1's row (another label) is a row before and after -/
example :
    let r : SigRow := { entity := 7, party := 1, sigma := 11, idx := [4, 9], signer := 1, msg := 3, vEpoch := 2 }
    let g : Sig := { wCopy with signer := 0, sigma := 12 }
    sigClass wS 7 g = .registered ∧ (r.entity ≠ 7 ∨ r.party ≠ g.party) ∧ r ∈ wS.sigs ∧ r ∈ (storeSig wS 7 g).sigs ∧
    (storeSig wS 7 g).sigs.length = 2 := by
  decide

example : ((20, 200) : Nat × Nat).1 ≠ ({ label := 10, slot := 0, sigma := 101 } : Attribution.Sig).label ∧
    (20, 200) ∈ Attribution.store [(10, 100), (20, 200)] { label := 10, slot := 0, sigma := 101 } ∧
    Attribution.store [(10, 100), (20, 200)] { label := 10, slot := 0, sigma := 101 } = [(20, 200), (10, 101)] := by
  decide

/-! ### `C16_metadata_sound` (hypothesis `AttrInv s`, assumed for an arbitrary state; established for runs by `C16_table_inv`) -/

/-- a reachable state with a non-empty signer list -/
example : AttrInv (hist.foldl (step Ex) (init 2 1)) ∧ metadataSigners (hist.foldl (step Ex) (init 2 1)) 20 = [0] ∧
    AttrInv finalT := by
  unfold AttrInv
  decide +kernel

/-- the hypothesis is needed: in the table of the repaired defect the list names party 0, whose key produced no row -/
example : ¬ AttrInv (storeSig wS 7 wCopy) ∧ 0 ∈ metadataSigners (storeSig wS 7 wCopy) 7 ∧
    ¬ ∃ r ∈ (storeSig wS 7 wCopy).sigs, r.entity = 7 ∧ r.party = 0 ∧ r.signer = 0 := by
  unfold AttrInv
  decide

/-! ### `C16_all_entrances` (hypothesis `sigClass s e b.sig = .registered`) -/

example :
    let b : BufSig := { disc := 0, sig := honestSig (rdx 2 [20]) 102 0 }
    sigClass sSigning 20 b.sig = .registered ∧
    (handOverGo sSigning 20 [b] []).1.sigs = (registerSig Ex sSigning 20 b.sig).sigs ∧
    (registerSig Ex sSigning 20 b.sig).sigs.length = 1 := by
  decide +kernel

end Vacuity.C16
