import MithrilModel.Properties.C07
/-!
# Vacuity audit — C07

No refutable hypothesis: `Prim` (six functions) is a universally quantified parameter; the hypotheses are an acceptance, a
membership or a bound. Joint instances below, in a world whose primitives are NOT constant (they depend on the operational
certificate, the key and the signature), so that mis-binding would show.

NOTES (item 3 of the audit):
* `C07_stake_from_distribution` is `rfl`: the model of `register` never reads `claimedStake` / `partyId` (the structure says
  "never read"); that the Rust does not read them either is the correspondence run (K), not this theorem.
* `C07_iff` is an equivalence between the model and a conjunction read off the same model clause by clause; its content is
  the conjunction being the property's list (reviewable) and the model being the code (K).
* `C07_aggregator_store` has no hypothesis; `Justified` speaks about ghost fields (`src`, `sd`) the model writes itself.
-/
set_option autoImplicit false
namespace Vacuity.C07
open Registration

/-- two pools: op-cert `oc` has cold key `oc + 100`, KES key `oc + 200`; pool id = cold key - 100 + 40 when the cold key is
known; a KES signature `sig` verifies for (evolution, KES key, message) iff `sig = evolution + 100 · KES key + 10000 · message`; op-cert 3 is
not signed by its cold key; key 13 has no valid proof of possession -/
def P : Prim :=
  { opcertOk := fun oc => oc != 3
    kesVerify := fun t kvk vk sig => sig == t + 100 * kvk + 10000 * vk
    popVerify := fun vk => vk != 13
    poolIdOf := fun cold => if cold = 101 ∨ cold = 102 ∨ cold = 103 then some (cold - 60) else none
    kesVkOf := fun oc => oc + 200
    coldOf := fun oc => oc + 100 }

/-- the signature of message `vk` under KES key `kvk` at evolution `t` -/
def ksig (t kvk vk : Nat) : Nat := t + 100 * kvk + 10000 * vk

def sd : Nat → Option Nat := fun q => if q = 41 then some 1000 else if q = 42 then some 7 else none

/-- pool 1 (op-cert 1), key 11, KES signature made at evolution 5 -/
def good : Params := { partyId := some 42, opcert := some 1, vk := 11, kesSig := some (ksig 5 201 11), kesEvolutions := some 4, claimedStake := 999999 }

/-- `C07_iff`: left side true (accepted, with the pool and stake of the DISTRIBUTION although the registrant claims pool 42
and stake 999999), and each clause exercised: every single alteration is rejected with its own error -/
example :
    register P sd [12] good = .ok (41, 1000) ∧
    register P sd [12] { good with opcert := none } = .error .opCertMissing ∧
    register P sd [12] { good with opcert := some 3 } = .error .opCertInvalid ∧
    register P sd [12] { good with opcert := some 2 } = .error .kesInvalid ∧            -- the other pool's certificate
    register P sd [12] { good with kesEvolutions := some 7 } = .error .kesInvalid ∧      -- window 6..8
    register P sd [12] { good with kesEvolutions := some 6 } = .ok (41, 1000) ∧          -- window 5..7
    register P sd [12] { good with vk := 12, kesSig := some (ksig 5 201 12) } = .error .alreadyRegistered ∧
    register P sd [12] { good with vk := 13, kesSig := some (ksig 5 201 13) } = .error .keyInvalid ∧
    register P (fun _ => none) [12] good = .error .partyNotInDistribution :=
  ⟨rfl, rfl, rfl, rfl, rfl, rfl, rfl, rfl, rfl⟩

/-- `C07_kes_bound_to_opcert`: both hypotheses; `C07_duplicate_rejected`: its hypothesis, on a registration that is
otherwise acceptable -/
example :
    register P sd [12] good = .ok (41, 1000) ∧ good.opcert = some 1 ∧
    good.vk ∈ [12, 11] ∧ register P sd [12, 11] good = .error .alreadyRegistered :=
  ⟨rfl, rfl, by decide, rfl⟩

/-- `C07_window`: both sides true at the cap (announced 63: evolutions 62, 63 only; signature made at 63), and
`C07_window_empty` / `C07_evolution_cap`: `65 ≤ e` with a signature made at the last evolution 63 -/
example :
    kesWindow P 1 11 (ksig 63 201 11) 63 = true ∧ kesWindow P 1 11 (ksig 64 201 11) 63 = false ∧
    (65 : Nat) ≤ 65 ∧ kesWindow P 1 11 (ksig 63 201 11) 65 = false ∧ kesWindow P 1 11 (ksig 63 201 11) 64 = true := by decide

/-- `C07_aggregator_store`: a history after which the store holds TWO rows of one round (so that the pairwise clauses are
exercised), with a rejected foreign duplicate and a re-registration in between -/
example :
    let h : List RegLeader.Op :=
      [.openRound 5 RegLeader.sd0, .chain (some 0), .reg RegLeader.aGood, .reg RegLeader.aCopy,
       .reg { RegLeader.aGood with vk := 2, pool := some 8 }, .reg { RegLeader.aGood with vk := 3 }]
    (RegLeader.run RegLeader.prod {} h).2 = [.ok 7 10, .duplicateKey, .ok 8 3, .existing 7] ∧
    (RegLeader.run RegLeader.prod {} h).1.rows.map (fun r => (r.epoch, r.pid, r.vk, r.stake, r.evol)) =
      [(5, 7, 3, 10, some 0), (5, 8, 2, 3, some 0)] := by decide +kernel

end Vacuity.C07
