import MithrilModel.Properties.C01
import Mathlib.Data.Fintype.Pigeonhole
import Mathlib.Data.Fintype.Pi
/-!
# Vacuity audit — C01

Joint satisfiability of the hypotheses of every C01 theorem on NON-TRIVIAL oracles, and the one finding:
`C01_membership` (= `C09.C09_stm_sound`) has a conclusion that follows from its hypothesis `hlen` ALONE.
-/
set_option autoImplicit false
namespace Vacuity.C01
open StmVerify

/-! ## a world whose oracles are not constant -/

/-- lottery verdict depends on sigma, index and stake; batch path and aggregate verdicts depend on their arguments -/
def E1 : Env :=
  { m := 6, k := 3
    won := fun sigma i stake => decide ((sigma + i) % 2 = 0 ∧ 0 < stake)
    batchOk := fun l => l.all fun p => p.2 == 10 * (p.1 + 1)
    aggOk := fun l => l.all fun p => p.2 % 2 == p.1 % 2 }

def a0 : Sig := { sigma := 0, idxs := [0, 2], vk := 0, stake := 10 }
def a1 : Sig := { sigma := 1, idxs := [5], vk := 1, stake := 20 }

/-- `C01_structural` / `C01_index_lt_m`: accepted, two signers, three indices; and the same aggregate is REJECTED when an
index is lost, out of `[0, m)`, repeated across signers, when one index is missing, when the path or the aggregate
check fails: every clause of the conclusion is exercised -/
example :
    verifyM E1 1 [a0, a1] = .ok ∧
    verifyM E1 1 [a0, { a1 with idxs := [4] }] = .err .lotteryLost ∧
    verifyM E1 1 [a0, { a1 with idxs := [7] }] = .err .indexBound ∧
    verifyM E1 1 [a0, { a1 with idxs := [6] }] = .err .indexBound ∧
    verifyM E1 1 [a0, { a1 with sigma := 2, idxs := [2] }] = .err .indexNotUnique ∧
    verifyM E1 1 [a0] = .err .notEnough ∧
    verifyM E1 0 [a0, a1] = .err .batchPath ∧
    verifyM E1 1 [a0, { a1 with vk := 2 }] = .err .aggInvalid := by decide

/-- the conclusion of `C01_structural` on that instance is not the trivial one: k = 3 = number of indices -/
example : E1.k = (allIdx [a0, a1]).length := by decide

/-- `C01_batch` / `C01_batch_member_alone`: a batch of two different members is accepted, the member's own aggregate
check holds (hypothesis `hagg`), and the batch is rejected when the second member alone is not acceptable -/
example :
    batchVerify [(E1, 1, [a0, a1]), ({ E1 with k := 2 }, 1, [a0])] true = .ok ∧
    ({ E1 with k := 2 } : Env).aggOk ([a0].map fun s => (s.vk, s.sigma)) = true ∧
    batchVerify [(E1, 1, [a0, a1]), (E1, 1, [a0])] true = .err .notEnough := by decide

/-- `C01_batch_member_alone`, instantiated -/
example : verifyM { E1 with k := 2 } 1 [a0] = .ok :=
  C01.C01_batch_member_alone [(E1, 1, [a0, a1]), ({ E1 with k := 2 }, 1, [a0])] true (by decide)
    ({ E1 with k := 2 }, 1, [a0]) (by simp) (by decide)

/-- NOTE (strength, not vacuity): in `batchVerify` the verdict `final` of the batched pairing check is a free Boolean that
is not related to the members' `aggOk`: a batch whose member FAILS its own aggregate check is accepted by the model when
`final = true`. "Each member would be accepted alone" is therefore proved only for the preliminary part; the hypothesis
`hagg` of `C01_batch_member_alone` is exactly the missing half (random-oracle assumption of the trusted base). -/
theorem batch_accepts_member_failing_alone :
    batchVerify [(E1, 1, [a0, { a1 with vk := 2 }])] true = .ok ∧
    verifyM E1 1 [a0, { a1 with vk := 2 }] = .err .aggInvalid := by decide

/-- `C01_agg_bad_coeff_unique`: hypotheses met in `ℚ` with `δ ≠ 0` (2 + (-1)·2 = 0) -/
example : ((2 : ℚ) ≠ 0) ∧ ((2 : ℚ) + (-1) * 2 = 0) := by norm_num

/-! ## FINDING: the conclusion of `C01_membership` (`C09.C09_stm_sound`) follows from `hlen` alone -/

/-- pigeonhole: a function from byte strings to byte strings of ONE fixed length has a collision -/
theorem collision_of_fixed_length (H : List UInt8 → List UInt8) (n : Nat) (hlen : ∀ x, (H x).length = n) :
    ∃ x y, x ≠ y ∧ H x = H y := by
  let g : Nat → (Fin n → Fin 256) := fun k i =>
    ⟨((H (List.replicate k 0))[i.val]'(by rw [hlen]; exact i.isLt)).toNat, UInt8.toNat_lt _⟩
  obtain ⟨a, b, hab, hg⟩ := Finite.exists_ne_map_eq_of_infinite g
  refine ⟨List.replicate a 0, List.replicate b 0, ?_, ?_⟩
  · intro h
    have := congrArg List.length h
    simp at this
    exact hab this
  · apply List.ext_getElem
    · rw [hlen, hlen]
    · intro i h1 h2
      have hi : i < n := by rw [hlen] at h1; exact h1
      have := congrFun hg ⟨i, hi⟩
      simp only [g, Fin.mk.injEq] at this
      exact UInt8.toNat_inj.mp this

/-- **`C09_stm_sound` without its acceptance hypothesis**: whatever the verifier answered, for ANY leaves, claims, path
values and indices the conclusion of `C01_membership` holds — through its middle disjunct `Collision H`, which `hlen`
(`H` has 32-byte outputs) makes true outright. The theorem says nothing about the verifier. -/
theorem C01_membership_conclusion_needs_no_acceptance (H : StmBatch.Bytes → StmBatch.Bytes) (hlen : ∀ x, (H x).length = 32)
    (leaves claims values : List StmBatch.Bytes) (indices : List Nat) :
    (∀ p ∈ indices.zip claims, leaves[p.1]? = some p.2) ∨ C09.Collision H ∨ (∃ v ∈ values, v.length ≠ 32) :=
  Or.inr (Or.inl (collision_of_fixed_length H 32 hlen))

/-- … concretely: a claim that is NOT the committed leaf, a verifier that need not have accepted anything -/
example (H : StmBatch.Bytes → StmBatch.Bytes) (hlen : ∀ x, (H x).length = 32) :
    ¬ (∀ p ∈ [0].zip [List.replicate 104 (1 : UInt8)], [List.replicate 104 (0 : UInt8)][p.1]? = some p.2) ∧
    ((∀ p ∈ [0].zip [List.replicate 104 (1 : UInt8)], [List.replicate 104 (0 : UInt8)][p.1]? = some p.2) ∨
      C09.Collision H ∨ (∃ v ∈ ([] : List StmBatch.Bytes), v.length ≠ 32)) := by
  refine ⟨by decide, C01_membership_conclusion_needs_no_acceptance H hlen _ _ _ _⟩

/-- `C01_lottery_true_correct` (`C08.C08_true_correct`): hypotheses met, 3/2 < e^(1/2) -/
example : (0 : Rat) ≤ 1 / 2 ∧ Lottery.taylor 1000 (3 / 2) (1 / 2) = true := by decide +kernel

end Vacuity.C01
