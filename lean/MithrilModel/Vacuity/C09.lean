import Mathlib.Data.Fintype.Vector
import Mathlib.Data.Fintype.EquivFin
import MithrilModel.Properties.C09
import MithrilModel.Handlers.C09
import MithrilModel.MmrBytes
import MithrilModel.MapLink
/-!
# Vacuity audit of C09 (`Properties/C09.lean`, `StmBatch`, `StmRootInj`, `MmrSound`, `MkProof`, `Nested`, `MapLink`)

## Findings

* **F1 (refuted hypothesis pair).** `hinj : ∀ x y, H x = H y → x = y` together with
  `hlen : ∀ x, (H x).length = 32` for `H : Bytes → Bytes` is UNSATISFIABLE (`hinj_hlen_unsatisfiable`, pigeon
  hole: infinitely many byte strings, `256^32` outputs). Vacuous: `StmBatch.split_node`, `level_sound`,
  `run_sound`, `batch_sound`, `StmBatch.sub_inj`, `root_inj`, **`C09.C09_stm_root_injective`**,
  `MmrBuild.root_injective_bytes` (C10/C12 byte level).
* **F2 (trivially true conclusion).** `C09.C09_stm_sound` avoids assuming `hinj` by returning the disjunct
  `Collision H`; but `Collision H` follows from `hlen` ALONE (`collision_of_fixed_length`), so the conclusion
  of `C09_stm_sound` holds for every `H` with 32-byte outputs without looking at the verifier
  (`C09_stm_sound_says_nothing`: same conclusion, hypothesis `h` dropped).
* **F3 (hypothesis refuted for the code's instance).** The value-level theorems (`C09_mkproof_sound`,
  `C09_map_sound`, `C09_map_exec_sound`, and C10_root_binding / C11_set_committed / C11_range_root_faithful /
  C12_root_injective) assume `hinj : ∀ a b c d, merge a b = merge c d → a = c ∧ b = d`. It is satisfiable
  (`pairM_inj` below: first proof that any instance satisfies it) but REFUTED for every `merge a b = H (a ++ b)`,
  in particular for the driver's `Handlers.C09.mergeS` (`concat_merge_not_injective`, `mergeS_not_injective`):
  these theorems say nothing about the function the harness compares with the real code.

## Repair (proved here)

`C09_stm_sound_witness` / `C09_stm_root_injective_witness`: the collision disjunct NAMES the pair: `y` out of
the finite log of the committed tree's computation (`treeLog`: the padding pre-image `[0]`, the leaf
pre-images, the 64-byte node pre-images), `x` out of the finite log of the verifier's run (`verifierLog`: the
claimed leaves and the concatenations hashed by the level loop, `levelLog_faithful`), resp. of the other
tree's computation. Internally the hypothesis is `NoCollisionBetween H U X` (injectivity relativised to the
two logs). `sat_witness` exhibits a concrete `H`, tree and ACCEPTED batch proof for which every hypothesis
holds and the collision disjunct is false.

`C09_mkproof_sound_witness(_sized)`, `C09_map_exec_sound_witness(_sized)` (second half of this file): C09(b),(c)
at BYTE level for `merge a b = H (a ++ b)` with NO hypothesis on `H`: what an accepted (nested) proof contains
is the value of a sub-tree of the committed tree — a committed leaf when its length is not the hash length —
or one of three NAMED coincidences between the verifier's log (`proofLog`, `InMapLog`; `proofLog_faithful`)
and the tree's log (`tlog`): two different hashed strings with one hash, a committed leaf that is a computed
hash, one concatenation split at two points (the known finding "concat split"). `sat_mkproof_witness`,
`sat_map_witness`: accepted byte-level proofs for which all of them are false.
-/
namespace Vacuity.C09
open StmBatch StmTree _root_.C09

/-! ## F1, F2: the pigeon hole -/

instance : Finite UInt8 := Finite.of_injective (fun x : UInt8 => x.toFin) (fun _ _ h => UInt8.toFin_inj.mp h)

/-- no function from byte strings to byte strings of one fixed length is injective -/
theorem pigeonhole (H : Bytes → Bytes) (N : Nat) (hlen : ∀ x, (H x).length = N) :
    ¬ (∀ x y, H x = H y → x = y) := by
  intro hinj
  let f : List UInt8 → List.Vector UInt8 N := fun x => ⟨H x, hlen x⟩
  have hf : Function.Injective f := fun a b h => hinj a b (congrArg Subtype.val h)
  have : Finite (List UInt8) := Finite.of_injective f hf
  exact not_finite (List UInt8)

/-- **F1** the two hash hypotheses of `batch_sound`, `root_inj`, `C09_stm_root_injective`,
`MmrBuild.root_injective_bytes` are jointly unsatisfiable -/
theorem hinj_hlen_unsatisfiable :
    ¬ ∃ H : Bytes → Bytes, (∀ x y, H x = H y → x = y) ∧ (∀ x, (H x).length = 32) :=
  fun ⟨H, hinj, hlen⟩ => pigeonhole H 32 hlen hinj

/-- `Collision H` is a consequence of the output-length hypothesis -/
theorem collision_of_fixed_length (H : Bytes → Bytes) (N : Nat) (hlen : ∀ x, (H x).length = N) : Collision H :=
  not_inj_collision H (pigeonhole H N hlen)

/-- **F2** the conclusion of `C09_stm_sound` without its acceptance hypothesis (and for ANY root and leaf
number): the theorem does not constrain the verifier -/
theorem C09_stm_sound_says_nothing (H : Bytes → Bytes) (hlen : ∀ x, (H x).length = 32)
    (leaves claims values : List Bytes) (indices : List Nat) :
    (∀ p ∈ indices.zip claims, leaves[p.1]? = some p.2) ∨ Collision H ∨ (∃ v ∈ values, v.length ≠ 32) :=
  Or.inr (Or.inl (collision_of_fixed_length H 32 hlen))

/-! ## F3: `hinj` of the value-level theorems -/

/-- `merge a b = H (a ++ b)` is not injective in the pair, for any `H` -/
theorem concat_merge_not_injective (H : Bytes → Bytes) :
    ¬ ∀ a b c d : Bytes, H (a ++ b) = H (c ++ d) → a = c ∧ b = d := by
  intro h
  have := (h [1, 2] [3] [1] [2, 3] rfl).1
  revert this; decide

/-- … in particular not for the function the driver runs (and the harness compares with `MKProof::verify`) -/
theorem mergeS_not_injective :
    ¬ ∀ a b c d, Handlers.C09.mergeS a b = Handlers.C09.mergeS c d → a = c ∧ b = d :=
  concat_merge_not_injective Blake2.blake2s256L

def tri (s : Nat) : Nat := s * (s + 1) / 2

theorem tri_succ (s : Nat) : tri (s + 1) = tri s + s + 1 := by
  unfold tri
  have : (s + 1) * (s + 1 + 1) = s * (s + 1) + 2 * (s + 1) := by
    simp only [Nat.mul_add, Nat.add_mul]; omega
  rw [this, Nat.add_mul_div_left _ _ (by decide : 0 < 2)]
  omega

theorem tri_lt {s s' : Nat} (h : s < s') : tri s + s + 1 ≤ tri s' := by
  induction s' with
  | zero => omega
  | succ n ih =>
    by_cases hn : s = n
    · subst hn; rw [tri_succ]
    · have := ih (by omega); rw [tri_succ]; omega

theorem pairM_eq (a b : Nat) : pairM a b = tri (a + b) + b + 1000 := rfl

/-- the witness merge of the C09–C11 examples IS injective: `hinj` is satisfiable -/
theorem pairM_inj (a b c d : Nat) (h : pairM a b = pairM c d) : a = c ∧ b = d := by
  rw [pairM_eq, pairM_eq] at h
  rcases Nat.lt_trichotomy (a + b) (c + d) with hlt | heq | hgt
  · have := tri_lt hlt; omega
  · rw [heq] at h; omega
  · have := tri_lt hgt; omega

theorem small_not_merge {x : Nat} (h : x < 1000) : ¬ ExprTree.IsMerge pairM x := by
  rintro ⟨a, b, e⟩
  rw [pairM_eq] at e; omega

open ExprTree in
/-- the committed tree of `C09.honestP`: five leaves, peaks bagged right to left -/
def honestT : E Nat := .node (.leaf 5) (.node (.node (.leaf 1) (.leaf 2)) (.node (.leaf 3) (.leaf 4)))

theorem honestT_leaves : ∀ a ∈ ExprTree.leaves honestT, ¬ ExprTree.IsMerge pairM a := by
  intro a ha
  have : a < 1000 := by
    simp only [honestT, ExprTree.leaves, List.cons_append, List.nil_append, List.mem_cons, List.mem_nil_iff,
      or_false] at ha
    omega
  exact small_not_merge this

/-- **`C09_mkproof_sound`: all hypotheses at once**, accepted proof, contained non-merge value -/
example : (∀ a b c d, pairM a b = pairM c d → a = c ∧ b = d) ∧
    (∀ a ∈ ExprTree.leaves honestT, ¬ ExprTree.IsMerge pairM a) ∧
    honestP.root = ExprTree.eval pairM honestT ∧ MkProof.verify pairM honestP = true ∧
    MkProof.contains honestP [2] = true ∧ ¬ ExprTree.IsMerge pairM 2 ∧ 2 ∈ ExprTree.leaves honestT :=
  ⟨pairM_inj, honestT_leaves, by decide +kernel, by decide +kernel, by decide +kernel,
    small_not_merge (by decide), by decide⟩

/-! a nested proof: master tree over `merge 1 r1`, `merge 2 r2`; sub-tree 1 has the leaves 10, 11 -/
def r1 : Nat := pairM 10 11
def r2 : Nat := pairM 20 21
def subP : MkProof.Proof Nat := { root := r1, leaves := [(0, 10)], size := 3, items := [11] }
def masterP : MkProof.Proof Nat :=
  { root := pairM (pairM 1 r1) (pairM 2 r2), leaves := [(0, pairM 1 r1)], size := 3, items := [pairM 2 r2] }
def mapP : MkProof.MapProof Nat := .mk masterP [(1, .mk subP [])]

open ExprTree in
/-- the single expression tree the master root commits to (keys and sub-trees) -/
def mapT : E Nat :=
  .node (.node (.leaf 1) (.node (.leaf 10) (.leaf 11))) (.node (.leaf 2) (.node (.leaf 20) (.leaf 21)))

theorem mapT_leaves : ∀ a ∈ ExprTree.leaves mapT, ¬ ExprTree.IsMerge pairM a := by
  intro a ha
  have : a < 1000 := by
    simp only [mapT, ExprTree.leaves, List.cons_append, List.nil_append, List.mem_cons, List.mem_nil_iff,
      or_false] at ha
    omega
  exact small_not_merge this

/-- **`C09_map_exec_sound`: all hypotheses at once**, with a NON-EMPTY list of sub-proofs, the contained value
found in the sub-proof -/
example : (∀ a b c d, pairM a b = pairM c d → a = c ∧ b = d) ∧
    mapP.verify pairM = true ∧ mapP.contains 10 = true ∧ MkProof.contains mapP.master [10] = false ∧
    mapP.master.root = ExprTree.eval pairM mapT ∧ (∀ a ∈ ExprTree.leaves mapT, ¬ ExprTree.IsMerge pairM a) ∧
    ¬ ExprTree.IsMerge pairM 10 ∧ 10 ∈ ExprTree.leaves mapT :=
  ⟨pairM_inj, by decide +kernel, by decide +kernel, by decide +kernel, by decide +kernel, mapT_leaves,
    small_not_merge (by decide), by decide⟩

/-- **`C09_map_sound`** (inductive `NProof` form): the same instance through `MapLink.toN` -/
example : ExprTree.Verified pairM (MapLink.toN mapP) ∧ ExprTree.Contains (MapLink.toN mapP) 10 ∧
    (MapLink.toN mapP).root = ExprTree.eval pairM mapT :=
  ⟨MapLink.verify_verified pairM mapP (by decide +kernel), MapLink.contains_contains mapP 10 (by decide +kernel),
    by rw [MapLink.toN_root]; decide +kernel⟩

/-! ## repair of C09(a): an explicit witness pair drawn from the two computations' hash inputs -/

/-- the (height, position) pairs of the committed tree of height `hTop`, from the root down -/
inductive InTree (hTop : Nat) : Nat → Nat → Prop where
  | root : InTree hTop hTop 0
  | left {h p : Nat} : InTree hTop (h + 1) p → InTree hTop h (2 * p + 1)
  | right {h p : Nat} : InTree hTop (h + 1) p → InTree hTop h (2 * p + 2)

theorem InTree.bound {hTop h p : Nat} (t : InTree hTop h p) : h ≤ hTop ∧ (h = hTop → p = 0) := by
  induction t with
  | root => exact ⟨Nat.le_refl _, fun _ => rfl⟩
  | left _ ih => exact ⟨by omega, fun e => by omega⟩
  | right _ ih => exact ⟨by omega, fun e => by omega⟩

/-- **the log of the committed tree's computation**: the byte strings given to `H` while `sub … h p` is
evaluated — leaf pre-images at height 0, the concatenated children at every inner position -/
def nodeLog (H : Bytes → Bytes) (leaves : List Bytes) (Z : Bytes) (off : Nat) : Nat → Nat → List Bytes
  | 0, p => match leaves[p - off]? with
    | some x => [x]
    | none => []
  | h + 1, p => (sub H leaves Z off h (2 * p + 1) ++ sub H leaves Z off h (2 * p + 2)) ::
      (nodeLog H leaves Z off h (2 * p + 1) ++ nodeLog H leaves Z off h (2 * p + 2))

/-- … of the whole tree: the padding pre-image `[0]` and the log of the root -/
def treeLog (H : Bytes → Bytes) (leaves : List Bytes) (off hTop : Nat) : List Bytes :=
  [0] :: nodeLog H leaves (H [0]) off hTop 0

/-- the log of `MerkleTree::new(leaves)` (`StmTree.treeRoot`) -/
abbrev treeLogOf (H : Bytes → Bytes) (leaves : List Bytes) : List Bytes :=
  treeLog H leaves (nextPow2 leaves.length - 1) (height leaves.length)

/-- **the log of one `level` call of the verifier**: the concatenations it hashes, in order -/
def levelLog (nr : Nat) (Z : Bytes) : List (Nat × Bytes) → List Bytes → List Bytes
  | [], _ => []
  | [(p, h)], vs =>
    if p = 0 then []
    else if p % 2 = 0 then
      match vs with
      | [] => []
      | v :: _ => [v ++ h]
    else if p + 1 < nr then
      match vs with
      | [] => []
      | v :: _ => [h ++ v]
    else [h ++ Z]
  | (p, h) :: (p2, h2) :: rest, vs =>
    if p = 0 then []
    else if p % 2 = 0 then
      match vs with
      | [] => []
      | v :: vs' => (v ++ h) :: levelLog nr Z ((p2, h2) :: rest) vs'
    else if p2 = p + 1 then (h ++ h2) :: levelLog nr Z rest vs
    else if p + 1 < nr then
      match vs with
      | [] => []
      | v :: vs' => (h ++ v) :: levelLog nr Z ((p2, h2) :: rest) vs'
    else (h ++ Z) :: levelLog nr Z ((p2, h2) :: rest) vs

/-- … of the level loop -/
def runLog (H : Bytes → Bytes) (nr : Nat) (Z : Bytes) : Nat → List (Nat × Bytes) → List Bytes → List Bytes
  | _, [], _ => []
  | 0, _ :: _, _ => []
  | fuel + 1, (p, h) :: es, vs =>
    if p = 0 then []
    else match level H nr Z ((p, h) :: es) vs with
      | none => []
      | some (es', vs') => levelLog nr Z ((p, h) :: es) vs ++ runLog H nr Z fuel es' vs'

/-- **the log of `verifyBatch`**: the claimed leaf pre-images and everything the level loop hashes -/
def verifierLog (H : Bytes → Bytes) (nr : Nat) (claims values : List Bytes) (indices : List Nat) : List Bytes :=
  (indices.zip claims).map (·.2) ++
    runLog H (nr + nextPow2 nr - 1) (H [0]) 65
      ((indices.zip claims).map fun p => (p.1 + (nextPow2 nr - 1), H p.2)) values

variable {H : Bytes → Bytes}

/-- `levelLog` IS what `level` hashes: the produced values are the hashes of the log, in order -/
theorem levelLog_faithful (nr : Nat) (Z : Bytes) :
    ∀ (es : List (Nat × Bytes)) (vs : List Bytes) (es' : List (Nat × Bytes)) (vs' : List Bytes),
      level H nr Z es vs = some (es', vs') → es'.map (·.2) = (levelLog nr Z es vs).map H := by
  intro es vs
  fun_induction level H nr Z es vs <;> intro es' vs' hl
  all_goals first
    | (simp at hl; done)
    | skip
  all_goals simp only [Option.some.injEq, Prod.mk.injEq] at hl
  all_goals obtain ⟨rfl, rfl⟩ := hl
  case case1 => simp [levelLog]
  case case4 => rename_i hp0 hpar v vst; simp [levelLog, hp0, hpar]
  case case6 => rename_i hp0 hpar hlt v vst; simp [levelLog, hp0, hpar, hlt]
  case case7 => rename_i hp0 hpar hlt; simp [levelLog, hp0, hpar, hlt]
  case case11 => rename_i hp0 hpar v vst r vs2 hx ih; simp [levelLog, hp0, hpar, ih r vs2 hx]
  case case13 => rename_i hp0 hpar r vs2 hx ih; simp [levelLog, hp0, hpar, ih r vs2 hx]
  case case16 => rename_i hp0 hpar hne hlt v vst r vs2 hx ih; simp [levelLog, hp0, hpar, hne, hlt, ih r vs2 hx]
  case case18 => rename_i hp0 hpar hne hlt r vs2 hx ih; simp [levelLog, hp0, hpar, hne, hlt, ih r vs2 hx]

/-- the relativised form of `hinj`: no collision BETWEEN a string `y` hashed for the committed tree and a
string `x` hashed by the verifier (resp. for the other tree) -/
def NoCollisionBetween (H : Bytes → Bytes) (U X : List Bytes) : Prop := ∀ y ∈ U, ∀ x ∈ X, H x = H y → x = y

theorem nodeLog_sub {leaves : List Bytes} {Z : Bytes} {off hTop h p : Nat} (t : InTree hTop h p) :
    ∀ y ∈ nodeLog H leaves Z off h p, y ∈ nodeLog H leaves Z off hTop 0 := by
  induction t with
  | root => exact fun y hy => hy
  | left _ ih => exact fun y hy => ih y (by simp [nodeLog, hy])
  | right _ ih => exact fun y hy => ih y (by simp [nodeLog, hy])

theorem mem_zero {leaves : List Bytes} {off hTop : Nat} : ([0] : Bytes) ∈ treeLog H leaves off hTop := by
  simp [treeLog]

theorem mem_node {leaves : List Bytes} {off hTop h p : Nat} (t : InTree hTop (h + 1) p) :
    sub H leaves (H [0]) off h (2 * p + 1) ++ sub H leaves (H [0]) off h (2 * p + 2) ∈ treeLog H leaves off hTop :=
  List.mem_cons_of_mem _ (nodeLog_sub t _ (by simp [nodeLog]))

theorem mem_leaf {leaves : List Bytes} {off hTop p : Nat} (t : InTree hTop 0 p) {l : Bytes}
    (hl : leaves[p - off]? = some l) : l ∈ treeLog H leaves off hTop :=
  List.mem_cons_of_mem _ (nodeLog_sub t _ (by simp [nodeLog, hl]))

section verifier
variable {leaves : List Bytes} {off hTop : Nat} {X : List Bytes}

theorem split_node' (h2 : NoCollisionBetween H (treeLog H leaves off hTop) X) (hlen : ∀ x, (H x).length = 32)
    (h q : Nat) (hq : InTree hTop (h + 1) q) {a b : Bytes} (hX : a ++ b ∈ X) (ha : a.length = 32)
    (heq : H (a ++ b) = sub H leaves (H [0]) off (h + 1) q) :
    a = sub H leaves (H [0]) off h (2 * q + 1) ∧ b = sub H leaves (H [0]) off h (2 * q + 2) := by
  have h1 := h2 _ (mem_node hq) (a ++ b) hX (by simpa [sub] using heq)
  have hl : a.length = (sub H leaves (H [0]) off h (2 * q + 1)).length := by
    rw [ha, sub_len hlen (hlen [0])]
  exact List.append_inj h1 hl

/-- the predicate carried through the levels: the entry is the committed value at an actual tree position -/
def GoodAt (H : Bytes → Bytes) (leaves : List Bytes) (off hTop h : Nat) (e : Nat × Bytes) : Prop :=
  e.2 = sub H leaves (H [0]) off h e.1 ∧ InTree hTop h e.1

theorem good_odd (h2 : NoCollisionBetween H (treeLog H leaves off hTop) X) (hlen : ∀ x, (H x).length = 32)
    (h0 p : Nat) (hp0 : p ≠ 0) (hpar : ¬ p % 2 = 0) {a b : Bytes} (hX : a ++ b ∈ X) (ha : a.length = 32)
    (hg : GoodAt H leaves off hTop (h0 + 1) (parent p, H (a ++ b))) :
    GoodAt H leaves off hTop h0 (p, a) ∧ GoodAt H leaves off hTop h0 (p + 1, b) := by
  obtain ⟨hv, ht⟩ := hg
  obtain ⟨e1, e2⟩ := split_node' h2 hlen h0 (parent p) ht hX ha hv
  have hp := parent_odd hp0 hpar
  have hp1 : 2 * parent p + 2 = p + 1 := by omega
  refine ⟨⟨?_, ?_⟩, ⟨?_, ?_⟩⟩
  · simpa [hp] using e1
  · simpa [hp] using InTree.left ht
  · simpa [hp1] using e2
  · simpa [hp1] using InTree.right ht

theorem good_even (h2 : NoCollisionBetween H (treeLog H leaves off hTop) X) (hlen : ∀ x, (H x).length = 32)
    (h0 p : Nat) (hp0 : p ≠ 0) (hpar : p % 2 = 0) {a b : Bytes} (hX : a ++ b ∈ X) (ha : a.length = 32)
    (hg : GoodAt H leaves off hTop (h0 + 1) (parent p, H (a ++ b))) :
    GoodAt H leaves off hTop h0 (p, b) := by
  obtain ⟨hv, ht⟩ := hg
  obtain ⟨_, e2⟩ := split_node' h2 hlen h0 (parent p) ht hX ha hv
  have hp := parent_even hp0 hpar
  exact ⟨by simpa [hp] using e2, by simpa [hp] using InTree.right ht⟩

theorem level_sound' (h2 : NoCollisionBetween H (treeLog H leaves off hTop) X) (hlen : ∀ x, (H x).length = 32)
    (nr h0 : Nat) :
    ∀ (es : List (Nat × Bytes)) (vs : List Bytes) (es' : List (Nat × Bytes)) (vs' : List Bytes),
      level H nr (H [0]) es vs = some (es', vs') →
      (∀ x ∈ levelLog nr (H [0]) es vs, x ∈ X) →
      (∀ e ∈ es, e.2.length = 32) → (∀ v ∈ vs, v.length = 32) →
      (∀ e ∈ es', GoodAt H leaves off hTop (h0 + 1) e) →
      (∀ e ∈ es, GoodAt H leaves off hTop h0 e) := by
  intro es vs
  fun_induction level H nr (H [0]) es vs <;> intro es' vs' hl hX hes hvs hgood
  all_goals first
    | (simp at hl; done)
    | skip
  case case1 => simp
  case case4 =>
    rename_i p h hp0 hpar v vst
    simp only [Option.some.injEq, Prod.mk.injEq] at hl
    obtain ⟨rfl, rfl⟩ := hl
    have hb := good_even h2 hlen h0 p hp0 hpar (hX (v ++ h) (by simp [levelLog, hp0, hpar])) (hvs v (by simp))
      (hgood (parent p, H (v ++ h)) (by simp))
    intro e he; simp at he; subst he; exact hb
  case case6 =>
    rename_i p h hp0 hpar hlt v vst
    simp only [Option.some.injEq, Prod.mk.injEq] at hl
    obtain ⟨rfl, rfl⟩ := hl
    have hb := (good_odd h2 hlen h0 p hp0 hpar (hX (h ++ v) (by simp [levelLog, hp0, hpar, hlt]))
      (hes (p, h) (by simp)) (hgood (parent p, H (h ++ v)) (by simp))).1
    intro e he; simp at he; subst he; exact hb
  case case7 =>
    rename_i p h vs0 hp0 hpar hlt
    simp only [Option.some.injEq, Prod.mk.injEq] at hl
    obtain ⟨rfl, rfl⟩ := hl
    have hb := (good_odd h2 hlen h0 p hp0 hpar (hX (h ++ H [0]) (by simp [levelLog, hp0, hpar, hlt]))
      (hes (p, h) (by simp)) (hgood (parent p, H (h ++ H [0])) (by simp))).1
    intro e he; simp at he; subst he; exact hb
  case case11 =>
    rename_i p h p2 h2' rest hp0 hpar v vst r vs2 hx ih
    simp only [Option.some.injEq, Prod.mk.injEq] at hl
    obtain ⟨rfl, rfl⟩ := hl
    have hb := good_even h2 hlen h0 p hp0 hpar (hX (v ++ h) (by simp [levelLog, hp0, hpar])) (hvs v (by simp))
      (hgood (parent p, H (v ++ h)) (by simp))
    have ih1 := ih r vs2 hx (fun x hx' => hX x (by simp [levelLog, hp0, hpar, hx']))
      (fun e he => hes e (List.mem_cons_of_mem _ he))
      (fun w hw => hvs w (List.mem_cons_of_mem _ hw)) (fun e he => hgood e (List.mem_cons_of_mem _ he))
    intro e he
    rcases List.mem_cons.mp he with rfl | he
    · exact hb
    · exact ih1 e he
  case case13 =>
    rename_i p h h2' rest vs0 hp0 hpar r vs2 hx ih
    simp only [Option.some.injEq, Prod.mk.injEq] at hl
    obtain ⟨rfl, rfl⟩ := hl
    obtain ⟨ha, hb⟩ := good_odd h2 hlen h0 p hp0 hpar (hX (h ++ h2') (by simp [levelLog, hp0, hpar]))
      (hes (p, h) (by simp)) (hgood (parent p, H (h ++ h2')) (by simp))
    have ih1 := ih r vs2 hx (fun x hx' => hX x (by simp [levelLog, hp0, hpar, hx']))
      (fun e he => hes e (List.mem_cons_of_mem _ (List.mem_cons_of_mem _ he)))
      hvs (fun e he => hgood e (List.mem_cons_of_mem _ he))
    intro e he
    rcases List.mem_cons.mp he with rfl | he
    · exact ha
    · rcases List.mem_cons.mp he with rfl | he
      · exact hb
      · exact ih1 e he
  case case16 =>
    rename_i p h p2 h2' rest hp0 hpar hne hlt v vst r vs2 hx ih
    simp only [Option.some.injEq, Prod.mk.injEq] at hl
    obtain ⟨rfl, rfl⟩ := hl
    have ha := (good_odd h2 hlen h0 p hp0 hpar (hX (h ++ v) (by simp [levelLog, hp0, hpar, hne, hlt]))
      (hes (p, h) (by simp)) (hgood (parent p, H (h ++ v)) (by simp))).1
    have ih1 := ih r vs2 hx (fun x hx' => hX x (by simp [levelLog, hp0, hpar, hne, hlt, hx']))
      (fun e he => hes e (List.mem_cons_of_mem _ he))
      (fun w hw => hvs w (List.mem_cons_of_mem _ hw)) (fun e he => hgood e (List.mem_cons_of_mem _ he))
    intro e he
    rcases List.mem_cons.mp he with rfl | he
    · exact ha
    · exact ih1 e he
  case case18 =>
    rename_i p h p2 h2' rest vs0 hp0 hpar hne hlt r vs2 hx ih
    simp only [Option.some.injEq, Prod.mk.injEq] at hl
    obtain ⟨rfl, rfl⟩ := hl
    have ha := (good_odd h2 hlen h0 p hp0 hpar (hX (h ++ H [0]) (by simp [levelLog, hp0, hpar, hne, hlt]))
      (hes (p, h) (by simp)) (hgood (parent p, H (h ++ H [0])) (by simp))).1
    have ih1 := ih r vs2 hx (fun x hx' => hX x (by simp [levelLog, hp0, hpar, hne, hlt, hx']))
      (fun e he => hes e (List.mem_cons_of_mem _ he))
      hvs (fun e he => hgood e (List.mem_cons_of_mem _ he))
    intro e he
    rcases List.mem_cons.mp he with rfl | he
    · exact ha
    · exact ih1 e he

/-- every entry produced by one level is the hash of a 64-byte string OF THE LOG -/
theorem level_out' (hlen : ∀ x, (H x).length = 32) {Z : Bytes} (hZ : Z.length = 32) (nr : Nat) :
    ∀ (es : List (Nat × Bytes)) (vs : List Bytes) (es' : List (Nat × Bytes)) (vs' : List Bytes),
      level H nr Z es vs = some (es', vs') →
      (∀ e ∈ es, e.2.length = 32) → (∀ v ∈ vs, v.length = 32) →
      ∀ e ∈ es', ∃ x ∈ levelLog nr Z es vs, e.2 = H x ∧ x.length = 64 := by
  intro es vs es' vs' hl hes hvs e he
  have hf := levelLog_faithful (H := H) nr Z es vs es' vs' hl
  obtain ⟨x', hx', hx64⟩ := (level_out hlen hZ nr es vs es' vs' hl hes hvs).1 e he
  -- e.2 is the image of a log entry at the same index
  have : e.2 ∈ (levelLog nr Z es vs).map H := by rw [← hf]; exact List.mem_map.mpr ⟨e, he, rfl⟩
  obtain ⟨x, hx, hxe⟩ := List.mem_map.mp this
  refine ⟨x, hx, hxe.symm, ?_⟩
  exact levelLog_len hZ nr es vs es' vs' hl hes hvs x hx
where
  levelLog_len {Z : Bytes} (hZ : Z.length = 32) (nr : Nat) :
      ∀ (es : List (Nat × Bytes)) (vs : List Bytes) (es' : List (Nat × Bytes)) (vs' : List Bytes),
        level H nr Z es vs = some (es', vs') →
        (∀ e ∈ es, e.2.length = 32) → (∀ v ∈ vs, v.length = 32) →
        ∀ x ∈ levelLog nr Z es vs, x.length = 64 := by
    intro es vs
    fun_induction level H nr Z es vs <;> intro es' vs' hl hes hvs
    all_goals first
      | (simp at hl; done)
      | skip
    case case1 => simp [levelLog]
    case case4 =>
      rename_i p h hp0 hpar v vst
      intro x hx; simp [levelLog, hp0, hpar] at hx; subst hx
      simp [hvs v (by simp), hes (p, h) (by simp)]
    case case6 =>
      rename_i p h hp0 hpar hlt v vst
      intro x hx; simp [levelLog, hp0, hpar, hlt] at hx; subst hx
      simp [hvs v (by simp), hes (p, h) (by simp)]
    case case7 =>
      rename_i p h vs0 hp0 hpar hlt
      intro x hx; simp [levelLog, hp0, hpar, hlt] at hx; subst hx
      simp [hZ, hes (p, h) (by simp)]
    case case11 =>
      rename_i p h p2 h2' rest hp0 hpar v vst r vs2 hx' ih
      intro x hx; simp [levelLog, hp0, hpar] at hx
      rcases hx with rfl | hx
      · simp [hvs v (by simp), hes (p, h) (by simp)]
      · exact ih r vs2 hx' (fun e he => hes e (List.mem_cons_of_mem _ he))
          (fun w hw => hvs w (List.mem_cons_of_mem _ hw)) x hx
    case case13 =>
      rename_i p h h2' rest vs0 hp0 hpar r vs2 hx' ih
      intro x hx; simp [levelLog, hp0, hpar] at hx
      rcases hx with rfl | hx
      · simp [hes (p, h) (by simp), hes (p + 1, h2') (by simp)]
      · exact ih r vs2 hx' (fun e he => hes e (List.mem_cons_of_mem _ (List.mem_cons_of_mem _ he))) hvs x hx
    case case16 =>
      rename_i p h p2 h2' rest hp0 hpar hne hlt v vst r vs2 hx' ih
      intro x hx; simp [levelLog, hp0, hpar, hne, hlt] at hx
      rcases hx with rfl | hx
      · simp [hvs v (by simp), hes (p, h) (by simp)]
      · exact ih r vs2 hx' (fun e he => hes e (List.mem_cons_of_mem _ he))
          (fun w hw => hvs w (List.mem_cons_of_mem _ hw)) x hx
    case case18 =>
      rename_i p h p2 h2' rest vs0 hp0 hpar hne hlt r vs2 hx' ih
      intro x hx; simp [levelLog, hp0, hpar, hne, hlt] at hx
      rcases hx with rfl | hx
      · simp [hZ, hes (p, h) (by simp)]
      · exact ih r vs2 hx' (fun e he => hes e (List.mem_cons_of_mem _ he)) hvs x hx

theorem node_ne_leaf' (h2 : NoCollisionBetween H (treeLog H leaves off hTop) X)
    (hleaf : ∀ l ∈ leaves, l.length = 104) (p : Nat) (hp : InTree hTop 0 p) {x : Bytes} (hX : x ∈ X)
    (hx : x.length = 64) : H x ≠ leafVal H leaves (H [0]) (p - off) := by
  unfold leafVal
  split
  · rename_i l hl
    intro h
    have hl' : l ∈ leaves := List.mem_of_getElem? hl
    have := h2 l (mem_leaf hp hl) x hX h
    have := hleaf l hl'
    simp_all
  · intro h
    have := h2 [0] mem_zero x hX h
    simp_all

theorem run_sound' (h2 : NoCollisionBetween H (treeLog H leaves off hTop) X) (hlen : ∀ x, (H x).length = 32)
    (nr : Nat) (hleaf : ∀ l ∈ leaves, l.length = 104) :
    ∀ (fuel : Nat) (es : List (Nat × Bytes)) (vs : List Bytes),
      run H nr (H [0]) fuel es vs = some [(0, sub H leaves (H [0]) off hTop 0)] →
      (∀ x ∈ runLog H nr (H [0]) fuel es vs, x ∈ X) →
      (∀ e ∈ es, e.2.length = 32) → (∀ v ∈ vs, v.length = 32) →
      ∃ t, t ≤ hTop ∧ ∀ e ∈ es, GoodAt H leaves off hTop (hTop - t) e := by
  have hZ : (H [0]).length = 32 := hlen _
  intro fuel
  induction fuel with
  | zero =>
    intro es vs hrun _ hes hvs
    match es, hrun with
    | (p, h) :: es, hrun =>
      simp only [run] at hrun
      split at hrun
      · simp only [Option.some.injEq] at hrun
        refine ⟨0, Nat.zero_le _, ?_⟩
        intro e he; rw [hrun] at he; simp at he; subst he
        exact ⟨by simp, by simpa using InTree.root⟩
      · simp at hrun
  | succ fuel ih =>
    intro es vs hrun hX hes hvs
    match es, hrun, hX with
    | (p, h) :: es, hrun, hX =>
      simp only [run] at hrun
      split at hrun
      · simp only [Option.some.injEq] at hrun
        refine ⟨0, Nat.zero_le _, ?_⟩
        intro e he; rw [hrun] at he; simp at he; subst he
        exact ⟨by simp, by simpa using InTree.root⟩
      · rename_i hp0
        split at hrun
        · simp at hrun
        · rename_i es' vs' hlev
          have hXl : ∀ x ∈ levelLog nr (H [0]) ((p, h) :: es) vs, x ∈ X := by
            intro x hx; apply hX; simp [runLog, hp0, hlev, hx]
          have hXr : ∀ x ∈ runLog H nr (H [0]) fuel es' vs', x ∈ X := by
            intro x hx; apply hX; simp [runLog, hp0, hlev, hx]
          have hout := level_out hlen hZ nr _ _ _ _ hlev hes hvs
          have hout' := level_out' hlen hZ nr _ _ _ _ hlev hes hvs
          have hvs' := level_vs nr (H [0]) _ _ _ _ hlev hvs
          have hes' : ∀ e ∈ es', e.2.length = 32 := by
            intro e he
            obtain ⟨x, hx, _⟩ := hout.1 e he
            rw [hx]; exact hlen _
          obtain ⟨t, ht, hgood⟩ := ih es' vs' hrun hXr hes' hvs'
          have hne : es' ≠ [] := hout.2 (by simp)
          have hpos : hTop - t ≠ 0 := by
            intro h0
            obtain ⟨e, he⟩ := List.exists_mem_of_ne_nil es' hne
            obtain ⟨x, hxl, hx, hx64⟩ := hout' e he
            obtain ⟨hv, hin⟩ := hgood e he
            rw [h0] at hv hin
            rw [hx] at hv
            exact node_ne_leaf' h2 hleaf e.1 hin (hXl x hxl) hx64 (by simpa [sub] using hv)
          obtain ⟨h1, hh1⟩ : ∃ h1, hTop - t = h1 + 1 := ⟨hTop - t - 1, by omega⟩
          refine ⟨t + 1, by omega, ?_⟩
          have hg' : ∀ e ∈ es', GoodAt H leaves off hTop (h1 + 1) e := by
            intro e he; rw [← hh1]; exact hgood e he
          have := level_sound' h2 hlen nr h1 _ _ _ _ hlev hXl hes hvs hg'
          have hh2 : hTop - (t + 1) = h1 := by omega
          rw [hh2]; exact this

/-- `StmBatch.batch_sound` with the relativised hash hypothesis -/
theorem batch_sound' (h2 : NoCollisionBetween H (treeLog H leaves off hTop) X) (hlen : ∀ x, (H x).length = 32)
    (nr : Nat) (hleaf : ∀ l ∈ leaves, l.length = 104)
    (claims : List (Nat × Bytes)) (hclaim : ∀ c ∈ claims, c.2.length = 104)
    (vs : List Bytes) (hvs : ∀ v ∈ vs, v.length = 32) (fuel : Nat)
    (hXc : ∀ c ∈ claims, c.2 ∈ X)
    (hXr : ∀ x ∈ runLog H nr (H [0]) fuel (claims.map fun c => (c.1 + off, H c.2)) vs, x ∈ X)
    (hrun : run H nr (H [0]) fuel (claims.map fun c => (c.1 + off, H c.2)) vs
      = some [(0, sub H leaves (H [0]) off hTop 0)]) :
    ∀ c ∈ claims, leaves[c.1]? = some c.2 := by
  have hes : ∀ e ∈ claims.map (fun c => (c.1 + off, H c.2)), e.2.length = 32 := by
    intro e he
    obtain ⟨c, _, rfl⟩ := List.mem_map.mp he
    exact hlen _
  obtain ⟨t, ht, hgood⟩ := run_sound' h2 hlen nr hleaf fuel _ vs hrun hXr hes hvs
  intro c hc
  obtain ⟨hg, hin⟩ := hgood (c.1 + off, H c.2) (List.mem_map.mpr ⟨c, hc, rfl⟩)
  simp only at hg hin
  cases hht : hTop - t with
  | succ h1 =>
    rw [hht] at hg hin
    simp only [sub] at hg
    have := h2 _ (mem_node hin) c.2 (hXc c hc) hg
    have h104 := hclaim c hc
    rw [this] at h104
    simp [sub_len hlen (hlen [0])] at h104
  | zero =>
    rw [hht] at hg hin
    simp only [sub, leafVal, Nat.add_sub_cancel] at hg
    split at hg
    · rename_i l hl
      have hl' : leaves[c.1 + off - off]? = some l := by simpa using hl
      rw [hl, h2 l (mem_leaf hin hl') c.2 (hXc c hc) hg]
    · have := h2 [0] mem_zero c.2 (hXc c hc) hg
      have h104 := hclaim c hc
      rw [this] at h104
      simp at h104

end verifier

theorem not_noCollision {U X : List Bytes} (h : ¬ NoCollisionBetween H U X) :
    ∃ y ∈ U, ∃ x ∈ X, x ≠ y ∧ H x = H y := by
  unfold NoCollisionBetween at h
  obtain ⟨y, hy⟩ := Classical.not_forall.mp h
  obtain ⟨hU, hy⟩ := Classical.not_imp.mp hy
  obtain ⟨x, hx⟩ := Classical.not_forall.mp hy
  obtain ⟨hX, hx⟩ := Classical.not_imp.mp hx
  obtain ⟨he, hne⟩ := Classical.not_imp.mp hx
  exact ⟨y, hU, x, hX, hne, he⟩

/-- **repaired `C09_stm_sound`**: an accepted batch proof vouches only for committed leaves at the stated
positions — or the proof hands out two DIFFERENT byte strings with the same hash, `y` out of the strings
hashed when the committed tree was built (`treeLogOf`) and `x` out of the strings the verifier hashed
(`verifierLog`: the claimed leaves and the concatenations of the level loop), or a path value does not have 32
bytes. Unlike `Collision H`, the second disjunct does not follow from `hlen` (`sat_witness`). -/
theorem C09_stm_sound_witness (H : Bytes → Bytes) (hlen : ∀ x, (H x).length = 32)
    (leaves : List Bytes) (hleaf : ∀ l ∈ leaves, l.length = 104)
    (claims : List Bytes) (hclaim : ∀ c ∈ claims, c.length = 104)
    (values : List Bytes) (indices : List Nat)
    (h : verifyBatch H (treeRoot H leaves) leaves.length claims values indices = .ok) :
    (∀ p ∈ indices.zip claims, leaves[p.1]? = some p.2) ∨
    (∃ y ∈ treeLogOf H leaves, ∃ x ∈ verifierLog H leaves.length claims values indices, x ≠ y ∧ H x = H y) ∨
    (∃ v ∈ values, v.length ≠ 32) := by
  by_cases hv : ∀ v ∈ values, v.length = 32
  · by_cases h2 : NoCollisionBetween H (treeLogOf H leaves) (verifierLog H leaves.length claims values indices)
    · left
      obtain ⟨_, hrun⟩ := verifyBatch_ok_run H _ _ _ _ _ h
      have hc : ∀ c ∈ indices.zip claims, c.2.length = 104 := fun c hc => hclaim c.2 (List.of_mem_zip hc).2
      refine batch_sound' h2 hlen (leaves.length + nextPow2 leaves.length - 1) hleaf
        (indices.zip claims) hc values hv 65 ?_ ?_ hrun
      · intro c hc; unfold verifierLog; exact List.mem_append_left _ (List.mem_map.mpr ⟨c, hc, rfl⟩)
      · intro x hx; unfold verifierLog; exact List.mem_append_right _ hx
    · exact Or.inr (Or.inl (not_noCollision h2))
  · right; right
    obtain ⟨v, hv'⟩ := Classical.not_forall.mp hv
    obtain ⟨hvm, hl⟩ := Classical.not_imp.mp hv'
    exact ⟨v, hvm, hl⟩

/-! ### root injectivity (`C09_stm_root_injective`), with the witness pair -/

theorem sub_inj' (hlen : ∀ x, (H x).length = 32)
    (L L' : List Bytes) (hL : ∀ l ∈ L, l.length = 104) (hL' : ∀ l ∈ L', l.length = 104)
    (off hTop : Nat) (h2 : NoCollisionBetween H (treeLog H L' off hTop) (treeLog H L off hTop)) :
    ∀ (h p : Nat), InTree hTop h p → sub H L (H [0]) off h p = sub H L' (H [0]) off h p →
      ∀ k, p * 2 ^ h + (2 ^ h - 1) - off ≤ k → k ≤ p * 2 ^ h + (2 ^ h - 1) + (2 ^ h - 1) - off →
        off ≤ p * 2 ^ h + (2 ^ h - 1) → L[k]? = L'[k]? := by
  intro h
  induction h with
  | zero =>
    intro p hin heq k hk1 hk2 hoff
    simp only [Nat.pow_zero, Nat.mul_one, Nat.sub_self, Nat.add_zero] at hk1 hk2 hoff
    have hk : k = p - off := by omega
    subst hk
    simp only [sub, leafVal] at heq
    cases ha : L[p - off]? with
    | some a =>
      cases hb : L'[p - off]? with
      | some b =>
        rw [ha, hb] at heq; simp only at heq
        rw [h2 b (mem_leaf hin hb) a (mem_leaf hin ha) heq]
      | none =>
        rw [ha, hb] at heq; simp only at heq
        have := h2 [0] mem_zero a (mem_leaf hin ha) heq
        have h104 := hL a (List.mem_of_getElem? ha)
        rw [this] at h104; simp at h104
    | none =>
      cases hb : L'[p - off]? with
      | some b =>
        rw [ha, hb] at heq; simp only at heq
        have := h2 b (mem_leaf hin hb) [0] mem_zero heq
        have h104 := hL' b (List.mem_of_getElem? hb)
        rw [← this] at h104; simp at h104
      | none => rfl
  | succ h ih =>
    intro p hin heq k hk1 hk2 hoff
    simp only [sub] at heq
    have hcat := h2 _ (mem_node hin) _ (mem_node hin) heq
    have hl : (sub H L (H [0]) off h (2 * p + 1)).length = (sub H L' (H [0]) off h (2 * p + 1)).length := by
      rw [sub_len hlen (hlen [0]), sub_len hlen (hlen [0])]
    obtain ⟨h1, h2'⟩ := List.append_inj hcat hl
    have hpow : 2 ^ (h + 1) = 2 * 2 ^ h := by rw [Nat.pow_succ]; omega
    have hpos : 0 < 2 ^ h := Nat.pow_pos (by omega)
    by_cases hside : k ≤ (2 * p + 1) * 2 ^ h + (2 ^ h - 1) + (2 ^ h - 1) - off
    · by_cases hoffl : off ≤ (2 * p + 1) * 2 ^ h + (2 ^ h - 1)
      · refine ih (2 * p + 1) (InTree.left hin) h1 k ?_ hside hoffl
        rw [hpow] at hk1
        have : (2 * p + 1) * 2 ^ h = p * (2 * 2 ^ h) + 2 ^ h := by
          rw [Nat.add_mul, Nat.one_mul, Nat.mul_comm 2 p, Nat.mul_assoc]
        omega
      · exfalso
        rw [hpow] at hoff hk1
        have : (2 * p + 1) * 2 ^ h = p * (2 * 2 ^ h) + 2 ^ h := by
          rw [Nat.add_mul, Nat.one_mul, Nat.mul_comm 2 p, Nat.mul_assoc]
        omega
    · have hoffr : off ≤ (2 * p + 2) * 2 ^ h + (2 ^ h - 1) := by
        rw [hpow] at hoff
        have : (2 * p + 2) * 2 ^ h = p * (2 * 2 ^ h) + 2 * 2 ^ h := by
          rw [Nat.add_mul, Nat.mul_comm 2 p, Nat.mul_assoc]
        omega
      refine ih (2 * p + 2) (InTree.right hin) h2' k ?_ ?_ hoffr
      · have e1 : (2 * p + 1) * 2 ^ h = p * (2 * 2 ^ h) + 2 ^ h := by
          rw [Nat.add_mul, Nat.one_mul, Nat.mul_comm 2 p, Nat.mul_assoc]
        have e2 : (2 * p + 2) * 2 ^ h = p * (2 * 2 ^ h) + 2 * 2 ^ h := by
          rw [Nat.add_mul, Nat.mul_comm 2 p, Nat.mul_assoc]
        omega
      · rw [hpow] at hk2
        have e2 : (2 * p + 2) * 2 ^ h = p * (2 * 2 ^ h) + 2 * 2 ^ h := by
          rw [Nat.add_mul, Nat.mul_comm 2 p, Nat.mul_assoc]
        omega

/-- **repaired `C09_stm_root_injective`**: two leaf lists of the same length with the same root are equal, or
two different strings — `x` hashed for the tree over `L`, `y` hashed for the tree over `L'` — have the same
hash -/
theorem C09_stm_root_injective_witness (H : Bytes → Bytes) (hlen : ∀ x, (H x).length = 32)
    (L L' : List Bytes) (hL : ∀ l ∈ L, l.length = 104) (hL' : ∀ l ∈ L', l.length = 104)
    (hn : L.length = L'.length) (h : Nat) (hcap : L.length ≤ 2 ^ h)
    (hroot : sub H L (H [0]) (2 ^ h - 1) h 0 = sub H L' (H [0]) (2 ^ h - 1) h 0) :
    L = L' ∨ ∃ y ∈ treeLog H L' (2 ^ h - 1) h, ∃ x ∈ treeLog H L (2 ^ h - 1) h, x ≠ y ∧ H x = H y := by
  by_cases h2 : NoCollisionBetween H (treeLog H L' (2 ^ h - 1) h) (treeLog H L (2 ^ h - 1) h)
  · left
    apply List.ext_getElem?
    intro k
    by_cases hk : k < 2 ^ h
    · exact sub_inj' hlen L L' hL hL' (2 ^ h - 1) h h2 h 0 InTree.root hroot k (by omega) (by omega) (by omega)
    · rw [List.getElem?_eq_none (by omega), List.getElem?_eq_none (by omega)]
  · exact Or.inr (not_noCollision h2)

/-! ### a world that satisfies every hypothesis of the repaired theorems -/

def c (b : UInt8) : Bytes := List.replicate 32 b
def l0 : Bytes := List.replicate 104 5
def l1 : Bytes := List.replicate 104 6

/-- a table hash with 32-byte outputs: the four inputs of the tree over `[l0, l1]` get private values -/
def tH (x : Bytes) : Bytes :=
  if x = [0] then c 1 else if x = l0 then c 2 else if x = l1 then c 3 else if x = c 2 ++ c 3 then c 4 else c 0

theorem tH_len (x : Bytes) : (tH x).length = 32 := by
  unfold tH; repeat' split
  all_goals simp [c]

theorem tH_zero : tH [0] = c 1 := by decide +kernel
theorem tH_l0 : tH l0 = c 2 := by decide +kernel
theorem tH_l1 : tH l1 = c 3 := by decide +kernel
theorem tH_node : tH (c 2 ++ c 3) = c 4 := by decide +kernel

/-- every value of `tH` other than `c 0` has exactly one pre-image -/
theorem tH_cases (x : Bytes) :
    (x = [0] ∧ tH x = c 1) ∨ (x = l0 ∧ tH x = c 2) ∨ (x = l1 ∧ tH x = c 3) ∨
    (x = c 2 ++ c 3 ∧ tH x = c 4) ∨ tH x = c 0 := by
  by_cases h1 : x = [0]
  · exact Or.inl ⟨h1, by rw [h1]; exact tH_zero⟩
  · by_cases h2 : x = l0
    · exact Or.inr (Or.inl ⟨h2, by rw [h2]; exact tH_l0⟩)
    · by_cases h3 : x = l1
      · exact Or.inr (Or.inr (Or.inl ⟨h3, by rw [h3]; exact tH_l1⟩))
      · by_cases h4 : x = c 2 ++ c 3
        · exact Or.inr (Or.inr (Or.inr (Or.inl ⟨h4, by rw [h4]; exact tH_node⟩)))
        · exact Or.inr (Or.inr (Or.inr (Or.inr (by simp [tH, h1, h2, h3, h4]))))

theorem c_ne : c 0 ≠ c 1 ∧ c 0 ≠ c 2 ∧ c 0 ≠ c 3 ∧ c 0 ≠ c 4 ∧ c 1 ≠ c 2 ∧ c 1 ≠ c 3 ∧ c 1 ≠ c 4 ∧
    c 2 ≠ c 3 ∧ c 2 ≠ c 4 ∧ c 3 ≠ c 4 := by decide +kernel

/-- no second pre-image (among ALL byte strings) of the four tree inputs -/
theorem tH_unique {x y : Bytes} (hy' : y = [0] ∨ y = l0 ∨ y = l1 ∨ y = c 2 ++ c 3) (h : tH x = tH y) : x = y := by
  obtain ⟨n01, n02, n03, n04, n12, n13, n14, n23, n24, n34⟩ := c_ne
  have key : ∀ v, tH y = v → tH x = v → v ≠ c 0 → x = y := by
    intro v hyv hxv hv0
    rcases tH_cases x with ⟨ex, e⟩ | ⟨ex, e⟩ | ⟨ex, e⟩ | ⟨ex, e⟩ | e
    all_goals rcases hy' with ey | ey | ey | ey
    all_goals first
      | (rw [ex, ey]; done)
      | (exfalso
         rw [e] at hxv
         first
           | (rw [ey, tH_zero] at hyv)
           | (rw [ey, tH_l0] at hyv)
           | (rw [ey, tH_l1] at hyv)
           | (rw [ey, tH_node] at hyv)
         rw [← hxv] at hyv
         first
           | exact hv0 hxv.symm
           | exact n12 hyv | exact n12 hyv.symm | exact n13 hyv | exact n13 hyv.symm
           | exact n14 hyv | exact n14 hyv.symm | exact n23 hyv | exact n23 hyv.symm
           | exact n24 hyv | exact n24 hyv.symm | exact n34 hyv | exact n34 hyv.symm)
  rcases hy' with ey | ey | ey | ey
  · exact key (c 1) (by rw [ey]; exact tH_zero) (by rw [h, ey]; exact tH_zero) (fun e => n01 e.symm)
  · exact key (c 2) (by rw [ey]; exact tH_l0) (by rw [h, ey]; exact tH_l0) (fun e => n02 e.symm)
  · exact key (c 3) (by rw [ey]; exact tH_l1) (by rw [h, ey]; exact tH_l1) (fun e => n03 e.symm)
  · exact key (c 4) (by rw [ey]; exact tH_node) (by rw [h, ey]; exact tH_node) (fun e => n04 e.symm)

/-- the log of the tree over `[l0, l1]` (height 1, offset 1), computed -/
theorem treeLog_tH : treeLogOf tH [l0, l1] = [[0], c 2 ++ c 3, l0, l1] := by decide +kernel

/-- the log of the accepted verification below: the claimed leaf and one concatenation -/
theorem verifierLog_tH : verifierLog tH 2 [l1] [c 2] [1] = [l1, c 2 ++ c 3] := by decide +kernel

/-- **the repaired hypotheses are satisfiable and the collision disjunct is not automatic**: a hash with
32-byte outputs, 104-byte leaves and claim, an ACCEPTED batch proof with one 32-byte path value, and NO
collision between the tree's log and the verifier's log; the second and third disjunct of
`C09_stm_sound_witness` are false here, so acceptance alone yields "the claim is the committed leaf". -/
theorem sat_witness :
    (∀ x, (tH x).length = 32) ∧ (∀ l ∈ [l0, l1], l.length = 104) ∧ (∀ cl ∈ [l1], cl.length = 104) ∧
    verifyBatch tH (treeRoot tH [l0, l1]) [l0, l1].length [l1] [c 2] [1] = .ok ∧
    NoCollisionBetween tH (treeLogOf tH [l0, l1]) (verifierLog tH [l0, l1].length [l1] [c 2] [1]) ∧
    ¬ (∃ y ∈ treeLogOf tH [l0, l1], ∃ x ∈ verifierLog tH [l0, l1].length [l1] [c 2] [1], x ≠ y ∧ tH x = tH y) ∧
    ¬ (∃ v ∈ [c 2], v.length ≠ 32) := by
  have hns : ∀ X, NoCollisionBetween tH (treeLogOf tH [l0, l1]) X := by
    intro X y hy x _ hxy
    rw [treeLog_tH] at hy
    simp only [List.mem_cons, List.mem_nil_iff, or_false] at hy
    exact tH_unique (by tauto) hxy
  refine ⟨tH_len, by decide +kernel, by decide +kernel, by decide +kernel, hns _, ?_, by decide +kernel⟩
  rintro ⟨y, hy, x, hx, hne, he⟩
  exact hne (hns _ y hy x hx he)

/-- … whereas the ORIGINAL second disjunct holds for this very `tH` (as for every hash) -/
example : Collision tH := collision_of_fixed_length tH 32 tH_len

/-- the verifier is not "accept everything" on this world: a foreign leaf is rejected -/
example : verifyBatch tH (treeRoot tH [l0, l1]) 2 [List.replicate 104 7] [c 2] [1] = .err := by decide +kernel

/-- `C09_stm_root_injective_witness`: hypotheses on the same world (`h = 1`), interesting case `L = L'` forced -/
example : (∀ l ∈ [l0, l1], l.length = 104) ∧ [l0, l1].length ≤ 2 ^ 1 ∧
    NoCollisionBetween tH (treeLog tH [l0, l1] (2 ^ 1 - 1) 1) (treeLog tH [l0, l1] (2 ^ 1 - 1) 1) := by
  refine ⟨by decide +kernel, by decide, ?_⟩
  intro y hy x _ hxy
  have : treeLog tH [l0, l1] (2 ^ 1 - 1) 1 = [[0], c 2 ++ c 3, l0, l1] := by decide +kernel
  rw [this] at hy
  simp only [List.mem_cons, List.mem_nil_iff, or_false] at hy
  exact tH_unique (by tauto) hxy

/-! ## remaining C09 theorems: hypotheses that are plain (in)equalities -/

/-- `C09_stm_rejects_length_mismatch`, `C09_stm_rejects_unsorted` -/
example : ([l0] : List Bytes).length ≠ ([] : List Nat).length ∧
    ([l0, l1] : List Bytes).length = [1, 0].length ∧ sortedLE [1, 0] = false := by decide

/-- `C09_stm_complete(_u32)` is instantiated by the `toyH` examples of `Properties/C09.lean`; here all
hypotheses spelled out -/
example : toyLeaves ≠ [] ∧ toyLeaves.length < 2 ^ 63 ∧ ([0, 2, 4] : List Nat) ≠ [] ∧
    ([0, 2, 4] : List Nat).Pairwise (· < ·) ∧ ∀ i ∈ [0, 2, 4], i < toyLeaves.length := by
  refine ⟨by decide, by decide, by decide, by decide, by decide⟩

end Vacuity.C09

namespace Vacuity.C09
/-! ## repair of C09(b): `MKProof` soundness at BYTE level, every exceptional case named

`merge a b = H (a ++ b)` is not injective (F3), so the value-level `C09_mkproof_sound` says nothing about the
byte-level verifier. Here: whatever an accepted proof `contains` is the value of a SUB-TREE of the committed
tree (a leaf, or — the known finding "node as leaf" — an inner node), or one of three explicit coincidences
between the finite log of the verifier's run and the finite log of the committed tree's computation. -/
open StmBatch ExprTree MkProof Mmr

/-- the byte-level merge of `MKTree` / `MKProof` -/
abbrev bmerge (H : Bytes → Bytes) (a b : Bytes) : Bytes := H (a ++ b)

abbrev tval (H : Bytes → Bytes) (t : E Bytes) : Bytes := eval (bmerge H) t
abbrev vval (H : Bytes → Bytes) (v : V Bytes) : Bytes := veval (bmerge H) v

/-- strings hashed while the committed tree is evaluated, and the (left, right) child values -/
def tlog (H : Bytes → Bytes) : E Bytes → List Bytes
  | .leaf _ => []
  | .node l r => (tval H l ++ tval H r) :: (tlog H l ++ tlog H r)
def tpairs (H : Bytes → Bytes) : E Bytes → List (Bytes × Bytes)
  | .leaf _ => []
  | .node l r => (tval H l, tval H r) :: (tpairs H l ++ tpairs H r)

/-- the same for the verifier's expression over claimed leaves and proof items -/
def vlog (H : Bytes → Bytes) : V Bytes → List Bytes
  | .claim _ => []
  | .item _ => []
  | .node l r => (vval H l ++ vval H r) :: (vlog H l ++ vlog H r)
def vpairs (H : Bytes → Bytes) : V Bytes → List (Bytes × Bytes)
  | .claim _ => []
  | .item _ => []
  | .node l r => (vval H l, vval H r) :: (vpairs H l ++ vpairs H r)

/-- the three explicit coincidences: (1) two DIFFERENT hashed strings, one of each log, with the same hash;
(2) a committed leaf IS a hash the verifier computed; (3) a concatenation hashed by the verifier equals one
hashed for the tree but splits at another point (known finding "concat split") -/
def Expl (H : Bytes → Bytes) (VL : List Bytes) (VP : List (Bytes × Bytes)) (TL : List Bytes)
    (TP : List (Bytes × Bytes)) (LV : List Bytes) : Prop :=
  (∃ a ∈ VL, ∃ b ∈ TL, a ≠ b ∧ H a = H b) ∨
  (∃ b ∈ LV, ∃ y ∈ VL, b = H y) ∨
  (∃ p ∈ VP, ∃ q ∈ TP, p.1 ++ p.2 = q.1 ++ q.2 ∧ p.1.length ≠ q.1.length)

theorem Expl.mono {H : Bytes → Bytes} {VL VL' : List Bytes} {VP VP' : List (Bytes × Bytes)} {TL TL' : List Bytes}
    {TP TP' : List (Bytes × Bytes)} {LV LV' : List Bytes} (h : Expl H VL VP TL TP LV)
    (h1 : ∀ a ∈ VL, a ∈ VL') (h2 : ∀ a ∈ VP, a ∈ VP') (h3 : ∀ a ∈ TL, a ∈ TL') (h4 : ∀ a ∈ TP, a ∈ TP')
    (h5 : ∀ a ∈ LV, a ∈ LV') : Expl H VL' VP' TL' TP' LV' := by
  rcases h with ⟨a, ha, b, hb, hne, he⟩ | ⟨b, hb, y, hy, he⟩ | ⟨p, hp, q, hq, he, hl⟩
  · exact Or.inl ⟨a, h1 a ha, b, h3 b hb, hne, he⟩
  · exact Or.inr (Or.inl ⟨b, h5 b hb, y, h1 y hy, he⟩)
  · exact Or.inr (Or.inr ⟨p, h2 p hp, q, h4 q hq, he, hl⟩)

/-- **byte-level `claim_is_subtree_value`**: NO hypothesis on `H` -/
theorem claim_cases (H : Bytes → Bytes) : ∀ (v : V Bytes) (t : E Bytes), vval H v = tval H t →
    ∀ x ∈ claims v, (∃ s ∈ subtrees t, x = tval H s) ∨
      Expl H (vlog H v) (vpairs H v) (tlog H t) (tpairs H t) (leaves t) := by
  intro v
  induction v with
  | claim a =>
    intro t h x hx
    simp [claims] at hx; subst hx
    exact Or.inl ⟨t, self_mem_subtrees t, by simpa [vval, veval] using h⟩
  | item a => intro t h x hx; simp [claims] at hx
  | node vl vr ihl ihr =>
    intro t h x hx
    cases t with
    | leaf b =>
      right; right; left
      exact ⟨b, by simp [leaves], vval H vl ++ vval H vr, by simp [vlog], by simpa [vval, veval, tval, eval] using h.symm⟩
    | node tl tr =>
      have h' : H (vval H vl ++ vval H vr) = H (tval H tl ++ tval H tr) := by
        simpa [vval, veval, tval, eval] using h
      by_cases e : vval H vl ++ vval H vr = tval H tl ++ tval H tr
      · by_cases hl : (vval H vl).length = (tval H tl).length
        · obtain ⟨h1, h2⟩ := List.append_inj e hl
          simp only [claims, List.mem_append] at hx
          rcases hx with hx | hx
          · rcases ihl tl h1 x hx with ⟨s, hs, hv⟩ | hE
            · exact Or.inl ⟨s, by simp [subtrees, hs], hv⟩
            · refine Or.inr (hE.mono ?_ ?_ ?_ ?_ ?_) <;> intro a ha <;>
                simp [vlog, vpairs, tlog, tpairs, leaves, ha]
          · rcases ihr tr h2 x hx with ⟨s, hs, hv⟩ | hE
            · exact Or.inl ⟨s, by simp [subtrees, hs], hv⟩
            · refine Or.inr (hE.mono ?_ ?_ ?_ ?_ ?_) <;> intro a ha <;>
                simp [vlog, vpairs, tlog, tpairs, leaves, ha]
        · right; right; right
          exact ⟨(vval H vl, vval H vr), by simp [vpairs], (tval H tl, tval H tr), by simp [tpairs], e, hl⟩
      · right; left
        exact ⟨_, by simp [vlog], _, by simp [tlog], e, h'⟩

/-- the verifier's expression: `calculate_root` run on symbolic items (claimed leaves and proof items) -/
def verifierExpr (p : Proof Bytes) : Option (V Bytes) :=
  calcRoot V.node (fuelFor p) p.size (mapL V.claim p.leaves) (p.items.map V.item)

/-- **the log of `MKProof::verify`** (concatenations it hashes) and the child pairs -/
def proofLog (H : Bytes → Bytes) (p : Proof Bytes) : List Bytes :=
  match verifierExpr p with
  | some e => vlog H e
  | none => []
def proofPairs (H : Bytes → Bytes) (p : Proof Bytes) : List (Bytes × Bytes) :=
  match verifierExpr p with
  | some e => vpairs H e
  | none => []

/-- `proofLog` IS the log of an instrumented run of the verifier (each merge hashes `a ++ b` and records it,
`MmrBytes.mergeLog`), and its value the computed root -/
theorem proofLog_faithful (H : Bytes → Bytes) (p : Proof Bytes) :
    calcRoot (MmrBytes.mergeLog H) (fuelFor p) p.size (mapL (fun a => (a, [])) p.leaves) (p.items.map fun a => (a, []))
      = (calcRoot (bmerge H) (fuelFor p) p.size p.leaves p.items).map fun r => (r, proofLog H p) := by
  have hom1 : ∀ a b : V Bytes, (fun v => (vval H v, vlog H v)) (V.node a b)
      = MmrBytes.mergeLog H ((fun v => (vval H v, vlog H v)) a) ((fun v => (vval H v, vlog H v)) b) := fun _ _ => rfl
  have m1 := calcRoot_map V.node (MmrBytes.mergeLog H) (fun v => (vval H v, vlog H v)) hom1 (fuelFor p) p.size
    (mapL V.claim p.leaves) (p.items.map V.item)
  have hom2 : ∀ a b : V Bytes, vval H (V.node a b) = bmerge H (vval H a) (vval H b) := fun _ _ => rfl
  have m2 := calcRoot_map V.node (bmerge H) (vval H) hom2 (fuelFor p) p.size
    (mapL V.claim p.leaves) (p.items.map V.item)
  have e1 : mapL (fun v => (vval H v, vlog H v)) (mapL V.claim p.leaves) = mapL (fun a => (a, [])) p.leaves := by
    simp only [mapL, List.map_map]; apply List.map_congr_left; intro e _; rfl
  have e2 : (p.items.map V.item).map (fun v => (vval H v, vlog H v)) = p.items.map fun a => (a, []) := by
    simp only [List.map_map]; apply List.map_congr_left; intro e _; rfl
  have e3 : mapL (vval H) (mapL V.claim p.leaves) = p.leaves := by
    simp only [mapL, List.map_map]
    conv => rhs; rw [← List.map_id p.leaves]
    apply List.map_congr_left; intro e _; rfl
  have e4 : (p.items.map V.item).map (vval H) = p.items := by
    simp only [List.map_map]
    conv => rhs; rw [← List.map_id p.items]
    apply List.map_congr_left; intro e _; rfl
  rw [e1, e2] at m1; rw [e3, e4] at m2
  rw [m1, m2]
  unfold proofLog verifierExpr
  cases calcRoot V.node (fuelFor p) p.size (mapL V.claim p.leaves) (p.items.map V.item) <;> rfl

/-- an accepted proof: its expression exists, evaluates to the root, and every listed leaf is a claim of it
(`MapLink.verify_gives_expr` with the expression named) -/
theorem verify_expr (H : Bytes → Bytes) (p : Proof Bytes) (hv : MkProof.verify (bmerge H) p = true) :
    ∃ e, verifierExpr p = some e ∧ vval H e = p.root ∧ ∀ l ∈ p.leaves, l.2 ∈ claims e := by
  unfold MkProof.verify at hv
  simp only [Bool.and_eq_true, beq_iff_eq] at hv
  obtain ⟨hnc, hcalc⟩ := hv
  have hom : ∀ a b : V Bytes, vval H (V.node a b) = bmerge H (vval H a) (vval H b) := fun _ _ => rfl
  have hmap := calcRoot_map V.node (bmerge H) (vval H) hom (fuelFor p) p.size
    (mapL V.claim p.leaves) (p.items.map V.item)
  have h1 : mapL (vval H) (mapL V.claim p.leaves) = p.leaves := by
    simp only [mapL, List.map_map]
    conv => rhs; rw [← List.map_id p.leaves]
    apply List.map_congr_left; intro e _; rfl
  have h2 : (p.items.map V.item).map (vval H) = p.items := by
    simp only [List.map_map]
    conv => rhs; rw [← List.map_id p.items]
    apply List.map_congr_left; intro e _; rfl
  rw [h1, h2, hcalc] at hmap
  unfold verifierExpr
  cases he : calcRoot V.node (fuelFor p) p.size (mapL V.claim p.leaves) (p.items.map V.item) with
  | none => rw [he] at hmap; simp at hmap
  | some e =>
    rw [he] at hmap
    simp only [Option.map_some, Option.some.injEq] at hmap
    refine ⟨e, rfl, hmap.symm, ?_⟩
    intro l hl
    obtain ⟨y, hy, hpos⟩ := dedupPos_pos (sortPos p.leaves) l ((mem_sortPos _ _).mpr hl)
    have hyl : y ∈ p.leaves := (mem_sortPos _ _).mp (dedupPos_sub _ y hy)
    have hval : y.2 = l.2 := noConflict_spec hnc y hyl l hl hpos
    have hy' : (y.1, V.claim y.2) ∈ dedupPos (sortPos (mapL V.claim p.leaves)) := by
      rw [sortPos_mapL, dedupPos_mapL]
      simp only [mapL, List.mem_map]
      exact ⟨y, hy, rfl⟩
    have := calcRoot_cover (fuelFor p) p.size _ _ e he _ hy' y.2 (by simp [claims])
    rw [hval] at this
    exact this

/-- **repaired `C09_mkproof_sound`, byte level, no hypothesis on the hash**: whatever an accepted proof
against the root of the committed tree `t` contains is the value of a sub-tree of `t`, or one of the three
named coincidences between the verifier's log and the tree's log occurred -/
theorem C09_mkproof_sound_witness (H : Bytes → Bytes) (t : E Bytes) (p : Proof Bytes)
    (hroot : p.root = tval H t) (hv : MkProof.verify (bmerge H) p = true)
    (x : Bytes) (hc : MkProof.contains p [x] = true) :
    (∃ s ∈ subtrees t, x = tval H s) ∨
      Expl H (proofLog H p) (proofPairs H p) (tlog H t) (tpairs H t) (leaves t) := by
  obtain ⟨e, he, hval, hcl⟩ := verify_expr H p hv
  simp only [MkProof.contains, List.all_cons, List.all_nil, Bool.and_true, List.any_eq_true, beq_iff_eq] at hc
  obtain ⟨l, hl, rfl⟩ := hc
  have := claim_cases H e t (by rw [hval, hroot]) l.2 (hcl l hl)
  unfold proofLog proofPairs
  rw [he]
  exact this

/-- … for committed leaves and a contained value whose length is not the hash length (`H` with 32-byte
outputs): the contained value IS a committed leaf, and the "committed leaf is a hash" case cannot occur -/
theorem C09_mkproof_sound_witness_sized (H : Bytes → Bytes) (hH : ∀ x, (H x).length = 32) (t : E Bytes)
    (hT : ∀ a ∈ leaves t, a.length ≠ 32) (p : Proof Bytes)
    (hroot : p.root = tval H t) (hv : MkProof.verify (bmerge H) p = true)
    (x : Bytes) (hc : MkProof.contains p [x] = true) (hx : x.length ≠ 32) :
    x ∈ leaves t ∨
    (∃ a ∈ proofLog H p, ∃ b ∈ tlog H t, a ≠ b ∧ H a = H b) ∨
    (∃ pq ∈ proofPairs H p, ∃ q ∈ tpairs H t, pq.1 ++ pq.2 = q.1 ++ q.2 ∧ pq.1.length ≠ q.1.length) := by
  rcases C09_mkproof_sound_witness H t p hroot hv x hc with ⟨s, hs, hxs⟩ | h | h | h
  · cases s with
    | leaf b =>
      left
      have : x = b := by simpa [tval, eval] using hxs
      subst this
      exact leaves_of_subtree hs x (by simp [leaves])
    | node l r =>
      exfalso
      apply hx
      rw [hxs]
      simp [tval, eval, hH]
  · exact Or.inr (Or.inl h)
  · exfalso
    obtain ⟨b, hb, y, _, he⟩ := h
    exact hT b hb (by rw [he]; exact hH y)
  · exact Or.inr (Or.inr h)

/-! ### a world that satisfies every hypothesis: two 64-byte leaves, table hash -/

def d1 : Bytes := List.replicate 64 49
def d2 : Bytes := List.replicate 64 50
def hM (x : Bytes) : Bytes := if x = d1 ++ d2 then c 1 else c 0

theorem hM_len (x : Bytes) : (hM x).length = 32 := by unfold hM; split <;> simp [c]

def tM : E Bytes := .node (.leaf d1) (.leaf d2)
def pM : Proof Bytes := { root := c 1, leaves := [(0, d1)], size := 3, items := [d2] }

/-- **`C09_mkproof_sound_witness(_sized)`: all hypotheses at once and every exceptional disjunct false** — an
ACCEPTED byte-level proof; `x` is a committed leaf -/
theorem sat_mkproof_witness :
    (∀ x, (hM x).length = 32) ∧ (∀ a ∈ leaves tM, a.length ≠ 32) ∧ pM.root = tval hM tM ∧
    MkProof.verify (bmerge hM) pM = true ∧ MkProof.contains pM [d1] = true ∧ d1.length ≠ 32 ∧
    proofLog hM pM = [d1 ++ d2] ∧ tlog hM tM = [d1 ++ d2] ∧
    ¬ Expl hM (proofLog hM pM) (proofPairs hM pM) (tlog hM tM) (tpairs hM tM) (leaves tM) := by
  have e1 : proofLog hM pM = [d1 ++ d2] := by decide +kernel
  have e2 : tlog hM tM = [d1 ++ d2] := by decide +kernel
  have e3 : proofPairs hM pM = [(d1, d2)] := by decide +kernel
  have e4 : tpairs hM tM = [(d1, d2)] := by decide +kernel
  have e5 : leaves tM = [d1, d2] := rfl
  refine ⟨hM_len, by decide +kernel, by decide +kernel, by decide +kernel, by decide +kernel, by decide +kernel,
    e1, e2, ?_⟩
  rw [e1, e2, e3, e4, e5]
  rintro (⟨a, ha, b, hb, hne, _⟩ | ⟨b, hb, y, hy, he⟩ | ⟨p, hp, q, hq, _, hl⟩)
  · simp only [List.mem_cons, List.mem_nil_iff, or_false] at ha hb
    exact hne (ha.trans hb.symm)
  · simp only [List.mem_cons, List.mem_nil_iff, or_false] at hb hy
    subst hy
    have : (hM (d1 ++ d2)).length = 32 := hM_len _
    rcases hb with rfl | rfl <;> rw [← he] at this <;> revert this <;> decide +kernel
  · simp only [List.mem_cons, List.mem_nil_iff, or_false] at hp hq
    subst hp; subst hq
    exact hl rfl


/-! ## repair of C09(c): nested `MKMapProof` at byte level -/

theorem tlog_of_subtree {H : Bytes → Bytes} {s t : E Bytes} (h : s ∈ subtrees t) : ∀ a ∈ tlog H s, a ∈ tlog H t := by
  induction t with
  | leaf a => simp [subtrees] at h; subst h; exact fun _ h => h
  | node l r ihl ihr =>
    simp only [subtrees, List.mem_cons, List.mem_append] at h
    rcases h with rfl | h | h
    · exact fun _ h => h
    · intro a ha; simp only [tlog, List.mem_cons, List.mem_append]; exact Or.inr (Or.inl (ihl h a ha))
    · intro a ha; simp only [tlog, List.mem_cons, List.mem_append]; exact Or.inr (Or.inr (ihr h a ha))

theorem tpairs_of_subtree {H : Bytes → Bytes} {s t : E Bytes} (h : s ∈ subtrees t) :
    ∀ a ∈ tpairs H s, a ∈ tpairs H t := by
  induction t with
  | leaf a => simp [subtrees] at h; subst h; exact fun _ h => h
  | node l r ihl ihr =>
    simp only [subtrees, List.mem_cons, List.mem_append] at h
    rcases h with rfl | h | h
    · exact fun _ h => h
    · intro a ha; simp only [tpairs, List.mem_cons, List.mem_append]; exact Or.inr (Or.inl (ihl h a ha))
    · intro a ha; simp only [tpairs, List.mem_cons, List.mem_append]; exact Or.inr (Or.inr (ihr h a ha))

/-- **the log of `MKMapProof::verify`**: the logs of the master proof and of every sub-proof at any depth, and
the link strings `key ++ sub-root` -/
inductive InMapLog (H : Bytes → Bytes) : MapProof Bytes → Bytes → Prop where
  | master {p : MapProof Bytes} {a : Bytes} : a ∈ proofLog H p.master → InMapLog H p a
  | link {p : MapProof Bytes} {k : Bytes} {q : MapProof Bytes} : (k, q) ∈ p.subs → InMapLog H p (k ++ q.master.root)
  | sub {p : MapProof Bytes} {k : Bytes} {q : MapProof Bytes} {a : Bytes} :
      (k, q) ∈ p.subs → InMapLog H q a → InMapLog H p a

inductive InMapPairs (H : Bytes → Bytes) : MapProof Bytes → Bytes × Bytes → Prop where
  | master {p : MapProof Bytes} {a : Bytes × Bytes} : a ∈ proofPairs H p.master → InMapPairs H p a
  | link {p : MapProof Bytes} {k : Bytes} {q : MapProof Bytes} : (k, q) ∈ p.subs → InMapPairs H p (k, q.master.root)
  | sub {p : MapProof Bytes} {k : Bytes} {q : MapProof Bytes} {a : Bytes × Bytes} :
      (k, q) ∈ p.subs → InMapPairs H q a → InMapPairs H p a

/-- the three named coincidences, for a nested proof -/
def ExplM (H : Bytes → Bytes) (p : MapProof Bytes) (t : E Bytes) : Prop :=
  (∃ a, InMapLog H p a ∧ ∃ b ∈ tlog H t, a ≠ b ∧ H a = H b) ∨
  (∃ b ∈ leaves t, ∃ y, InMapLog H p y ∧ b = H y) ∨
  (∃ pq, InMapPairs H p pq ∧ ∃ q ∈ tpairs H t, pq.1 ++ pq.2 = q.1 ++ q.2 ∧ pq.1.length ≠ q.1.length)

theorem ExplM.of_master {H : Bytes → Bytes} {p : MapProof Bytes} {t : E Bytes}
    (h : Expl H (proofLog H p.master) (proofPairs H p.master) (tlog H t) (tpairs H t) (leaves t)) : ExplM H p t := by
  rcases h with ⟨a, ha, b, hb, hne, he⟩ | ⟨b, hb, y, hy, he⟩ | ⟨pq, hp, q, hq, he, hl⟩
  · exact Or.inl ⟨a, .master ha, b, hb, hne, he⟩
  · exact Or.inr (Or.inl ⟨b, hb, y, .master hy, he⟩)
  · exact Or.inr (Or.inr ⟨pq, .master hp, q, hq, he, hl⟩)

theorem ExplM.of_sub {H : Bytes → Bytes} {p q : MapProof Bytes} {k : Bytes} {s t : E Bytes} (hq : (k, q) ∈ p.subs)
    (hs : s ∈ subtrees t) (h : ExplM H q s) : ExplM H p t := by
  rcases h with ⟨a, ha, b, hb, hne, he⟩ | ⟨b, hb, y, hy, he⟩ | ⟨pq, hp, r, hr, he, hl⟩
  · exact Or.inl ⟨a, .sub hq ha, b, tlog_of_subtree hs b hb, hne, he⟩
  · exact Or.inr (Or.inl ⟨b, leaves_of_subtree hs b hb, y, .sub hq hy, he⟩)
  · exact Or.inr (Or.inr ⟨pq, .sub hq hp, r, tpairs_of_subtree hs r hr, he, hl⟩)

theorem containsSubs_mem {subs : List (Bytes × MapProof Bytes)} {x : Bytes} (h : containsSubs subs x = true) :
    ∃ k q, (k, q) ∈ subs ∧ q.contains x = true := by
  induction subs with
  | nil => simp [containsSubs] at h
  | cons a r ihr =>
    obtain ⟨k, q⟩ := a
    simp only [containsSubs, Bool.or_eq_true] at h
    rcases h with h | h
    · exact ⟨k, q, by simp, h⟩
    · obtain ⟨k', q', hm, hc⟩ := ihr h
      exact ⟨k', q', by simp [hm], hc⟩

theorem map_sound_aux (H : Bytes → Bytes) : ∀ (n : Nat) (p : MapProof Bytes) (x : Bytes) (t : E Bytes),
    sizeOf p ≤ n → p.verify (bmerge H) = true → p.contains x = true → p.master.root = tval H t →
    (∃ s ∈ subtrees t, x = tval H s) ∨ ExplM H p t := by
  intro n
  induction n with
  | zero => intro p x t hs; cases p with | mk m subs => simp at hs
  | succ n ih =>
    intro p x t hs hv hc hr
    cases p with
    | mk m subs =>
      simp only [MapProof.verify, Bool.and_eq_true, Bool.or_eq_true] at hv
      obtain ⟨⟨hsubs, hm⟩, hlink⟩ := hv
      simp only [MapProof.contains, Bool.or_eq_true] at hc
      have hr' : m.root = tval H t := hr
      rcases hc with hc | hc
      · rcases C09_mkproof_sound_witness H t m hr' hm x hc with h | h
        · exact Or.inl h
        · exact Or.inr (ExplM.of_master h)
      · obtain ⟨k, q, hq, hcq⟩ := containsSubs_mem hc
        have hq' : (k, q) ∈ (MapProof.mk m subs).subs := hq
        have hlt : sizeOf q ≤ n := by
          have h1 := List.sizeOf_lt_of_mem hq
          simp only [MapProof.mk.sizeOf_spec, Prod.mk.sizeOf_spec] at h1 hs
          omega
        -- the link node is a listed leaf of the master proof, hence a claim of its expression
        have hl : bmerge H k q.master.root ∈ m.leaves.map (·.2) := by
          rcases hlink with hempty | hcl
          · cases subs with
            | nil => simp at hq
            | cons _ _ => simp at hempty
          · exact MapLink.contains_all hcl _ (MapLink.linkNodes_mem (bmerge H) hq)
        obtain ⟨lf, hlf, hlv⟩ := List.mem_map.mp hl
        obtain ⟨e, he, hval, hcl⟩ := verify_expr H m hm
        have hcase := claim_cases H e t (by rw [hval, hr']) _ (hcl lf hlf)
        rw [hlv] at hcase
        rcases hcase with ⟨s, hs', hv'⟩ | hE
        · cases s with
          | leaf b =>
            right; right; left
            refine ⟨b, leaves_of_subtree hs' b (by simp [leaves]), k ++ q.master.root, .link hq', ?_⟩
            simpa [tval, eval, bmerge] using hv'.symm
          | node l r' =>
            have hh : H (k ++ q.master.root) = H (tval H l ++ tval H r') := by
              simpa [tval, eval, bmerge] using hv'
            by_cases e1 : k ++ q.master.root = tval H l ++ tval H r'
            · by_cases e2 : k.length = (tval H l).length
              · obtain ⟨_, hroot⟩ := List.append_inj e1 e2
                have hsub : r' ∈ subtrees t :=
                  subtrees_trans (by simp [subtrees, self_mem_subtrees]) hs'
                rcases ih q x r' hlt (MapLink.verifySubs_mem (bmerge H) hsubs hq) hcq hroot with ⟨s2, hs2, hx2⟩ | hE2
                · exact Or.inl ⟨s2, subtrees_trans hs2 hsub, hx2⟩
                · exact Or.inr (ExplM.of_sub hq' hsub hE2)
              · right; right; right
                exact ⟨(k, q.master.root), .link hq', (tval H l, tval H r'),
                  tpairs_of_subtree hs' _ (by simp [tpairs]), e1, e2⟩
            · right; left
              exact ⟨k ++ q.master.root, .link hq', tval H l ++ tval H r',
                tlog_of_subtree hs' _ (by simp [tlog]), e1, hh⟩
        · have : Expl H (proofLog H m) (proofPairs H m) (tlog H t) (tpairs H t) (leaves t) := by
            unfold proofLog proofPairs; rw [he]; exact hE
          exact Or.inr (ExplM.of_master this)

/-- **repaired `C09_map_exec_sound` / `C09_map_sound`, byte level, no hypothesis on the hash**: whatever an
accepted nested proof of any depth contains is the value of a sub-tree of the single expression tree its
master root commits to — or a named coincidence between the nested verifier's log and the tree's log -/
theorem C09_map_exec_sound_witness (H : Bytes → Bytes) (p : MapProof Bytes) (x : Bytes)
    (hv : p.verify (bmerge H) = true) (hc : p.contains x = true)
    (t : E Bytes) (hr : p.master.root = tval H t) :
    (∃ s ∈ subtrees t, x = tval H s) ∨ ExplM H p t :=
  map_sound_aux H (sizeOf p) p x t (Nat.le_refl _) hv hc hr

/-- … with 32-byte `H`, committed leaves (keys and elements) and a contained value of other lengths: the value
IS a committed leaf, or two different hashed strings collide, or a concatenation splits at two points -/
theorem C09_map_exec_sound_witness_sized (H : Bytes → Bytes) (hH : ∀ x, (H x).length = 32)
    (p : MapProof Bytes) (x : Bytes) (hv : p.verify (bmerge H) = true) (hc : p.contains x = true)
    (t : E Bytes) (hr : p.master.root = tval H t) (hT : ∀ a ∈ leaves t, a.length ≠ 32) (hx : x.length ≠ 32) :
    x ∈ leaves t ∨
    (∃ a, InMapLog H p a ∧ ∃ b ∈ tlog H t, a ≠ b ∧ H a = H b) ∨
    (∃ pq, InMapPairs H p pq ∧ ∃ q ∈ tpairs H t, pq.1 ++ pq.2 = q.1 ++ q.2 ∧ pq.1.length ≠ q.1.length) := by
  rcases C09_map_exec_sound_witness H p x hv hc t hr with ⟨s, hs, hxs⟩ | h | h | h
  · cases s with
    | leaf b =>
      left
      have : x = b := by simpa [tval, eval] using hxs
      subst this
      exact leaves_of_subtree hs x (by simp [leaves])
    | node l r =>
      exfalso
      apply hx
      rw [hxs]
      simp [tval, eval, hH]
  · exact Or.inr (Or.inl h)
  · exfalso
    obtain ⟨b, hb, y, _, he⟩ := h
    exact hT b hb (by rw [he]; exact hH y)
  · exact Or.inr (Or.inr h)

/-! ### a nested world: two keyed sub-trees, table hash; all hypotheses hold and `ExplM` is false -/

/-- a table hash: listed inputs get their listed value, everything else `dflt` -/
def tableH (tb : List (Bytes × Bytes)) (dflt : Bytes) (x : Bytes) : Bytes :=
  match tb.find? (fun e => e.1 = x) with
  | some e => e.2
  | none => dflt

/-- with pairwise different listed values, all different from the default, a listed input has no second
pre-image -/
theorem tableH_unique (tb : List (Bytes × Bytes)) (dflt : Bytes) (hnd : (tb.map (·.2)).Nodup)
    (hd : dflt ∉ tb.map (·.2)) : ∀ y ∈ tb.map (·.1), ∀ x, tableH tb dflt x = tableH tb dflt y → x = y := by
  intro y hy x h
  obtain ⟨e0, he0, rfl⟩ := List.mem_map.mp hy
  have hfy : ∃ e, tb.find? (fun e => e.1 = e0.1) = some e := by
    cases hf : tb.find? (fun e => e.1 = e0.1) with
    | some e => exact ⟨e, rfl⟩
    | none =>
      have := List.find?_eq_none.mp hf e0 he0
      simp at this
  obtain ⟨e, hfe⟩ := hfy
  have hem : e ∈ tb := List.mem_of_find?_eq_some hfe
  have hek : e.1 = e0.1 := by simpa using List.find?_some hfe
  unfold tableH at h
  rw [hfe] at h
  cases hfx : tb.find? (fun e => e.1 = x) with
  | none =>
    rw [hfx] at h
    exact absurd (List.mem_map.mpr ⟨e, hem, h.symm⟩) hd
  | some e' =>
    rw [hfx] at h
    have hem' : e' ∈ tb := List.mem_of_find?_eq_some hfx
    have hek' : e'.1 = x := by simpa using List.find?_some hfx
    have : e' = e := List.inj_on_of_nodup_map hnd hem' hem h
    rw [← hek', this, hek]

def k1 : Bytes := List.replicate 5 107
def k2 : Bytes := List.replicate 5 108
def a1 : Bytes := List.replicate 64 49
def a2 : Bytes := List.replicate 64 50
def b1 : Bytes := List.replicate 64 51
def b2 : Bytes := List.replicate 64 52

def tbN : List (Bytes × Bytes) :=
  [(a1 ++ a2, c 1), (k1 ++ c 1, c 2), (b1 ++ b2, c 3), (k2 ++ c 3, c 4), (c 2 ++ c 4, c 5)]
def hN : Bytes → Bytes := tableH tbN (c 0)

theorem hN_len (x : Bytes) : (hN x).length = 32 := by
  unfold hN tableH
  split
  · rename_i e he
    have := List.mem_of_find?_eq_some he
    simp only [tbN, List.mem_cons, List.mem_nil_iff, or_false] at this
    rcases this with rfl | rfl | rfl | rfl | rfl <;> simp [c]
  · simp [c]

def subN : Proof Bytes := { root := c 1, leaves := [(0, a1)], size := 3, items := [a2] }
def masterN : Proof Bytes := { root := c 5, leaves := [(0, c 2)], size := 3, items := [c 4] }
def mapN : MapProof Bytes := .mk masterN [(k1, .mk subN [])]
/-- the single tree the master root commits to: keys and elements are its leaves -/
def tN : E Bytes :=
  .node (.node (.leaf k1) (.node (.leaf a1) (.leaf a2))) (.node (.leaf k2) (.node (.leaf b1) (.leaf b2)))

theorem inMapLog_N {a : Bytes} (h : InMapLog hN mapN a) : a ∈ tlog hN tN := by
  have e1 : proofLog hN masterN = [c 2 ++ c 4] := by decide +kernel
  have e2 : proofLog hN subN = [a1 ++ a2] := by decide +kernel
  have e3 : tlog hN tN = [c 2 ++ c 4, k1 ++ c 1, a1 ++ a2, k2 ++ c 3, b1 ++ b2] := by decide +kernel
  rw [e3]
  cases h with
  | master h => have : mapN.master = masterN := rfl
                rw [this, e1] at h; simp at h; simp [h]
  | link hq =>
    have : mapN.subs = [(k1, .mk subN [])] := rfl
    rw [this] at hq; simp at hq; obtain ⟨rfl, rfl⟩ := hq
    simp [MapProof.master, subN]
  | sub hq h2 =>
    have : mapN.subs = [(k1, .mk subN [])] := rfl
    rw [this] at hq; simp at hq; obtain ⟨rfl, rfl⟩ := hq
    cases h2 with
    | master h => have : (MapProof.mk subN []).master = subN := rfl
                  rw [this, e2] at h; simp at h; simp [h]
    | link hq2 => simp [MapProof.subs] at hq2
    | sub hq2 _ => simp [MapProof.subs] at hq2

theorem inMapPairs_N {a : Bytes × Bytes} (h : InMapPairs hN mapN a) : a ∈ tpairs hN tN := by
  have e1 : proofPairs hN masterN = [(c 2, c 4)] := by decide +kernel
  have e2 : proofPairs hN subN = [(a1, a2)] := by decide +kernel
  have e3 : tpairs hN tN = [(c 2, c 4), (k1, c 1), (a1, a2), (k2, c 3), (b1, b2)] := by decide +kernel
  rw [e3]
  cases h with
  | master h => have : mapN.master = masterN := rfl
                rw [this, e1] at h; simp at h; simp [h]
  | link hq =>
    have : mapN.subs = [(k1, .mk subN [])] := rfl
    rw [this] at hq; simp at hq; obtain ⟨rfl, rfl⟩ := hq
    simp [MapProof.master, subN]
  | sub hq h2 =>
    have : mapN.subs = [(k1, .mk subN [])] := rfl
    rw [this] at hq; simp at hq; obtain ⟨rfl, rfl⟩ := hq
    cases h2 with
    | master h => have : (MapProof.mk subN []).master = subN := rfl
                  rw [this, e2] at h; simp at h; simp [h]
    | link hq2 => simp [MapProof.subs] at hq2
    | sub hq2 _ => simp [MapProof.subs] at hq2

/-- **`C09_map_exec_sound_witness(_sized)`: all hypotheses at once, every exceptional disjunct false** — an
ACCEPTED nested byte-level proof with a non-empty sub-proof list; the contained value `a1` (found in the
sub-proof) is a committed leaf -/
theorem sat_map_witness :
    (∀ x, (hN x).length = 32) ∧ mapN.verify (bmerge hN) = true ∧ mapN.contains a1 = true ∧
    MkProof.contains mapN.master [a1] = false ∧ mapN.master.root = tval hN tN ∧
    (∀ a ∈ leaves tN, a.length ≠ 32) ∧ a1.length ≠ 32 ∧ ¬ ExplM hN mapN tN := by
  refine ⟨hN_len, by decide +kernel, by decide +kernel, by decide +kernel, by decide +kernel, by decide +kernel,
    by decide +kernel, ?_⟩
  have hu := tableH_unique tbN (c 0) (by decide +kernel) (by decide +kernel)
  rintro (⟨a, ha, b, hb, hne, he⟩ | ⟨b, hb, y, _, he⟩ | ⟨pq, hp, q, hq, he, hl⟩)
  · -- a collision between two logged strings: the table hash has none on the tree's log
    have hsub : ∀ b ∈ tlog hN tN, b ∈ tbN.map (·.1) := by decide +kernel
    exact hne (hu b (hsub b hb) a he)
  · -- a committed leaf that is a hash: lengths
    have h32 : b.length = 32 := by rw [he]; exact hN_len y
    have : ∀ a ∈ leaves tN, a.length ≠ 32 := by decide +kernel
    exact this b hb h32
  · -- a concatenation that splits at two points: every pair of the verifier is a pair of the tree, and the
    -- pairs of the tree have pairwise different concatenations
    have hp' := inMapPairs_N hp
    have e4 : tpairs hN tN = [(c 2, c 4), (k1, c 1), (a1, a2), (k2, c 3), (b1, b2)] := by decide +kernel
    rw [e4] at hp' hq
    have key : ∀ p ∈ [(c 2, c 4), (k1, c 1), (a1, a2), (k2, c 3), (b1, b2)],
        ∀ q ∈ [(c 2, c 4), (k1, c 1), (a1, a2), (k2, c 3), (b1, b2)],
        p.1 ++ p.2 = q.1 ++ q.2 → p.1.length = q.1.length := by decide +kernel
    exact hl (key pq hp' q hq he)

end Vacuity.C09
