import MithrilModel.Properties.C05
/-!
# Vacuity audit — C05

No refutable hypothesis: `Oracle` is a pair of Boolean functions the theorems quantify over, the only hypotheses are the
length bound `< 2^63`, the decidable `WF` / `Routed` predicates on the VALUE at hand and `CompressedKeys O` (about the
oracle at hand; satisfied by `C05.exO`). Existing examples cover the round-trip theorems one hypothesis group at a time;
below the joint instances that were missing, and the interesting branch of the totality theorems (an input on which the
unchecked arithmetic WOULD overflow is an error, not a panic).

NOTES (item 3 of the audit):
* `C05_total_registration_entry`, `C05_total_batch_path`, `C05_total_signature_with_party` hold because the model of these
  decoders contains no `addU`/`mulU` at all (only `checked_*`): the proof is syntactic and the content is the
  transliteration (compared by K). Only `C05_total_single_signature` (and through it `…_concatenation_proof`,
  `…_aggregate_signature`) proves something about unchecked arithmetic (`idxLoop`: `mulU`, `addU`).
* `isPanic` only sees arithmetic overflow; allocation / stack are outside the model (stated in the level text).
-/
set_option autoImplicit false
open LegacyDec Decoder LegacyEnc C05
namespace Vacuity.C05

/-- totality, interesting branch: the 24-byte input whose length prefix is `2^64 - 1` (on which `8 + size` overflows, the
panic of the code before the fix) is an error for the envelope decoder, and — wrapped as the single element of a
concatenation proof / aggregate signature — for the two outer decoders as well -/
example :
    evil.length < 2 ^ 63 ∧ beU64 (evil.take 8) + 8 > U64MAX ∧
    (match sigReg exO evil with | .err => true | _ => false) = true ∧
    (match proof exO (be8 1 ++ be8 24 ++ evil) with | .err => true | _ => false) = true ∧
    (match aggregate exO (0 :: (be8 1 ++ be8 24 ++ evil)) with | .err => true | _ => false) = true := by
  decide +kernel

/-- `C05_bounded_loop`: every hypothesis at once with `k = 3` iterations: `3 * 8 + 8 ≤ |bytes|` -/
example :
    (encSingle exS).length < 2 ^ 63 ∧ idxLoop (encSingle exS) 3 0 = .ok exS.indexes ∧ 8 ≤ (encSingle exS).length ∧
    (encSingle exS).length = 88 := by
  decide +kernel

/-- `C05_legacy_roundtrip_aggregate_signature_compressed_partial`: ALL hypotheses at once (oracle accepting only
compressed keys, well-formed proof with two signatures, index counts and path length below 2^56, length bound), and the
conclusion computed independently -/
example :
    CompressedKeys exO ∧ WF.proof exO exP ∧ (∀ sr ∈ exP.sigs, sr.1.indexes.length < 2 ^ 56) ∧
    exP.path.values.length < 2 ^ 56 ∧ (encAggregate exP).length < 2 ^ 63 ∧
    aggregate exO (encAggregate exP) = .ok (.val exP) := by
  refine ⟨?_, by decide +kernel, by decide +kernel, by decide +kernel, by decide +kernel, by decide +kernel⟩
  intro b x h hx
  simp only [exO, hx] at h
  have : x = 0xa3 := by simpa using h
  subst this; decide

/-- `C05_legacy_roundtrip_concatenation_proof_partial`: joint instance, both conjuncts of the conclusion -/
example :
    WF.proof exO exP ∧ Routed.proof exP ∧ (encProof exP).length < 2 ^ 63 ∧
    proof exO (encProof exP) = .ok (.val exP) ∧ proofVersioned exO (encProof exP) = .ok (.val exP) := by
  decide +kernel

/-- `C05_legacy_roundtrip_misrouted_key`: hypotheses (`|vk| = 96`, first byte 1) -/
example : ({ vk := 1 :: List.replicate 95 0, stake := 1 } : RegEntry).vk.length = 96 ∧
    ({ vk := 1 :: List.replicate 95 0, stake := 1 } : RegEntry).vk.head? = some 1 := by decide

/-- `C05_legacy_roundtrip_misrouted_count`: the hypotheses `2^56 ≤ count < 2^57` are satisfiable (by a value of more
than 2^59 bytes, which no harness can build: the statement is about the model only) -/
example : ∃ s : SingleSig, 2 ^ 56 ≤ s.indexes.length ∧ s.indexes.length < 2 ^ 57 :=
  ⟨{ indexes := List.replicate (2 ^ 56) 0, sigma := [], signerIndex := 0 },
    by simp only [List.length_replicate]; exact Nat.le_refl _, by simp only [List.length_replicate]; decide⟩

end Vacuity.C05
