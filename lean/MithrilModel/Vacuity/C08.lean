import MithrilModel.Properties.C08
/-!
# Vacuity audit of C08 (`Properties/C08.lean`, `Lottery*.lean`)

No hypothesis of a C08 theorem quantifies over functions or over records with free fields; every
hypothesis is an (in)equality between numbers or an evaluation of `won` / `taylor` / `f64ToRat`. The
examples below instantiate ALL hypotheses of each theorem at once, on the interesting branch (the Taylor
loop, not the `phi_f = 1` shortcut).

Parameters used: `phi_f = 0.2` (`0x3fc999999999999a`), `ln(1 - phi_f)` as the double the Rust side computes
(`0xbfcc8ff7c79a9a20`), `stake = total = 1`, draws `0` and `⌊2^512 / 10⌋` (ratio 0.1 < 0.2: won).
-/
namespace Vacuity.C08
open Lottery _root_.C08

def phi02 : Nat := 0x3fc999999999999a
def ln08 : Nat := 0xbfcc8ff7c79a9a20
def evTenth : Nat := 2 ^ 512 / 10

/-- `won_eq`, `C08_zero_stake`: all four hypotheses at once (and `ev < evMax`), non-degenerate values -/
example : ∃ phi c : Rat, f64ToRat phi02 = some phi ∧ phiIsOne phi = false ∧ f64ToRat ln08 = some c ∧
    (1 : Nat) ≠ 0 ∧ evTenth < evMax ∧ 0 < phi ∧ phi < 1 ∧ c < 0 := by
  refine ⟨(0x1999999999999a : Nat) / (2 ^ 55 : Nat), -((0x1c8ff7c79a9a20 : Nat) / (2 ^ 55 : Nat)), ?_, ?_, ?_, ?_, ?_, ?_, ?_, ?_⟩
    <;> decide +kernel

/-- `C08_mono_draw`: `e1 ≤ e2 < evMax` and the larger draw is won THROUGH THE TAYLOR LOOP (`phiIsOne` is
false for these parameters, previous example); the conclusion's instance is evaluated too -/
example : (0 : Nat) ≤ evTenth ∧ evTenth < evMax ∧ won phi02 ln08 evTenth 1 1 = .won ∧
    won phi02 ln08 0 1 1 = .won := by
  refine ⟨Nat.zero_le _, by decide +kernel, by decide +kernel, by decide +kernel⟩

/-- … and the statement is not "everything is won": a draw ratio of 0.9 loses with the same parameters -/
example : won phi02 ln08 (2 ^ 512 / 10 * 9) 1 1 = .lost := by decide +kernel

/-- `C08_phi_one`: both hypotheses -/
example : f64ToRat 0x3ff0000000000000 = some 1 ∧ phiIsOne 1 = true := by
  refine ⟨by decide +kernel, by decide +kernel⟩

/-- `C08_true_correct`, `C08_mono_stake_early`: `0 ≤ x ≤ x'`, and the draw is won at `x` -/
example : (0 : Rat) ≤ 1 / 2 ∧ (1 / 2 : Rat) ≤ 1 ∧ taylor 1000 (3 / 2) (1 / 2) = true := by
  refine ⟨by decide +kernel, by decide +kernel, by decide +kernel⟩

/-- `C08_false_correct`: `0 ≤ x ≤ 3/2` and a loss (N + 1 = 1000 rounds) -/
example : (0 : Rat) ≤ 1 / 2 ∧ (1 / 2 : Rat) ≤ 3 / 2 ∧ taylor (999 + 1) 2 (1 / 2) = false := by
  refine ⟨by decide +kernel, by decide +kernel, by decide +kernel⟩

/-- `C08_exact`: ALL hypotheses incl. the real-number band condition (first disjunct: the won side),
`N = 1`, `q = 1`, `x = 1/2`: `1 + 5·(1/2)^3/3! < 3/2 < exp (1/2)`; and the decision is `true`. -/
example : (0 : Rat) ≤ 1 / 2 ∧ (1 / 2 : Rat) ≤ 3 / 2 ∧
    (((1 : Rat) : ℝ) + 5 * ((((1 / 2 : Rat)) ^ (1 + 2) / ((1 + 2).factorial : Rat) : Rat) : ℝ) <
        Real.exp (((1 / 2 : Rat)) : ℝ) ∨ Real.exp (((1 / 2 : Rat)) : ℝ) ≤ ((1 : Rat) : ℝ)) ∧
    taylor (1 + 1) 1 (1 / 2) = true := by
  refine ⟨by decide +kernel, by decide +kernel, Or.inl ?_, by decide +kernel⟩
  have h := Real.add_one_lt_exp (x := (((1 / 2 : Rat)) : ℝ)) (by norm_num)
  have e : ((((1 / 2 : Rat)) ^ (1 + 2) / ((1 + 2).factorial : Rat) : Rat) : ℝ) = 1 / 48 := by
    norm_num [Nat.factorial]
  rw [e]
  have : (((1 / 2 : Rat)) : ℝ) = 1 / 2 := by norm_num
  rw [this] at h ⊢
  norm_num at h ⊢
  linarith

/-- `C08_exact`, the lost side (second disjunct): `exp (1/2) ≤ 2` -/
example : Real.exp (((1 / 2 : Rat)) : ℝ) ≤ ((2 : Rat) : ℝ) ∧ taylor (999 + 1) 2 (1 / 2) = false := by
  refine ⟨?_, by decide +kernel⟩
  -- independent of the model: exp(1/2) ≤ 1/(1 - 1/2) = 2
  have h2 : Real.exp (1 / 2 : ℝ) ≤ 2 := by
    have := Real.exp_bound_div_one_sub_of_interval' (x := (1 / 2 : ℝ)) (by norm_num) (by norm_num)
    have h3 : (1 / 2 : ℝ) ^ 2 / 2 ≥ 0 := by positivity
    nlinarith [Real.exp_pos (1 / 2 : ℝ)]
  have e1 : (((1 / 2 : Rat)) : ℝ) = 1 / 2 := by norm_num
  have e2 : ((2 : Rat) : ℝ) = 2 := by norm_num
  rw [e1, e2]
  exact h2

/-- `exponent_mono_stake`, `qgen_mono`, `qOf_mono`, `one_le_qgen` -/
example : (-1 / 4 : Rat) ≤ 0 ∧ (1 : Nat) ≤ 2 ∧ 0 < (3 : Nat) ∧ evTenth < evMax := by
  refine ⟨by decide +kernel, by decide, by decide, by decide +kernel⟩

/-- note (totalised division): for `ev ≥ 2^512` the model's `q = 2^512 / 0 = 0` in `Rat` and the draw is
"won" for the wrong reason — even with zero stake; every theorem about draws carries `ev < evMax`
(`C08_zero_stake`, `C08_mono_draw`), and a 64-byte `ev` is below `2^512`, so the branch is unreachable from
the code. -/
example : won phi02 ln08 evMax 0 1 = .won ∧ won phi02 ln08 evMax 1 1 = .won := by
  refine ⟨by decide +kernel, by decide +kernel⟩

end Vacuity.C08
