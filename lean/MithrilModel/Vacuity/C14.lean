import MithrilModel.Properties.C14
import MithrilModel.AggProgress
/-!
# Vacuity audit — C14

Joint satisfiability of the hypotheses of every theorem of `Properties/C14.lean`, on ONE concrete history of
the model from `init 2 1` (environment `Agg.Ex`: quorum = 2 distinct lottery indices) that certifies five
signed entities over two epochs — and on the same history with a tick cut at a crash point for the `RunWfC`
theorems. No hypothesis of C14 quantifies over all records / all functions, none is refutable outright.
ONE FINDING: the hypotheses of `C14_gap_blocks` (an open message with no certificate of its epoch or of the one
before) are satisfiable only by hand-made states: `gap_hypothesis_unreachable` proves that no state reachable by a
`RunWfC` run from `init n g` meets them — the clause is vacuous for the model's own runs (the reachable epoch gap is
the one of `C14_gap_blocks_idle`). A remark on `C14_quorum` (it speaks about the environment's own, arbitrary,
test) is at the end.
-/
namespace Vacuity.C14
open Agg

/-! ### the run predicates are recursive `Prop`s: decision procedures, so that the examples are computed -/

instance decWf (E : Env) (s : St) (tp : Tp) : Decidable (Wf E s tp) := by unfold Wf; infer_instance

def decEvWf (E : Env) (s : St) : (ev : Event) → Decidable (EvWf E s ev)
  | .tick tp => decWf E s tp
  | .crash _ _ => isFalse id
  | .signature _ _ => isTrue trivial
  | .register _ _ => isTrue trivial
  | .expire _ => isTrue trivial
  | .restart => isTrue trivial

def decEvWfC (E : Env) (s : St) : (ev : Event) → Decidable (EvWfC E s ev)
  | .tick tp => decWf E s tp
  | .crash tp _ => decWf E s tp
  | .signature _ _ => isTrue trivial
  | .register _ _ => isTrue trivial
  | .expire _ => isTrue trivial
  | .restart => isTrue trivial

def decRunWf (E : Env) : (evs : List Event) → (s : St) → Decidable (RunWf E s evs)
  | [], _ => isTrue trivial
  | ev :: r, s =>
    match decEvWf E s ev, decRunWf E r (step E s ev) with
    | isTrue a, isTrue b => isTrue ⟨a, b⟩
    | isFalse a, _ => isFalse (fun h => a h.1)
    | _, isFalse b => isFalse (fun h => b h.2)

def decRunWfC (E : Env) : (evs : List Event) → (s : St) → Decidable (RunWfC E s evs)
  | [], _ => isTrue trivial
  | ev :: r, s =>
    match decEvWfC E s ev, decRunWfC E r (step E s ev) with
    | isTrue a, isTrue b => isTrue ⟨a, b⟩
    | isFalse a, _ => isFalse (fun h => a h.1)
    | _, isFalse b => isFalse (fun h => b h.2)

instance (E : Env) (s : St) (evs : List Event) : Decidable (RunWf E s evs) := decRunWf E evs s
instance (E : Env) (s : St) (evs : List Event) : Decidable (RunWfC E s evs) := decRunWfC E evs s

/-! ### the histories -/

/-- `Agg.hist` (genesis at epoch 1, epoch 2 initialised, registrations for epoch 3, open message of entity 20,
a signature carrying two lottery indices) and the tick that certifies entity 20 -/
def evs0 : List Event := hist ++ [.tick (tpx 2 [20])]
def sA : St := evs0.foldl (step Ex) (init 2 1)

/-- four more rounds: entity 20 is offered again (already certified: the scan passes on to 21, then 22), then
epoch 3 (entities 30, 31) -/
def plan : List Round := [rdx 2 [20, 21], rdx 2 [20, 21, 22], rdx 3 [30], rdx 3 [31]]

/-- a history WITHOUT cut ticks (28 events: ticks, registrations, signatures) -/
def evsA : List Event := evs0 ++ runPlan Ex sA plan

/-- the same with a tick cut between the certificate insert and the open-message update, and a restart -/
def evsC : List Event :=
  hist ++ [.crash (tpx 2 [20]) .certAfterInsert, .restart] ++ runPlan Ex (postCrash .certAfterInsert) plan

def finalA : St := evsA.foldl (step Ex) (init 2 1)
def finalC : St := evsC.foldl (step Ex) (init 2 1)

/-- does the stored certificate pass the model of the client's chain verifier over the table (computed, not proved) -/
def verifies (certs : List CertRec) (c : CertRec) : Bool :=
  match Chain.verifyChain (retr certs) (c.id + 2) (toChain c) with
  | .ok () => true
  | .error _ => false

/-! ### `C14_no_double` (hypothesis `RunWf`) -/

/-- the hypothesis holds of `evsA`; the table ends with five certificates of signed entities (so the premise
`c1.entity = some e ∧ c2.entity = some e` of the conclusion is inhabited), entity 20 was offered again twice
after its certification -/
example : RunWf Ex (init 2 1) evsA ∧
    finalA.certs.map (fun c => (c.id, c.entity, c.epoch, c.parent)) =
      [(0, none, 1, none), (1, some 20, 2, some 0), (2, some 21, 2, some 1), (3, some 22, 2, some 1),
       (4, some 30, 3, some 1), (5, some 31, 3, some 4)] := by
  decide +kernel

/-- `RunWf` is what keeps cut ticks out: with the cut, the same entity IS certified twice (ids 1 and 2) — the
hypothesis is not decoration -/
example : ¬ RunWf Ex (init 2 1) evsC ∧ RunWfC Ex (init 2 1) evsC ∧
    finalC.certs.map (fun c => (c.id, c.entity, c.epoch, c.parent)) =
      [(0, none, 1, none), (1, some 20, 2, some 0), (2, some 20, 2, some 1), (3, some 21, 2, some 1),
       (4, some 30, 3, some 1), (5, some 31, 3, some 4)] := by
  decide +kernel

/-! ### `C14_parent_rule`, `C14_epoch_order`, `C14_avk_of_epoch`, `C14_stored_verified` (hypothesis `RunWfC`) -/

/-- both histories satisfy `RunWfC`; both branches of the parent rule occur (certificate 2 → parent 1 of the same
epoch; certificate 4, first of epoch 3 → parent 1, first of epoch 2; certificate 1 → the genesis certificate);
every certificate passes the chain verifier (evaluated on the table, independently of the proof) -/
example : RunWfC Ex (init 2 1) evsA ∧ RunWfC Ex (init 2 1) evsC ∧
    finalA.certs.all (verifies finalA.certs) = true ∧ finalC.certs.all (verifies finalC.certs) = true ∧
    finalC.certs.map (fun c => (c.avk, c.epoch)) = [(1, 1), (2, 2), (2, 2), (2, 2), (3, 3), (3, 3)] := by
  decide +kernel

/-- the verdict is not constant: a table whose second certificate names a parent of a later epoch fails -/
example : verifies
    [{ id := 0, entity := none, epoch := 3, parent := none, avk := 3, signers := [] },
     { id := 1, entity := some 20, epoch := 2, parent := some 0, avk := 2, signers := [] }]
    { id := 1, entity := some 20, epoch := 2, parent := some 0, avk := 2, signers := [] } = false := by
  decide

/-! ### `C14_regs_frozen` (hypotheses `RunWfC`, `regClass … = .ok`) -/

/-- a registration that IS accepted in the final state (round 4 is open), next to certificates of epochs 1..3 -/
example : RunWfC Ex (init 2 1) evsA ∧ regClass finalA 4 0 = .ok ∧ finalA.certs.map (·.epoch) = [1, 2, 2, 2, 3, 3] ∧
    regClass finalA 3 7 = .epoch := by
  decide +kernel

/-! ### `C14_quorum`, `C14_inserts_newCert` (hypothesis `newCert E s e = some c`, any state) -/

/-- in the reachable state after `hist` (SIGNING entity 20, one signature with two indices on the table) -/
example : newCert Ex (hist.foldl (step Ex) (init 2 1)) 20 =
      some { id := 1, entity := some 20, epoch := 2, parent := some 0, avk := 2, signers := [0] } ∧
    newCert Ex ((hist.dropLast).foldl (step Ex) (init 2 1)) 20 = none := by
  decide +kernel

/-! ### `C14_signature_verified` (an `↔`, no hypothesis): both sides occur -/

example :
    let s := (hist.dropLast).foldl (step Ex) (init 2 1)
    sigClass s 20 (honestSig (rdx 2 [20]) 102 0) = .registered ∧
    sigClass s 20 { honestSig (rdx 2 [20]) 102 0 with party := 1 } = .invalid ∧
    sigClass s 20 { honestSig (rdx 2 [20]) 102 0 with party := 5, signer := 5 } = .storeErr := by
  decide +kernel

/-! ### `C14_gap_blocks` (hypotheses: an open message, no certificate of its epoch or the one before) -/

/-- a hand-made state: `Agg.s1` with the open message moved to epoch 5 (the only certificate is of epoch 1).
No such state is reachable in the model (`gap_hypothesis_unreachable` below): an open message is created by a READY tick
of its epoch, READY is entered from IDLE only when the latest certificate is of the epoch or the one before, and
certificates are never removed — so this clause is about tables the model never produces (defensive); the reachable
gap is the one of `C14_gap_blocks_idle`. -/
def sGap : St :=
  { s1 with oms := [{ entity := 7, epoch := 5, msg := 0, certified := false, expired := false, expiresAt := none }] }

example : findOm 7 sGap.oms = some { entity := 7, epoch := 5, msg := 0, certified := false, expired := false, expiresAt := none } ∧
    (∀ c ∈ sGap.certs, c.epoch ≠ 5 ∧ c.epoch + 1 ≠ 5) ∧ E1.quorum 7 (sGap.sigs.filter (·.entity = 7)) = true ∧
    newCert E1 sGap 7 = none ∧ (newCert E1 s1 7).isSome = true := by
  decide

/-! ### FINDING: the hypotheses of `C14_gap_blocks` hold in NO reachable state of the model

`GapInv`: every open message, and the epoch of a READY / SIGNING runtime, has a stored certificate of that epoch or of the
one before. It holds after genesis and is preserved by every event of a `RunWfC` run (together with `SInv`). -/

/-- some stored certificate is of epoch `ep` or of the one before -/
def Near (certs : List CertRec) (ep : Nat) : Prop := ∃ c ∈ certs, c.epoch = ep ∨ c.epoch + 1 = ep

def rtEpoch : Rt → Option Nat
  | .ready ep => some ep
  | .signing ep _ => some ep
  | _ => none

structure GapInv (s : St) : Prop where
  oms : ∀ o ∈ s.oms, Near s.certs o.epoch
  rt : ∀ ep, rtEpoch s.rt = some ep → Near s.certs ep

theorem Near.mono {certs certs' : List CertRec} {ep : Nat} (h : Near certs ep) (hc : ∀ c ∈ certs, c ∈ certs') :
    Near certs' ep := by
  obtain ⟨c, hm, he⟩ := h
  exact ⟨c, hc c hm, he⟩

theorem updOm_epochs {e : Nat} {f : OM → OM} {oms : List OM} (hf : ∀ o, (f o).epoch = o.epoch) :
    ∀ o ∈ updOm e f oms, ∃ o0 ∈ oms, o.epoch = o0.epoch := by
  intro o ho
  obtain ⟨o0, h0, h1⟩ := mem_updOm ho
  rcases h1 with rfl | ⟨_, rfl⟩
  · exact ⟨_, h0, rfl⟩
  · exact ⟨o0, h0, hf o0⟩

theorem markExpired_epochs (now e : Nat) (oms : List OM) :
    ∀ o ∈ markExpired now e oms, ∃ o0 ∈ oms, o.epoch = o0.epoch :=
  updOm_epochs (fun o => (markExpired_mono now o).2.1)

theorem scan_epochs (E : Env) (tp : Tp) : ∀ (l : List Nat) (oms : List OM), ∀ o ∈ (scan E tp l oms).1,
    (∃ o0 ∈ oms, o.epoch = o0.epoch) ∨ (∃ e ∈ l, o.epoch = E.entityEpoch e) := by
  intro l
  induction l with
  | nil => intro oms o ho; exact Or.inl ⟨o, ho, rfl⟩
  | cons a r ih =>
    intro oms o ho
    rw [scan_cons] at ho
    split at ho
    · rcases List.mem_append.mp ho with ho | ho
      · exact Or.inl (markExpired_epochs _ _ _ o ho)
      · simp only [List.mem_singleton] at ho; subst ho
        exact Or.inr ⟨a, by simp, rfl⟩
    · split at ho
      · exact Or.inl (markExpired_epochs _ _ _ o ho)
      · rcases ih _ o ho with ⟨o1, h1, h2⟩ | ⟨e, he, h2⟩
        · obtain ⟨o0, h0, h3⟩ := markExpired_epochs _ _ _ o1 h1
          exact Or.inl ⟨o0, h0, h2.trans h3⟩
        · exact Or.inr ⟨e, List.mem_cons_of_mem _ he, h2⟩

theorem idleStep_rt (s : St) (tp : Tp) (last : Option Nat) :
    (idleStep s tp last).rt = s.rt ∨ (∃ w, (idleStep s tp last).rt = .blocked tp.epoch w) ∨
    ((idleStep s tp last).rt = .ready tp.epoch ∧
      ∃ latest, s.certs.getLast? = some latest ∧ ¬ absDiff tp.epoch latest.epoch > 1) := by
  unfold idleStep
  dsimp only
  have hcerts : (epochInit s tp).certs = s.certs := rfl
  cases (last.isNone || last.any (· < tp.epoch))
  · simp only [Bool.false_and, Bool.false_eq_true, if_false]
    split
    · exact Or.inr (Or.inl ⟨_, rfl⟩)
    · rename_i latest hl
      split
      · exact Or.inr (Or.inl ⟨_, rfl⟩)
      · rename_i hgap
        split
        · exact Or.inr (Or.inl ⟨_, rfl⟩)
        · split
          · exact Or.inr (Or.inl ⟨_, rfl⟩)
          · exact Or.inr (Or.inr ⟨rfl, latest, hl, hgap⟩)
  · simp only [Bool.true_and, if_true]
    split
    · exact Or.inl rfl
    · split
      · exact Or.inr (Or.inl ⟨_, rfl⟩)
      · rename_i latest hl
        rw [hcerts] at hl
        split
        · exact Or.inr (Or.inl ⟨_, rfl⟩)
        · rename_i hgap
          split
          · exact Or.inr (Or.inl ⟨_, rfl⟩)
          · split
            · exact Or.inr (Or.inl ⟨_, rfl⟩)
            · exact Or.inr (Or.inr ⟨rfl, latest, hl, hgap⟩)

theorem readyStepCut_rt (E : Env) (s : St) (tp : Tp) (p : CrashPoint) :
    (readyStepCut E s tp p).rt = s.rt ∨ (readyStepCut E s tp p).rt = .ready tp.epoch ∨
    ∃ e, (readyStepCut E s tp p).rt = .signing tp.epoch e := by
  unfold readyStepCut
  split
  · rename_i oms' e heq
    dsimp only
    have hc := handOverGo_core e (({ s with oms := oms' } : St).buf.filter (·.disc = E.entityDisc e)).reverse { s with oms := oms' } []
    have hN : (handOverNoRemoval E { s with oms := oms' } e).1.rt = s.rt := by
      unfold handOverNoRemoval
      split <;> (rename_i heq3; rw [heq3] at hc; exact hc.2.2.2.2)
    have hH : (handOver E { s with oms := oms' } e).1.rt = s.rt := (handOver_core E { s with oms := oms' } e).2.2.2.2
    split
    · exact Or.inr (Or.inr ⟨e, rfl⟩)
    · split
      · exact Or.inl rfl
      · split
        · exact Or.inr (Or.inr ⟨e, rfl⟩)
        · rename_i s2 heq2; rw [heq2] at hN; exact Or.inl hN
      · split
        · exact Or.inr (Or.inr ⟨e, rfl⟩)
        · rename_i s2 heq2; rw [heq2] at hH; exact Or.inl hH
  · exact Or.inr (Or.inl rfl)

theorem crashTick_gap {E : Env} {s : St} (tp : Tp) (p : CrashPoint) (hi : SInv E s) (hw : Wf E s tp) (h : GapInv s) :
    GapInv (crashTick E s tp p) := by
  obtain ⟨hseen, hav⟩ := hw
  unfold crashTick
  split
  · -- idle
    rename_i last hrt
    have hcerts := (idleStep_se s tp last).2
    refine ⟨?_, ?_⟩
    · rw [hcerts]
      rcases idleStep_oms s tp last with h1 | h1 <;> rw [h1]
      · exact h.oms
      · intro o ho; exact h.oms o (List.mem_filter.mp ho).1
    · intro ep hep
      rw [hcerts]
      rcases idleStep_rt s tp last with h1 | ⟨w, h1⟩ | ⟨h1, latest, hl, hgap⟩
      · rw [h1, hrt] at hep; cases hep
      · rw [h1] at hep; cases hep
      · rw [h1] at hep
        simp only [rtEpoch, Option.some.injEq] at hep
        subst hep
        have hm := getLast?_mem hl
        have hle := hi.certLe latest hm
        refine ⟨latest, hm, ?_⟩
        unfold absDiff at hgap
        split at hgap <;> omega
  · -- blocked
    split
    · exact ⟨h.oms, fun ep hep => by cases hep⟩
    · exact h
  · -- ready
    rename_i ep hrt
    split
    · exact ⟨h.oms, fun ep hep => by cases hep⟩
    · rename_i hnlt
      have hep : ep = tp.epoch := by
        have := (hi.ready ep hrt).1
        omega
      have hnear : Near s.certs tp.epoch := by rw [← hep]; exact h.rt ep (by rw [hrt]; rfl)
      have hcerts := (readyStepCut_se E s tp p).2
      refine ⟨?_, ?_⟩
      · rw [hcerts, readyStepCut_oms]
        intro o ho
        rcases scan_epochs E tp tp.avail s.oms o ho with ⟨o0, h0, h1⟩ | ⟨e, he, h1⟩
        · rw [h1]; exact h.oms o0 h0
        · rw [h1, hav e he]; exact hnear
      · intro ep' hep'
        rw [hcerts]
        rcases readyStepCut_rt E s tp p with h1 | h1 | ⟨e, h1⟩
        · rw [h1, hrt] at hep'
          simp only [rtEpoch, Option.some.injEq] at hep'
          rw [← hep', hep]; exact hnear
        · rw [h1] at hep'
          simp only [rtEpoch, Option.some.injEq] at hep'
          rw [← hep']; exact hnear
        · rw [h1] at hep'
          simp only [rtEpoch, Option.some.injEq] at hep'
          rw [← hep']; exact hnear
  · -- signing
    rename_i ep e hrt
    have hnear : Near s.certs ep := h.rt ep (by rw [hrt]; rfl)
    have homs : ∀ o ∈ markExpired tp.now e s.oms, Near s.certs o.epoch := by
      intro o ho
      obtain ⟨o0, h0, h1⟩ := markExpired_epochs _ _ _ o ho
      rw [h1]; exact h.oms o0 h0
    unfold signingStepCut
    dsimp only
    split
    · exact ⟨homs, fun ep' hep' => by cases hep'⟩
    · split
      · refine ⟨homs, fun ep' hep' => ?_⟩
        simp only [rtEpoch, Option.some.injEq] at hep'
        rw [← hep']; exact hnear
      · split
        · rename_i c hc
          have hsub : ∀ c' ∈ s.certs, c' ∈ s.certs ++ [c] := fun c' h' => List.mem_append_left _ h'
          have homs2 : ∀ o ∈ updOm e (fun o => { o with certified := true }) (markExpired tp.now e s.oms),
              Near (s.certs ++ [c]) o.epoch := by
            intro o ho
            obtain ⟨o1, h1, h2⟩ := updOm_epochs (f := fun o => { o with certified := true }) (fun _ => rfl) o ho
            rw [h2]; exact (homs o1 h1).mono hsub
          have hrt1 : ∀ ep', rtEpoch s.rt = some ep' → Near (s.certs ++ [c]) ep' := by
            intro ep' hep'
            rw [hrt] at hep'
            simp only [rtEpoch, Option.some.injEq] at hep'
            rw [← hep']; exact hnear.mono hsub
          have hrt2 : ∀ ep', rtEpoch (readyOf s.rt) = some ep' → Near (s.certs ++ [c]) ep' := by
            intro ep' hep'
            rw [hrt] at hep'
            simp only [readyOf, rtEpoch, Option.some.injEq] at hep'
            rw [← hep']; exact hnear.mono hsub
          unfold createCertificateCut
          cases p <;> dsimp only
          · exact ⟨homs, fun ep' hep' => by
              have := h.rt ep' hep'; exact this⟩
          · exact ⟨fun o ho => (homs o ho).mono hsub, hrt1⟩
          · exact ⟨homs2, hrt1⟩
          all_goals exact ⟨homs2, hrt2⟩
        · exact ⟨homs, fun ep' hep' => h.rt ep' hep'⟩

theorem step_gap {E : Env} {s : St} (ev : Event) (hi : SInv E s) (hw : EvWfC E s ev) (h : GapInv s) :
    GapInv (step E s ev) := by
  cases ev with
  | tick tp =>
    show GapInv { tick E s tp with seen := tp.epoch }
    rw [tick_eq_crashTick]
    exact ⟨(crashTick_gap tp _ hi hw h).oms, (crashTick_gap tp _ hi hw h).rt⟩
  | crash tp p => exact ⟨(crashTick_gap tp p hi hw h).oms, (crashTick_gap tp p hi hw h).rt⟩
  | signature e g =>
    show GapInv (registerSig E s e g)
    unfold registerSig
    split
    · exact ⟨h.oms, h.rt⟩
    · exact ⟨h.oms, h.rt⟩
    · exact h
  | register k p =>
    show GapInv (register s k p)
    unfold register
    split
    · exact ⟨h.oms, h.rt⟩
    · exact h
  | expire e =>
    refine ⟨?_, h.rt⟩
    intro o ho
    obtain ⟨o0, h0, h1⟩ := updOm_epochs (f := fun o => { o with expiresAt := some 0 }) (fun _ => rfl) o ho
    rw [h1]; exact h.oms o0 h0
  | restart => exact ⟨h.oms, fun ep hep => by cases hep⟩

theorem run_gap (E : Env) : ∀ (evs : List Event) (s : St), SInv E s → GapInv s → RunWfC E s evs →
    GapInv (evs.foldl (step E) s) := by
  intro evs
  induction evs with
  | nil => intro s _ h _; exact h
  | cons ev r ih => intro s hi h hw; exact ih _ (step_sinv ev hi hw.1) (step_gap ev hi hw.1 h) hw.2

theorem gap_init (n g : Nat) : GapInv (init n g) :=
  ⟨fun o ho => by simp [init] at ho, fun ep hep => by simp [init, rtEpoch] at hep⟩

/-- **the hypotheses of `C14_gap_blocks` are met by no reachable state of the model**: along every run (cut ticks
included) every open message has a stored certificate of its epoch or of the one before -/
theorem gap_hypothesis_unreachable (E : Env) (n g : Nat) (evs : List Event) (hw : RunWfC E (init n g) evs) (e : Nat) (o : OM)
    (ho : findOm e (evs.foldl (step E) (init n g)).oms = some o) :
    ¬ ∀ c ∈ (evs.foldl (step E) (init n g)).certs, c.epoch ≠ o.epoch ∧ c.epoch + 1 ≠ o.epoch := by
  intro hgap
  obtain ⟨c, hc, hce⟩ := (run_gap E evs (init n g) (sinv_init E n g) (gap_init n g) hw).oms o (findOm_some ho).1
  obtain ⟨h1, h2⟩ := hgap c hc
  rcases hce with h | h
  · exact h1 h
  · exact h2 h

/-! ### `C14_gap_blocks_idle` (hypotheses: a latest certificate, `absDiff tp.epoch latest.epoch > 1`) -/

/-- reachable: epoch 2 passes without a certificate (signers do register for epoch 3), epoch 3 arrives -/
def histGap : List Event :=
  [.tick (tpx 1 []), .register 2 0, .register 2 1, .tick (tpx 2 [20]), .tick (tpx 2 [20]), .register 3 0, .register 3 1,
   .tick (tpx 3 [30])]
def sIdle : St := histGap.foldl (step Ex) (init 2 1)

example : RunWf Ex (init 2 1) (histGap ++ [.tick (tpx 3 [30])]) ∧ sIdle.rt = .idle (some 2) ∧
    sIdle.certs.getLast? = some { id := 0, entity := none, epoch := 1, parent := none, avk := 1, signers := [] } ∧
    absDiff (tpx 3 [30]).epoch 1 > 1 ∧ (idleStep sIdle (tpx 3 [30]) (some 2)).rt = .blocked 3 2 ∧
    (step Ex sIdle (.tick (tpx 3 [30]))).rt = .blocked 3 2 := by
  decide +kernel

/-- the other disjunct (`rt` kept): right after genesis at epoch 1 the first tick comes at epoch 3, nobody is
registered for it, the epoch initialisation fails before the gap test -/
example : absDiff (tpx 3 []).epoch 1 > 1 ∧ (idleStep (init 2 1) (tpx 3 []) none).rt = (init 2 1).rt := by decide

/-! ### the quorum clause says what `E.quorum` says

`C14_quorum` concludes `E.quorum e rows = true` for the environment's OWN test, an arbitrary function (in the
file's non-vacuity example, `Agg.E1`, it is constantly `true`). The reading "the stored signatures reach the
quorum" needs the test to be the one the harness instantiates: -/

theorem quorum_indices (k : Nat) (E : Env) (hE : ∀ e rows, E.quorum e rows = quorumIdx k rows) (s : St) (e : Nat)
    (c : CertRec) (h : newCert E s e = some c) :
    k ≤ (((s.sigs.filter (·.entity = e)).flatMap (·.idx)).eraseDups).length := by
  obtain ⟨_, _, _, _, _, _, hq, _⟩ := C14.C14_quorum E s e c h
  rw [hE] at hq
  exact (C14.C14_quorum_idx k _).mp hq

example : (∀ e rows, Ex.quorum e rows = quorumIdx 2 rows) ∧
    (newCert Ex (hist.foldl (step Ex) (init 2 1)) 20).isSome = true := ⟨fun _ _ => rfl, by decide +kernel⟩

end Vacuity.C14
