import MithrilModel.Properties.C14
import MithrilModel.AggProgress
/-!
# Vacuity audit — C14

Joint satisfiability of the hypotheses of every theorem of `Properties/C14.lean`, on ONE concrete history of
the model from `init 2 1` (environment `Agg.Ex`: quorum = 2 distinct lottery indices) that certifies five
signed entities over two epochs — and on the same history with a tick cut at a crash point for the `RunWfC`
theorems. No hypothesis of C14 quantifies over all records / all functions; nothing was refuted. Notes on the
conclusions are at the end.
-/
namespace Vacuity.C14
open Agg

/-! ### the run predicates are recursive `Prop`s: decision procedures, so that the examples are computed -/

instance decWf (E : Env) (s : St) (tp : Tp) : Decidable (Wf E s tp) := by unfold Wf; infer_instance

def decEvWf (E : Env) (s : St) : (ev : Event) → Decidable (EvWf E s ev)
  | .tick tp => decWf E s tp
  | .crash _ _ => isFalse id
  | .signature _ _ => isTrue trivial
  | .register _ _ => isTrue trivial
  | .expire _ => isTrue trivial
  | .restart => isTrue trivial

def decEvWfC (E : Env) (s : St) : (ev : Event) → Decidable (EvWfC E s ev)
  | .tick tp => decWf E s tp
  | .crash tp _ => decWf E s tp
  | .signature _ _ => isTrue trivial
  | .register _ _ => isTrue trivial
  | .expire _ => isTrue trivial
  | .restart => isTrue trivial

def decRunWf (E : Env) : (evs : List Event) → (s : St) → Decidable (RunWf E s evs)
  | [], _ => isTrue trivial
  | ev :: r, s =>
    match decEvWf E s ev, decRunWf E r (step E s ev) with
    | isTrue a, isTrue b => isTrue ⟨a, b⟩
    | isFalse a, _ => isFalse (fun h => a h.1)
    | _, isFalse b => isFalse (fun h => b h.2)

def decRunWfC (E : Env) : (evs : List Event) → (s : St) → Decidable (RunWfC E s evs)
  | [], _ => isTrue trivial
  | ev :: r, s =>
    match decEvWfC E s ev, decRunWfC E r (step E s ev) with
    | isTrue a, isTrue b => isTrue ⟨a, b⟩
    | isFalse a, _ => isFalse (fun h => a h.1)
    | _, isFalse b => isFalse (fun h => b h.2)

instance (E : Env) (s : St) (evs : List Event) : Decidable (RunWf E s evs) := decRunWf E evs s
instance (E : Env) (s : St) (evs : List Event) : Decidable (RunWfC E s evs) := decRunWfC E evs s

/-! ### the histories -/

/-- `Agg.hist` (genesis at epoch 1, epoch 2 initialised, registrations for epoch 3, open message of entity 20,
a signature carrying two lottery indices) and the tick that certifies entity 20 -/
def evs0 : List Event := hist ++ [.tick (tpx 2 [20])]
def sA : St := evs0.foldl (step Ex) (init 2 1)

/-- four more rounds: entity 20 is offered again (already certified: the scan passes on to 21, then 22), then
epoch 3 (entities 30, 31) -/
def plan : List Round := [rdx 2 [20, 21], rdx 2 [20, 21, 22], rdx 3 [30], rdx 3 [31]]

/-- a history WITHOUT cut ticks (28 events: ticks, registrations, signatures) -/
def evsA : List Event := evs0 ++ runPlan Ex sA plan

/-- the same with a tick cut between the certificate insert and the open-message update, and a restart -/
def evsC : List Event :=
  hist ++ [.crash (tpx 2 [20]) .certAfterInsert, .restart] ++ runPlan Ex (postCrash .certAfterInsert) plan

def finalA : St := evsA.foldl (step Ex) (init 2 1)
def finalC : St := evsC.foldl (step Ex) (init 2 1)

/-- does the stored certificate pass the model of the client's chain verifier over the table (computed, not proved) -/
def verifies (certs : List CertRec) (c : CertRec) : Bool :=
  match Chain.verifyChain (retr certs) (c.id + 2) (toChain c) with
  | .ok () => true
  | .error _ => false

/-! ### `C14_no_double` (hypothesis `RunWf`) -/

/-- the hypothesis holds of `evsA`; the table ends with five certificates of signed entities (so the premise
`c1.entity = some e ∧ c2.entity = some e` of the conclusion is inhabited), entity 20 was offered again twice
after its certification -/
example : RunWf Ex (init 2 1) evsA ∧
    finalA.certs.map (fun c => (c.id, c.entity, c.epoch, c.parent)) =
      [(0, none, 1, none), (1, some 20, 2, some 0), (2, some 21, 2, some 1), (3, some 22, 2, some 1),
       (4, some 30, 3, some 1), (5, some 31, 3, some 4)] := by
  decide +kernel

/-- `RunWf` is what keeps cut ticks out: with the cut, the same entity IS certified twice (ids 1 and 2) — the
hypothesis is not decoration -/
example : ¬ RunWf Ex (init 2 1) evsC ∧ RunWfC Ex (init 2 1) evsC ∧
    finalC.certs.map (fun c => (c.id, c.entity, c.epoch, c.parent)) =
      [(0, none, 1, none), (1, some 20, 2, some 0), (2, some 20, 2, some 1), (3, some 21, 2, some 1),
       (4, some 30, 3, some 1), (5, some 31, 3, some 4)] := by
  decide +kernel

/-! ### `C14_parent_rule`, `C14_epoch_order`, `C14_avk_of_epoch`, `C14_stored_verified` (hypothesis `RunWfC`) -/

/-- both histories satisfy `RunWfC`; both branches of the parent rule occur (certificate 2 → parent 1 of the same
epoch; certificate 4, first of epoch 3 → parent 1, first of epoch 2; certificate 1 → the genesis certificate);
every certificate passes the chain verifier (evaluated on the table, independently of the proof) -/
example : RunWfC Ex (init 2 1) evsA ∧ RunWfC Ex (init 2 1) evsC ∧
    finalA.certs.all (verifies finalA.certs) = true ∧ finalC.certs.all (verifies finalC.certs) = true ∧
    finalC.certs.map (fun c => (c.avk, c.epoch)) = [(1, 1), (2, 2), (2, 2), (2, 2), (3, 3), (3, 3)] := by
  decide +kernel

/-- the verdict is not constant: a table whose second certificate names a parent of a later epoch fails -/
example : verifies
    [{ id := 0, entity := none, epoch := 3, parent := none, avk := 3, signers := [] },
     { id := 1, entity := some 20, epoch := 2, parent := some 0, avk := 2, signers := [] }]
    { id := 1, entity := some 20, epoch := 2, parent := some 0, avk := 2, signers := [] } = false := by
  decide

/-! ### `C14_regs_frozen` (hypotheses `RunWfC`, `regClass … = .ok`) -/

/-- a registration that IS accepted in the final state (round 4 is open), next to certificates of epochs 1..3 -/
example : RunWfC Ex (init 2 1) evsA ∧ regClass finalA 4 0 = .ok ∧ finalA.certs.map (·.epoch) = [1, 2, 2, 2, 3, 3] ∧
    regClass finalA 3 7 = .epoch := by
  decide +kernel

/-! ### `C14_quorum`, `C14_inserts_newCert` (hypothesis `newCert E s e = some c`, any state) -/

/-- in the reachable state after `hist` (SIGNING entity 20, one signature with two indices on the table) -/
example : newCert Ex (hist.foldl (step Ex) (init 2 1)) 20 =
      some { id := 1, entity := some 20, epoch := 2, parent := some 0, avk := 2, signers := [0] } ∧
    newCert Ex ((hist.dropLast).foldl (step Ex) (init 2 1)) 20 = none := by
  decide +kernel

/-! ### `C14_signature_verified` (an `↔`, no hypothesis): both sides occur -/

example :
    let s := (hist.dropLast).foldl (step Ex) (init 2 1)
    sigClass s 20 (honestSig (rdx 2 [20]) 102 0) = .registered ∧
    sigClass s 20 { honestSig (rdx 2 [20]) 102 0 with party := 1 } = .invalid ∧
    sigClass s 20 { honestSig (rdx 2 [20]) 102 0 with party := 5, signer := 5 } = .storeErr := by
  decide +kernel

/-! ### `C14_gap_blocks` (hypotheses: an open message, no certificate of its epoch or the one before) -/

/-- a hand-made state: `Agg.s1` with the open message moved to epoch 5 (the only certificate is of epoch 1).
NOTE: no such state is reachable in the model — an open message is created by a READY tick of its epoch, READY is
entered from IDLE only when the latest certificate is of the epoch or the one before, and certificates are never
removed — so this clause is about tables the model never produces (defensive); the reachable gap is the one of
`C14_gap_blocks_idle` below. -/
def sGap : St :=
  { s1 with oms := [{ entity := 7, epoch := 5, msg := 0, certified := false, expired := false, expiresAt := none }] }

example : findOm 7 sGap.oms = some { entity := 7, epoch := 5, msg := 0, certified := false, expired := false, expiresAt := none } ∧
    (∀ c ∈ sGap.certs, c.epoch ≠ 5 ∧ c.epoch + 1 ≠ 5) ∧ E1.quorum 7 (sGap.sigs.filter (·.entity = 7)) = true ∧
    newCert E1 sGap 7 = none ∧ (newCert E1 s1 7).isSome = true := by
  decide

/-! ### `C14_gap_blocks_idle` (hypotheses: a latest certificate, `absDiff tp.epoch latest.epoch > 1`) -/

/-- reachable: epoch 2 passes without a certificate (signers do register for epoch 3), epoch 3 arrives -/
def histGap : List Event :=
  [.tick (tpx 1 []), .register 2 0, .register 2 1, .tick (tpx 2 [20]), .tick (tpx 2 [20]), .register 3 0, .register 3 1,
   .tick (tpx 3 [30])]
def sIdle : St := histGap.foldl (step Ex) (init 2 1)

example : RunWf Ex (init 2 1) (histGap ++ [.tick (tpx 3 [30])]) ∧ sIdle.rt = .idle (some 2) ∧
    sIdle.certs.getLast? = some { id := 0, entity := none, epoch := 1, parent := none, avk := 1, signers := [] } ∧
    absDiff (tpx 3 [30]).epoch 1 > 1 ∧ (idleStep sIdle (tpx 3 [30]) (some 2)).rt = .blocked 3 2 ∧
    (step Ex sIdle (.tick (tpx 3 [30]))).rt = .blocked 3 2 := by
  decide +kernel

/-- the other disjunct (`rt` kept): right after genesis at epoch 1 the first tick comes at epoch 3, nobody is
registered for it, the epoch initialisation fails before the gap test -/
example : absDiff (tpx 3 []).epoch 1 > 1 ∧ (idleStep (init 2 1) (tpx 3 []) none).rt = (init 2 1).rt := by decide

/-! ### the quorum clause says what `E.quorum` says

`C14_quorum` concludes `E.quorum e rows = true` for the environment's OWN test, an arbitrary function (in the
file's non-vacuity example, `Agg.E1`, it is constantly `true`). The reading "the stored signatures reach the
quorum" needs the test to be the one the harness instantiates: -/

theorem quorum_indices (k : Nat) (E : Env) (hE : ∀ e rows, E.quorum e rows = quorumIdx k rows) (s : St) (e : Nat)
    (c : CertRec) (h : newCert E s e = some c) :
    k ≤ (((s.sigs.filter (·.entity = e)).flatMap (·.idx)).eraseDups).length := by
  obtain ⟨_, _, _, _, _, _, hq, _⟩ := C14.C14_quorum E s e c h
  rw [hE] at hq
  exact (C14.C14_quorum_idx k _).mp hq

example : (∀ e rows, Ex.quorum e rows = quorumIdx 2 rows) ∧
    (newCert Ex (hist.foldl (step Ex) (init 2 1)) 20).isSome = true := ⟨fun _ _ => rfl, by decide +kernel⟩

end Vacuity.C14
